//! C18 — drawdowns. Drives the real `DrawdownGenerator` / `MaxDrawdownGenerator` /
//! `MeanDrawdownGenerator` and both tear-sheet generators of /repo.
//!
//! First op of a case: `raw` | `rawinit v t` | `asset v t` | `instr t`; then `pt v t` (raw, asset),
//! `pos d t` (instr: realised PnL `d` of a position exited at `t`), `gen` (generate on a clone),
//! `gen!` (generate on the tear sheet itself). Times are milliseconds since the Unix epoch.
use barter::{
    Timed,
    engine::state::position::PositionExited,
    statistic::{
        metric::drawdown::{
            Drawdown, DrawdownGenerator,
            max::{MaxDrawdown, MaxDrawdownGenerator},
            mean::{MeanDrawdown, MeanDrawdownGenerator},
        },
        summary::{asset::TearSheetAssetGenerator, instrument::TearSheetGenerator},
        time::Daily,
    },
};
use barter_execution::{
    balance::{AssetBalance, Balance},
    trade::AssetFees,
};
use barter_instrument::{Side, asset::AssetIndex, instrument::InstrumentIndex};
use barter_integration::snapshot::Snapshot;
use chrono::{DateTime, Utc};
use rust_decimal::Decimal;
use vh::*;

fn time(ms: i64) -> DateTime<Utc> {
    DateTime::<Utc>::from_timestamp_millis(ms).expect("time in range")
}

fn ms(t: DateTime<Utc>) -> i64 {
    t.timestamp_millis()
}

fn fmt_dd(d: Option<&Drawdown>) -> String {
    match d {
        None => "none".into(),
        Some(d) => format!(
            "{} {} {}",
            fmt_dec_approx(d.value),
            ms(d.time_start),
            ms(d.time_end)
        ),
    }
}

fn fmt_mean(m: Option<MeanDrawdown>) -> String {
    match m {
        None => "none".into(),
        Some(m) => format!("{} {}", fmt_dec_approx(m.mean_drawdown), m.mean_drawdown_ms),
    }
}

fn fmt_max(m: Option<MaxDrawdown>) -> String {
    fmt_dd(m.as_ref().map(|m| &m.0))
}

fn obs_sheet(
    g: &DrawdownGenerator,
    mean: &MeanDrawdownGenerator,
    max: &MaxDrawdownGenerator,
    lines: &mut Vec<String>,
) {
    lines.push(format!(
        "state {} {} {} {}",
        fmt_opt_dec(g.peak),
        fmt_dec_approx(g.drawdown_max),
        g.time_peak
            .map(|t| ms(t).to_string())
            .unwrap_or_else(|| "none".into()),
        ms(g.time_now)
    ));
    // `generate` takes `&mut self` but only reads: call it on a clone
    lines.push(format!("cur {}", fmt_dd(g.clone().generate().as_ref())));
    lines.push(format!("count {}", mean.count));
    lines.push(format!("max {}", fmt_max(max.generate())));
    lines.push(format!("mean {}", fmt_mean(mean.generate())));
}

fn obs_report(
    cur: Option<&Drawdown>,
    count: u64,
    max: Option<MaxDrawdown>,
    mean: Option<MeanDrawdown>,
    lines: &mut Vec<String>,
) {
    lines.push(format!("g_cur {}", fmt_dd(cur)));
    lines.push(format!("g_count {count}"));
    lines.push(format!("g_max {}", fmt_max(max)));
    lines.push(format!("g_mean {}", fmt_mean(mean)));
}

enum Driven {
    Unset,
    Raw(DrawdownGenerator, MeanDrawdownGenerator, MaxDrawdownGenerator),
    Asset(TearSheetAssetGenerator),
    Instr(TearSheetGenerator),
}

/// A closed position with realised PnL `pnl`, exited at `t`. The entry notional is huge (1e27) so
/// that the *returns* data set of `PnLReturns` (C16/C17 territory, not observed here) stays
/// numerically trivial: with notional 1 some variances make `Decimal::sqrt` panic inside
/// `Dispersion::update` ("geo mean circuit breaker") before the drawdown code is reached.
fn position(pnl: Decimal, t: DateTime<Utc>) -> PositionExited<AssetIndex, InstrumentIndex> {
    PositionExited {
        instrument: InstrumentIndex(0),
        side: Side::Buy,
        price_entry_average: Decimal::from_i128_with_scale(10i128.pow(27), 0),
        quantity_abs_max: Decimal::ONE,
        pnl_realised: pnl,
        fees_enter: AssetFees::new(AssetIndex(0), Decimal::ZERO),
        fees_exit: AssetFees::new(AssetIndex(0), Decimal::ZERO),
        time_enter: t,
        time_exit: t,
        trades: vec![],
    }
}

fn run() {
    run_cases(|case, lines| {
        let mut driven = Driven::Unset;
        for op in case.ops.iter() {
            lines.push("@".into());
            let toks: Vec<&str> = op.iter().map(|s| s.as_str()).collect();
            match (&mut driven, toks.as_slice()) {
                (Driven::Unset, ["raw"]) => {
                    let (g, mean, max) = (
                        DrawdownGenerator::default(),
                        MeanDrawdownGenerator::default(),
                        MaxDrawdownGenerator::default(),
                    );
                    obs_sheet(&g, &mean, &max, lines);
                    driven = Driven::Raw(g, mean, max);
                }
                (Driven::Unset, ["rawinit", v, t]) => {
                    let g = DrawdownGenerator::init(Timed::new(
                        parse_dec(v),
                        time(t.parse().unwrap()),
                    ));
                    let (mean, max) = (
                        MeanDrawdownGenerator::default(),
                        MaxDrawdownGenerator::default(),
                    );
                    obs_sheet(&g, &mean, &max, lines);
                    driven = Driven::Raw(g, mean, max);
                }
                (Driven::Unset, ["asset", v, t]) => {
                    let total = parse_dec(v);
                    let ts = TearSheetAssetGenerator::init(&Timed::new(
                        Balance::new(total, total),
                        time(t.parse().unwrap()),
                    ));
                    obs_sheet(&ts.drawdown, &ts.drawdown_mean, &ts.drawdown_max, lines);
                    driven = Driven::Asset(ts);
                }
                (Driven::Unset, ["instr", t]) => {
                    let ts = TearSheetGenerator::init(time(t.parse().unwrap()));
                    obs_sheet(
                        &ts.pnl_drawdown,
                        &ts.pnl_drawdown_mean,
                        &ts.pnl_drawdown_max,
                        lines,
                    );
                    driven = Driven::Instr(ts);
                }
                (Driven::Raw(g, mean, max), ["pt", v, t]) => {
                    let emitted = g.update(Timed::new(parse_dec(v), time(t.parse().unwrap())));
                    lines.push(format!("emit {}", fmt_dd(emitted.as_ref())));
                    // same three lines as asset.rs:46-52 / instrument.rs:77-83
                    if let Some(next) = emitted {
                        mean.update(&next);
                        max.update(&next);
                    }
                    obs_sheet(g, mean, max, lines);
                }
                (Driven::Asset(ts), ["pt", v, t]) => {
                    let total = parse_dec(v);
                    let balance = AssetBalance {
                        asset: AssetIndex(0),
                        balance: Balance::new(total, total),
                        time_exchange: time(t.parse().unwrap()),
                    };
                    ts.update_from_balance(Snapshot(&balance));
                    obs_sheet(&ts.drawdown, &ts.drawdown_mean, &ts.drawdown_max, lines);
                }
                (Driven::Instr(ts), ["pos", d, t]) => {
                    ts.update_from_position(&position(parse_dec(d), time(t.parse().unwrap())));
                    obs_sheet(
                        &ts.pnl_drawdown,
                        &ts.pnl_drawdown_mean,
                        &ts.pnl_drawdown_max,
                        lines,
                    );
                }
                (Driven::Raw(g, _, _), ["gen"]) => {
                    lines.push(format!("g_cur {}", fmt_dd(g.clone().generate().as_ref())));
                }
                (Driven::Asset(ts), ["gen"]) => {
                    let mut c = ts.clone();
                    let sheet = c.generate();
                    obs_report(
                        sheet.drawdown.as_ref(),
                        c.drawdown_mean.count,
                        sheet.drawdown_max,
                        sheet.drawdown_mean,
                        lines,
                    );
                }
                (Driven::Instr(ts), ["gen"]) => {
                    let mut c = ts.clone();
                    let sheet = c.generate(Decimal::ZERO, Daily);
                    obs_report(
                        sheet.pnl_drawdown.as_ref(),
                        c.pnl_drawdown_mean.count,
                        sheet.pnl_drawdown_max,
                        sheet.pnl_drawdown_mean,
                        lines,
                    );
                }
                (Driven::Asset(ts), ["gen!"]) => {
                    let sheet = ts.generate();
                    obs_report(
                        sheet.drawdown.as_ref(),
                        ts.drawdown_mean.count,
                        sheet.drawdown_max,
                        sheet.drawdown_mean,
                        lines,
                    );
                    obs_sheet(&ts.drawdown, &ts.drawdown_mean, &ts.drawdown_max, lines);
                }
                (Driven::Instr(ts), ["gen!"]) => {
                    let sheet = ts.generate(Decimal::ZERO, Daily);
                    obs_report(
                        sheet.pnl_drawdown.as_ref(),
                        ts.pnl_drawdown_mean.count,
                        sheet.pnl_drawdown_max,
                        sheet.pnl_drawdown_mean,
                        lines,
                    );
                    obs_sheet(
                        &ts.pnl_drawdown,
                        &ts.pnl_drawdown_mean,
                        &ts.pnl_drawdown_max,
                        lines,
                    );
                }
                _ => lines.push("bad-op".into()),
            }
        }
    });
}

/// A value curve as integer levels (scaled by `unit` when printed).
fn curve(rng: &mut Rng, len: usize) -> Vec<i64> {
    let top = *rng.pick(&[3i64, 5, 8, 12, 40]);
    let style = rng.below(7);
    let mut v: Vec<i64> = Vec::with_capacity(len);
    let mut cur = rng.range(1, top);
    for i in 0..len {
        match style {
            // rising (with plateaus)
            0 => cur += rng.range(0, 2),
            // falling (with plateaus), stays positive
            1 => cur = (cur - rng.range(0, 2)).max(1),
            // oscillating around a slowly rising level: many completed drawdowns
            2 => {
                cur = if i % 2 == 0 {
                    cur + rng.range(0, 3)
                } else {
                    (cur - rng.range(0, 3)).max(1)
                }
            }
            // plateaus and exact recoveries to the previous peak
            3 => {
                let peak = v.iter().copied().max().unwrap_or(cur);
                cur = *rng.pick(&[cur, cur, peak, peak, (cur - 1).max(1), peak + 1]);
            }
            // random walk
            4 => cur = (cur + rng.range(-3, 3)).max(1),
            // independent draws from few levels
            5 => cur = rng.range(1, top),
            // deep dips then recoveries exactly to / just above the peak
            _ => {
                let peak = v.iter().copied().max().unwrap_or(cur);
                cur = match rng.below(4) {
                    0 => rng.range(1, peak.max(1)),
                    1 => peak,
                    2 => peak + 1,
                    _ => cur,
                };
            }
        }
        v.push(cur);
    }
    v
}

fn times(rng: &mut Rng, len: usize) -> Vec<i64> {
    let step = *rng.pick(&[1i64, 7, 1000, 60_000, 86_400_000]);
    let mode = rng.below(10);
    let mut t = rng.range(0, 3) * step;
    let mut out = Vec::with_capacity(len);
    for _ in 0..len {
        out.push(t);
        t += match mode {
            // equal timestamps allowed
            0 | 1 => rng.range(0, 2) * step,
            // not monotone (labels only: the generators do not order by time)
            2 => rng.range(-2, 3) * step,
            // irregular
            3 => rng.range(1, 1000),
            _ => rng.range(1, 3) * step,
        };
        if t < 0 {
            t = 0;
        }
    }
    out
}

fn emit_case(out: &mut Out, id: &str, mode: &str, vals: &[String], ts: &[i64], gens: &[u8]) {
    // gens[i]: 0 nothing, 1 `gen` after point i, 2 `gen!` after point i
    out.case(id);
    let mut prev = Decimal::ZERO;
    let mut start = 0usize;
    match mode {
        "raw" => out.line("raw"),
        "rawinit" => {
            out.line(format!("rawinit {} {}", vals[0], ts[0]));
            start = 1;
        }
        "asset" => {
            out.line(format!("asset {} {}", vals[0], ts[0]));
            start = 1;
        }
        _ => out.line(format!("instr {}", ts.first().copied().unwrap_or(0))),
    }
    for i in start..vals.len() {
        if mode == "instr" {
            let v = parse_dec(&vals[i]);
            out.line(format!("pos {} {}", (v - prev).normalize(), ts[i]));
            prev = v;
        } else {
            out.line(format!("pt {} {}", vals[i], ts[i]));
        }
        match gens[i] {
            1 => out.line("gen"),
            2 if mode == "asset" || mode == "instr" => out.line("gen!"),
            2 => out.line("gen"),
            _ => {}
        }
    }
}

fn generate(seed: u64, n_cases: usize, tier: &str) {
    let mut out = Out::new();
    let mut rng = Rng::new(seed);
    let mut id = 0usize;
    if tier == "thorough" {
        // exhaustive: every curve of length 1..=5 over the levels {1,2,3,4}, raw and asset
        for len in 1..=5usize {
            let total = 4usize.pow(len as u32);
            for code0 in 0..total {
                let mut code = code0;
                let mut vals = Vec::new();
                for _ in 0..len {
                    vals.push(((code % 4) + 1).to_string());
                    code /= 4;
                }
                let ts: Vec<i64> = (0..len as i64).map(|i| i * 10).collect();
                let mut gens = vec![0u8; len];
                gens[len - 1] = 1;
                for mode in ["raw", "asset"] {
                    id += 1;
                    emit_case(&mut out, &format!("x{id}"), mode, &vals, &ts, &gens);
                }
            }
        }
    }
    let max_len = if tier == "thorough" { 60 } else { 40 };
    for _ in 0..n_cases {
        id += 1;
        let mode = *rng.pick(&["raw", "raw", "rawinit", "asset", "asset", "instr", "instr"]);
        let len = rng.range(1, max_len) as usize;
        let levels = curve(&mut rng, len);
        // values with <= 4 significant digits and scale <= 2 (exact in Decimal under + and -)
        let (mul, scale) = *rng.pick(&[(1i64, 0u32), (1, 0), (5, 1), (25, 2), (10, 0), (125, 1), (1, 2)]);
        // a few curves outside the property's quantifier (non-positive peaks): model only
        let shift = if rng.chance(6) { -rng.range(1, 6) } else { 0 };
        let vals: Vec<String> = levels
            .iter()
            .map(|l| dec_str((l + shift) * mul, scale))
            .collect();
        let ts = times(&mut rng, len);
        let gen_pct = *rng.pick(&[0u64, 10, 30]);
        let mut gens: Vec<u8> = (0..len)
            .map(|_| {
                if rng.chance(gen_pct) {
                    if rng.chance(12) { 2 } else { 1 }
                } else {
                    0
                }
            })
            .collect();
        // most cases end with the first generate after the history
        if rng.chance(80) && gens[len - 1] == 0 {
            gens[len - 1] = 1;
        }
        emit_case(&mut out, &format!("r{id}"), mode, &vals, &ts, &gens);
    }
    out.flush();
}

fn main() {
    let a = args();
    match a.cmd.as_str() {
        "gen" => generate(a.seed, a.n, &a.tier),
        "run" => run(),
        _ => {
            eprintln!("usage: c18 gen <seed> <n> <tier> | run < cases");
            std::process::exit(2)
        }
    }
}
