//! C18 — drawdowns. Drives the real `DrawdownGenerator` / `MaxDrawdownGenerator` /
//! `MeanDrawdownGenerator` and both tear-sheet generators of /repo.
//!
//! First op of a case: `raw` | `rawinit v t` | `asset v t` | `instr t`; then `pt v t` (raw, asset),
//! `pos d t` (instr: realised PnL `d` of a position exited at `t`), `gen` (generate on a clone),
//! optional 4th token: `asset v t f` / `pt v t f` (asset only) = free balance `f` != total;
//! `pos d t te` = time_enter `te` != time_exit,
//! `gen!` (generate on the tear sheet itself). Times are milliseconds since the Unix epoch.
//! `sum <t0> <x|n> I <e:b:q>... B <e:a:v>...` opens the multi-key mode (one `TradingSummaryGenerator`
//! from a real `EngineState`), then `bal e:a v t [f]`, `cls k d t [te]`, `gen [d|a252|a365]`, `gen! [..]`;
//! every key's lines are prefixed `a<j>.` / `i<k>.` (see `Sum`).
use barter::{
    Timed,
    engine::state::position::PositionExited,
    statistic::{
        metric::drawdown::{
            Drawdown, DrawdownGenerator,
            max::{MaxDrawdown, MaxDrawdownGenerator},
            mean::{MeanDrawdown, MeanDrawdownGenerator},
        },
        summary::{TradingSummaryGenerator, asset::TearSheetAssetGenerator, instrument::TearSheetGenerator},
        time::{Annual252, Annual365, Daily},
    },
};
use barter::engine::state::{
    EngineState, global::DefaultGlobalData, instrument::data::DefaultInstrumentMarketData,
};
use barter_instrument::{
    Keyed, Underlying,
    asset::{ExchangeAsset, name::AssetNameInternal},
    index::IndexedInstruments,
    instrument::{Instrument, name::InstrumentNameInternal},
};
use vh::engine_util::EXCHANGES;
use barter_execution::{
    balance::{AssetBalance, Balance},
    trade::AssetFees,
};
use barter_instrument::{Side, asset::AssetIndex, instrument::InstrumentIndex};
use barter_integration::snapshot::Snapshot;
use chrono::{DateTime, Utc};
use rust_decimal::Decimal;
use vh::*;

fn time(ms: i64) -> DateTime<Utc> {
    DateTime::<Utc>::from_timestamp_millis(ms).expect("time in range")
}

fn ms(t: DateTime<Utc>) -> i64 {
    t.timestamp_millis()
}

fn fmt_dd(d: Option<&Drawdown>) -> String {
    match d {
        None => "none".into(),
        Some(d) => format!(
            "{} {} {}",
            fmt_dec_approx(d.value),
            ms(d.time_start),
            ms(d.time_end)
        ),
    }
}

fn fmt_mean(m: Option<MeanDrawdown>) -> String {
    match m {
        None => "none".into(),
        Some(m) => format!("{} {}", fmt_dec_approx(m.mean_drawdown), m.mean_drawdown_ms),
    }
}

fn fmt_max(m: Option<MaxDrawdown>) -> String {
    fmt_dd(m.as_ref().map(|m| &m.0))
}

fn obs_sheet(
    g: &DrawdownGenerator,
    mean: &MeanDrawdownGenerator,
    max: &MaxDrawdownGenerator,
    lines: &mut Vec<String>,
) {
    lines.push(format!(
        "state {} {} {} {}",
        fmt_opt_dec(g.peak),
        fmt_dec_approx(g.drawdown_max),
        g.time_peak
            .map(|t| ms(t).to_string())
            .unwrap_or_else(|| "none".into()),
        ms(g.time_now)
    ));
    // `generate` takes `&mut self` but only reads: call it on a clone
    lines.push(format!("cur {}", fmt_dd(g.clone().generate().as_ref())));
    lines.push(format!("count {}", mean.count));
    lines.push(format!("max {}", fmt_max(max.generate())));
    lines.push(format!("mean {}", fmt_mean(mean.generate())));
}

fn obs_report(
    cur: Option<&Drawdown>,
    count: u64,
    max: Option<MaxDrawdown>,
    mean: Option<MeanDrawdown>,
    lines: &mut Vec<String>,
) {
    lines.push(format!("g_cur {}", fmt_dd(cur)));
    lines.push(format!("g_count {count}"));
    lines.push(format!("g_max {}", fmt_max(max)));
    lines.push(format!("g_mean {}", fmt_mean(mean)));
}

enum Driven {
    Unset,
    Raw(DrawdownGenerator, MeanDrawdownGenerator, MaxDrawdownGenerator),
    Asset(TearSheetAssetGenerator),
    Instr(TearSheetGenerator),
    Sum(Sum),
}

/// `sum` mode (configuration-shape family): ONE `TradingSummaryGenerator` over several assets and
/// instruments, initialised from a real `EngineState` (built with or without initial balances), each key
/// with its own curve. Labels (`e:a` for assets, `k` for instruments) are resolved to the real indices by
/// NAME; updates go through the summary's index-keyed (`x`) or name-keyed (`n`) managers; every sheet is
/// read back by name after every op (isolation).
struct Sum {
    summary: TradingSummaryGenerator,
    by_name: bool,
    /// asset labels (exchange label, asset label) in order of first appearance in the `sum` line
    assets: Vec<(usize, usize)>,
    n_instr: usize,
    /// the ENGINE STATE's index of every asset / instrument label (what an `AssetBalance<AssetIndex>` /
    /// `PositionExited<_, InstrumentIndex>` of that engine carries)
    asset_idx: Vec<usize>,
    instr_idx: Vec<usize>,
}

fn asset_key(a: &(usize, usize)) -> ExchangeAsset<AssetNameInternal> {
    ExchangeAsset::new(EXCHANGES[a.0], AssetNameInternal::new(format!("a{}", a.1)))
}

/// internal name of instrument label `k`: alphabetical order differs from label order (and from the index
/// order), so a table ordered by name but addressed by index is exposed
fn instr_name(k: usize) -> InstrumentNameInternal {
    InstrumentNameInternal::new(format!("{}{k}", ["q", "c", "x", "a", "m", "e", "z", "b"][k % 8]))
}

fn parse_triple(t: &str) -> Option<(usize, usize, &str)> {
    let f: Vec<&str> = t.split(':').collect();
    if f.len() != 3 {
        return None;
    }
    Some((f[0].parse().ok()?, f[1].parse().ok()?, f[2]))
}

fn is_dec(s: &str) -> bool {
    s.parse::<Decimal>().is_ok()
}

/// `sum <t0> <x|n> I <e:b:q>... B <e:a:v>...`
fn init_sum(toks: &[&str]) -> Option<Sum> {
    if toks.len() < 5 || toks[3] != "I" {
        return None;
    }
    let t0: i64 = toks[1].parse().ok()?;
    let by_name = match toks[2] {
        "x" => false,
        "n" => true,
        _ => return None,
    };
    let bpos = toks.iter().position(|t| *t == "B")?;
    let insts = &toks[4..bpos];
    if insts.is_empty() || insts.len() > 8 {
        return None;
    }
    let mut builder = IndexedInstruments::builder();
    let mut assets: Vec<(usize, usize)> = vec![];
    for (k, t) in insts.iter().enumerate() {
        let (e, b, q) = parse_triple(t)?;
        let q: usize = q.parse().ok()?;
        if e >= EXCHANGES.len() || b == q {
            return None;
        }
        for a in [(e, b), (e, q)] {
            if !assets.contains(&a) {
                assets.push(a);
            }
        }
        builder = builder.add_instrument(Instrument::spot(
            EXCHANGES[e],
            instr_name(k).0,
            format!("I{k}"),
            Underlying::new(format!("a{b}"), format!("a{q}")),
            None,
        ));
    }
    let mut inits: Vec<((usize, usize), Decimal)> = vec![];
    for t in &toks[bpos + 1..] {
        let (e, a, v) = parse_triple(t)?;
        if !assets.contains(&(e, a)) || inits.iter().any(|(k, _)| *k == (e, a)) || !is_dec(v) {
            return None;
        }
        inits.push(((e, a), parse_dec(v)));
    }
    let instruments = builder.build();
    let state: EngineState<DefaultGlobalData, DefaultInstrumentMarketData> = EngineState::builder(
        &instruments,
        DefaultGlobalData::default(),
        DefaultInstrumentMarketData::default,
    )
    .time_engine_start(time(t0))
    .balances(inits.iter().map(|(a, v)| Keyed::new(asset_key(a), Balance::new(*v, *v))))
    .build();
    let summary = TradingSummaryGenerator::init(Decimal::ZERO, time(t0), time(t0), &state.instruments, &state.assets);
    let asset_idx = assets.iter().map(|a| state.assets.0.get_index_of(&asset_key(a)).expect("asset in the engine state")).collect();
    let instr_idx = (0..insts.len())
        .map(|k| state.instruments.0.values().position(|s| s.instrument.name_internal == instr_name(k)).expect("instrument in the engine state"))
        .collect();
    Some(Sum { summary, by_name, assets, n_instr: insts.len(), asset_idx, instr_idx })
}

fn prefixed(pfx: String, f: impl FnOnce(&mut Vec<String>), lines: &mut Vec<String>) {
    let mut tmp = vec![];
    f(&mut tmp);
    lines.extend(tmp.into_iter().map(|l| format!("{pfx}.{l}")));
}

fn obs_sum(s: &Sum, lines: &mut Vec<String>) {
    for (j, a) in s.assets.iter().enumerate() {
        let ts = s.summary.assets.get(&asset_key(a)).expect("asset sheet by name");
        prefixed(format!("a{j}"), |l| obs_sheet(&ts.drawdown, &ts.drawdown_mean, &ts.drawdown_max, l), lines);
    }
    for k in 0..s.n_instr {
        let ts = s.summary.instruments.get(&instr_name(k)).expect("instrument sheet by name");
        prefixed(format!("i{k}"), |l| obs_sheet(&ts.pnl_drawdown, &ts.pnl_drawdown_mean, &ts.pnl_drawdown_max, l), lines);
    }
}

/// generate on `g` (a clone for `gen`, the summary itself for `gen!`) and report every key by name
fn report_sum(s_assets: &[(usize, usize)], n_instr: usize, g: &mut TradingSummaryGenerator, iv: &str, lines: &mut Vec<String>) {
    // (asset reports, instrument reports) by name, whatever the interval type
    macro_rules! go {
        ($iv:expr) => {{
            let sum = g.generate($iv);
            for (j, a) in s_assets.iter().enumerate() {
                let sheet = sum.assets.get(&asset_key(a)).expect("asset report by name");
                let count = g.assets.get(&asset_key(a)).unwrap().drawdown_mean.count;
                prefixed(format!("a{j}"), |l| obs_report(sheet.drawdown.as_ref(), count, sheet.drawdown_max.clone(), sheet.drawdown_mean.clone(), l), lines);
            }
            for k in 0..n_instr {
                let sheet = sum.instruments.get(&instr_name(k)).expect("instrument report by name");
                let count = g.instruments.get(&instr_name(k)).unwrap().pnl_drawdown_mean.count;
                prefixed(format!("i{k}"), |l| obs_report(sheet.pnl_drawdown.as_ref(), count, sheet.pnl_drawdown_max.clone(), sheet.pnl_drawdown_mean.clone(), l), lines);
            }
        }};
    }
    match iv {
        "a252" => go!(Annual252),
        "a365" => go!(Annual365),
        _ => go!(Daily),
    }
}

fn iv_ok(toks: &[&str]) -> Option<&'static str> {
    match toks {
        [_] | [_, "d"] => Some("d"),
        [_, "a252"] => Some("a252"),
        [_, "a365"] => Some("a365"),
        _ => None,
    }
}

/// ops of the `sum` mode; `false` = malformed (`bad-op`)
fn sum_op(s: &mut Sum, toks: &[&str], lines: &mut Vec<String>) -> bool {
    match toks {
        ["bal", label, v, t] | ["bal", label, v, t, _] => {
            let f: Vec<&str> = label.split(':').collect();
            let (Some(e), Some(a)) = (f.first().and_then(|x| x.parse::<usize>().ok()), f.get(1).and_then(|x| x.parse::<usize>().ok())) else { return false };
            let Ok(t) = t.parse::<i64>() else { return false };
            if f.len() != 2 || !s.assets.contains(&(e, a)) || !is_dec(v) || toks.get(4).map(|f| !is_dec(f)).unwrap_or(false) {
                return false;
            }
            let total = parse_dec(v);
            let free = toks.get(4).map(|f| parse_dec(f)).unwrap_or(total);
            let key = asset_key(&(e, a));
            if s.by_name {
                let b = AssetBalance { asset: key, balance: Balance::new(total, free), time_exchange: time(t) };
                s.summary.update_from_balance(Snapshot(&b));
            } else {
                let idx = s.asset_idx[s.assets.iter().position(|x| *x == (e, a)).unwrap()];
                let b = AssetBalance { asset: AssetIndex(idx), balance: Balance::new(total, free), time_exchange: time(t) };
                s.summary.update_from_balance(Snapshot(&b));
            }
            obs_sum(s, lines);
            true
        }
        ["cls", k, d, t] | ["cls", k, d, t, _] => {
            let (Ok(k), Ok(t)) = (k.parse::<usize>(), t.parse::<i64>()) else { return false };
            let te = match toks.get(4) {
                None => t,
                Some(x) => match x.parse::<i64>() {
                    Ok(x) => x,
                    Err(_) => return false,
                },
            };
            if k >= s.n_instr || !is_dec(d) {
                return false;
            }
            if s.by_name {
                s.summary.update_from_position(&position_of(instr_name(k), parse_dec(d), time(t), time(te)));
            } else {
                let idx = s.instr_idx[k];
                s.summary.update_from_position(&position_of(InstrumentIndex(idx), parse_dec(d), time(t), time(te)));
            }
            obs_sum(s, lines);
            true
        }
        ["gen", ..] => {
            let Some(iv) = iv_ok(toks) else { return false };
            let mut c = s.summary.clone();
            report_sum(&s.assets, s.n_instr, &mut c, iv, lines);
            true
        }
        ["gen!", ..] => {
            let Some(iv) = iv_ok(toks) else { return false };
            let (assets, n) = (s.assets.clone(), s.n_instr);
            report_sum(&assets, n, &mut s.summary, iv, lines);
            obs_sum(s, lines);
            true
        }
        _ => false,
    }
}

/// A closed position with realised PnL `pnl`, exited at `t`. The entry notional is huge (1e27) so
/// that the *returns* data set of `PnLReturns` (C16/C17 territory, not observed here) stays
/// numerically trivial: with notional 1 some variances make `Decimal::sqrt` panic inside
/// `Dispersion::update` ("geo mean circuit breaker") before the drawdown code is reached.
fn position(
    pnl: Decimal,
    t: DateTime<Utc>,
    t_enter: DateTime<Utc>,
) -> PositionExited<AssetIndex, InstrumentIndex> {
    position_of(InstrumentIndex(0), pnl, t, t_enter)
}

fn position_of<K>(
    instrument: K,
    pnl: Decimal,
    t: DateTime<Utc>,
    t_enter: DateTime<Utc>,
) -> PositionExited<AssetIndex, K> {
    PositionExited {
        instrument,
        side: Side::Buy,
        price_entry_average: Decimal::from_i128_with_scale(10i128.pow(27), 0),
        quantity_abs_max: Decimal::ONE,
        pnl_realised: pnl,
        fees_enter: AssetFees::new(AssetIndex(0), Decimal::ZERO),
        fees_exit: AssetFees::new(AssetIndex(0), Decimal::ZERO),
        time_enter: t_enter,
        time_exit: t,
        trades: vec![],
    }
}

fn run() {
    run_cases(|case, lines| {
        let mut driven = Driven::Unset;
        for op in case.ops.iter() {
            lines.push("@".into());
            let toks: Vec<&str> = op.iter().map(|s| s.as_str()).collect();
            match (&mut driven, toks.as_slice()) {
                (Driven::Unset, ["raw"]) => {
                    let (g, mean, max) = (
                        DrawdownGenerator::default(),
                        MeanDrawdownGenerator::default(),
                        MaxDrawdownGenerator::default(),
                    );
                    obs_sheet(&g, &mean, &max, lines);
                    driven = Driven::Raw(g, mean, max);
                }
                (Driven::Unset, ["rawinit", v, t]) => {
                    let g = DrawdownGenerator::init(Timed::new(
                        parse_dec(v),
                        time(t.parse().unwrap()),
                    ));
                    let (mean, max) = (
                        MeanDrawdownGenerator::default(),
                        MaxDrawdownGenerator::default(),
                    );
                    obs_sheet(&g, &mean, &max, lines);
                    driven = Driven::Raw(g, mean, max);
                }
                (Driven::Unset, ["asset", v, t]) | (Driven::Unset, ["asset", v, t, _]) => {
                    let total = parse_dec(v);
                    // optional 4th token: free balance (default: free = total)
                    let free = toks.get(3).map(|f| parse_dec(f)).unwrap_or(total);
                    let ts = TearSheetAssetGenerator::init(&Timed::new(
                        Balance::new(total, free),
                        time(t.parse().unwrap()),
                    ));
                    obs_sheet(&ts.drawdown, &ts.drawdown_mean, &ts.drawdown_max, lines);
                    driven = Driven::Asset(ts);
                }
                (Driven::Unset, ["instr", t]) => {
                    let ts = TearSheetGenerator::init(time(t.parse().unwrap()));
                    obs_sheet(
                        &ts.pnl_drawdown,
                        &ts.pnl_drawdown_mean,
                        &ts.pnl_drawdown_max,
                        lines,
                    );
                    driven = Driven::Instr(ts);
                }
                (Driven::Unset, ["sum", ..]) => match init_sum(&toks) {
                    Some(s) => {
                        obs_sum(&s, lines);
                        driven = Driven::Sum(s);
                    }
                    None => lines.push("bad-op".into()),
                },
                (Driven::Sum(s), _) => {
                    if !sum_op(s, &toks, lines) {
                        lines.push("bad-op".into());
                    }
                }
                (Driven::Raw(g, mean, max), ["pt", v, t]) => {
                    let emitted = g.update(Timed::new(parse_dec(v), time(t.parse().unwrap())));
                    lines.push(format!("emit {}", fmt_dd(emitted.as_ref())));
                    // same three lines as asset.rs:46-52 / instrument.rs:77-83
                    if let Some(next) = emitted {
                        mean.update(&next);
                        max.update(&next);
                    }
                    obs_sheet(g, mean, max, lines);
                }
                (Driven::Asset(ts), ["pt", v, t]) | (Driven::Asset(ts), ["pt", v, t, _]) => {
                    let total = parse_dec(v);
                    let free = toks.get(3).map(|f| parse_dec(f)).unwrap_or(total);
                    let balance = AssetBalance {
                        asset: AssetIndex(0),
                        balance: Balance::new(total, free),
                        time_exchange: time(t.parse().unwrap()),
                    };
                    ts.update_from_balance(Snapshot(&balance));
                    obs_sheet(&ts.drawdown, &ts.drawdown_mean, &ts.drawdown_max, lines);
                }
                (Driven::Instr(ts), ["pos", d, t]) | (Driven::Instr(ts), ["pos", d, t, _]) => {
                    // optional 4th token: time_enter (default: time_enter = time_exit)
                    let t_exit = time(t.parse().unwrap());
                    let t_enter = toks.get(3).map(|e| time(e.parse().unwrap())).unwrap_or(t_exit);
                    ts.update_from_position(&position(parse_dec(d), t_exit, t_enter));
                    obs_sheet(
                        &ts.pnl_drawdown,
                        &ts.pnl_drawdown_mean,
                        &ts.pnl_drawdown_max,
                        lines,
                    );
                }
                (Driven::Raw(g, _, _), ["gen"]) => {
                    lines.push(format!("g_cur {}", fmt_dd(g.clone().generate().as_ref())));
                }
                (Driven::Asset(ts), ["gen"]) => {
                    let mut c = ts.clone();
                    let sheet = c.generate();
                    obs_report(
                        sheet.drawdown.as_ref(),
                        c.drawdown_mean.count,
                        sheet.drawdown_max,
                        sheet.drawdown_mean,
                        lines,
                    );
                }
                (Driven::Instr(ts), ["gen"]) => {
                    let mut c = ts.clone();
                    let sheet = c.generate(Decimal::ZERO, Daily);
                    obs_report(
                        sheet.pnl_drawdown.as_ref(),
                        c.pnl_drawdown_mean.count,
                        sheet.pnl_drawdown_max,
                        sheet.pnl_drawdown_mean,
                        lines,
                    );
                }
                (Driven::Asset(ts), ["gen!"]) => {
                    let sheet = ts.generate();
                    obs_report(
                        sheet.drawdown.as_ref(),
                        ts.drawdown_mean.count,
                        sheet.drawdown_max,
                        sheet.drawdown_mean,
                        lines,
                    );
                    obs_sheet(&ts.drawdown, &ts.drawdown_mean, &ts.drawdown_max, lines);
                }
                (Driven::Instr(ts), ["gen!"]) => {
                    let sheet = ts.generate(Decimal::ZERO, Daily);
                    obs_report(
                        sheet.pnl_drawdown.as_ref(),
                        ts.pnl_drawdown_mean.count,
                        sheet.pnl_drawdown_max,
                        sheet.pnl_drawdown_mean,
                        lines,
                    );
                    obs_sheet(
                        &ts.pnl_drawdown,
                        &ts.pnl_drawdown_mean,
                        &ts.pnl_drawdown_max,
                        lines,
                    );
                }
                _ => lines.push("bad-op".into()),
            }
        }
    });
}

/// A value curve as integer levels (scaled by `unit` when printed).
fn curve(rng: &mut Rng, len: usize) -> Vec<i64> {
    let top = *rng.pick(&[3i64, 5, 8, 12, 40]);
    let style = rng.below(7);
    let mut v: Vec<i64> = Vec::with_capacity(len);
    let mut cur = rng.range(1, top);
    for i in 0..len {
        match style {
            // rising (with plateaus)
            0 => cur += rng.range(0, 2),
            // falling (with plateaus), stays positive
            1 => cur = (cur - rng.range(0, 2)).max(1),
            // oscillating around a slowly rising level: many completed drawdowns
            2 => {
                cur = if i % 2 == 0 {
                    cur + rng.range(0, 3)
                } else {
                    (cur - rng.range(0, 3)).max(1)
                }
            }
            // plateaus and exact recoveries to the previous peak
            3 => {
                let peak = v.iter().copied().max().unwrap_or(cur);
                cur = *rng.pick(&[cur, cur, peak, peak, (cur - 1).max(1), peak + 1]);
            }
            // random walk
            4 => cur = (cur + rng.range(-3, 3)).max(1),
            // independent draws from few levels
            5 => cur = rng.range(1, top),
            // deep dips then recoveries exactly to / just above the peak
            _ => {
                let peak = v.iter().copied().max().unwrap_or(cur);
                cur = match rng.below(4) {
                    0 => rng.range(1, peak.max(1)),
                    1 => peak,
                    2 => peak + 1,
                    _ => cur,
                };
            }
        }
        v.push(cur);
    }
    v
}

fn times(rng: &mut Rng, len: usize) -> Vec<i64> {
    let step = *rng.pick(&[1i64, 7, 1000, 60_000, 86_400_000]);
    let mode = rng.below(10);
    let mut t = rng.range(0, 3) * step;
    let mut out = Vec::with_capacity(len);
    for _ in 0..len {
        out.push(t);
        t += match mode {
            // equal timestamps allowed
            0 | 1 => rng.range(0, 2) * step,
            // not monotone (labels only: the generators do not order by time)
            2 => rng.range(-2, 3) * step,
            // irregular
            3 => rng.range(1, 1000),
            _ => rng.range(1, 3) * step,
        };
        if t < 0 {
            t = 0;
        }
    }
    out
}

fn emit_case(out: &mut Out, id: &str, mode: &str, vals: &[String], ts: &[i64], gens: &[u8]) {
    // gens[i]: 0 nothing, 1 `gen` after point i, 2 `gen!` after point i
    out.case(id);
    let mut prev = Decimal::ZERO;
    let mut start = 0usize;
    match mode {
        "raw" => out.line("raw"),
        "rawinit" => {
            out.line(format!("rawinit {} {}", vals[0], ts[0]));
            start = 1;
        }
        "asset" => {
            out.line(format!("asset {} {}", vals[0], ts[0]));
            start = 1;
        }
        _ => out.line(format!("instr {}", ts.first().copied().unwrap_or(0))),
    }
    for i in start..vals.len() {
        if mode == "instr" {
            let v = parse_dec(&vals[i]);
            out.line(format!("pos {} {}", (v - prev).normalize(), ts[i]));
            prev = v;
        } else {
            out.line(format!("pt {} {}", vals[i], ts[i]));
        }
        match gens[i] {
            1 => out.line("gen"),
            2 if mode == "asset" || mode == "instr" => out.line("gen!"),
            2 => out.line("gen"),
            _ => {}
        }
    }
}

fn generate(seed: u64, n_cases: usize, tier: &str) {
    let mut out = Out::new();
    let mut rng = Rng::new(seed);
    let mut id = 0usize;
    if tier == "thorough" {
        // exhaustive: every curve of length 1..=5 over the levels {1,2,3,4}, raw and asset
        for len in 1..=5usize {
            let total = 4usize.pow(len as u32);
            for code0 in 0..total {
                let mut code = code0;
                let mut vals = Vec::new();
                for _ in 0..len {
                    vals.push(((code % 4) + 1).to_string());
                    code /= 4;
                }
                let ts: Vec<i64> = (0..len as i64).map(|i| i * 10).collect();
                let mut gens = vec![0u8; len];
                gens[len - 1] = 1;
                for mode in ["raw", "asset"] {
                    id += 1;
                    emit_case(&mut out, &format!("x{id}"), mode, &vals, &ts, &gens);
                }
            }
        }
    }
    let max_len = if tier == "thorough" { 60 } else { 40 };
    for _ in 0..n_cases {
        id += 1;
        let mode = *rng.pick(&["raw", "raw", "rawinit", "asset", "asset", "instr", "instr"]);
        let len = rng.range(1, max_len) as usize;
        let levels = curve(&mut rng, len);
        // values with <= 4 significant digits and scale <= 2 (exact in Decimal under + and -)
        let (mul, scale) = *rng.pick(&[(1i64, 0u32), (1, 0), (5, 1), (25, 2), (10, 0), (125, 1), (1, 2)]);
        // a few curves outside the property's quantifier (non-positive peaks): model only
        let shift = if rng.chance(6) { -rng.range(1, 6) } else { 0 };
        let vals: Vec<String> = levels
            .iter()
            .map(|l| dec_str((l + shift) * mul, scale))
            .collect();
        let ts = times(&mut rng, len);
        let gen_pct = *rng.pick(&[0u64, 10, 30]);
        let mut gens: Vec<u8> = (0..len)
            .map(|_| {
                if rng.chance(gen_pct) {
                    if rng.chance(12) { 2 } else { 1 }
                } else {
                    0
                }
            })
            .collect();
        // most cases end with the first generate after the history
        if rng.chance(80) && gens[len - 1] == 0 {
            gens[len - 1] = 1;
        }
        emit_case(&mut out, &format!("r{id}"), mode, &vals, &ts, &gens);
    }
    domain_family(&mut out, seed, n_cases, tier);
    config_family(&mut out, seed, n_cases, tier);
    out.flush();
}

/// Configuration shapes the other families never assemble (configuration-shape audit), separately seeded
/// family `s<k>`: ONE `TradingSummaryGenerator` initialised from a real `EngineState` over 1-4 instruments
/// spread (interleaved) over 1-3 exchanges and their 2-8 assets; assets with / without an initial balance
/// in the engine state (a sheet that starts from `default()` and sees its first value through
/// `update_from_balance`, vs one that holds the builder's point at `time_engine_start`); every key with its
/// own curve, updates interleaved across keys, addressed by index (`x`) or by name (`n`); `gen` / `gen!`
/// with the three interval types; `time_engine_start` before, at and after the first points.
fn config_family(out: &mut Out, seed: u64, n_cases: usize, tier: &str) {
    let mut rng = Rng::new(seed ^ 0xC0F1_18C0_F118);
    let extra = (n_cases / 10).max(if n_cases > 0 { 6 } else { 0 });
    let max_len = if tier == "thorough" { 25 } else { 12 };
    for k in 0..extra {
        out.case(format!("s{}", k + 1));
        let n_instr = rng.range(1, 4) as usize;
        let n_ex = rng.range(1, 3) as usize;
        let mut insts: Vec<(usize, usize, usize)> = vec![];
        let mut assets: Vec<(usize, usize)> = vec![];
        for _ in 0..n_instr {
            // exchanges drawn independently: label order is not the (exchange-sorted) index order
            let e = rng.below(n_ex as u64) as usize;
            let b = rng.below(3) as usize;
            let q = 3 + rng.below(2) as usize;
            insts.push((e, b, q));
            for a in [(e, b), (e, q)] {
                if !assets.contains(&a) {
                    assets.push(a);
                }
            }
        }
        let (mul, scale) = *rng.pick(&[(1i64, 0u32), (1, 0), (5, 1), (25, 2), (10, 0)]);
        let step = *rng.pick(&[1i64, 1000, 60_000]);
        let t0 = *rng.pick(&[0i64, 0, -1000, 5, 10_000_000]);
        let init_pct = *rng.pick(&[0u64, 40, 40, 100]);
        let mut line = format!("sum {t0} {} I", if rng.chance(35) { "n" } else { "x" });
        for (e, b, q) in insts.iter() {
            line.push_str(&format!(" {e}:{b}:{q}"));
        }
        line.push_str(" B");
        // initial balances in an order of their own (the builder keeps them in a hash map)
        let mut order: Vec<usize> = (0..assets.len()).collect();
        for i in (1..order.len()).rev() {
            order.swap(i, rng.below(i as u64 + 1) as usize);
        }
        for j in order {
            if rng.chance(init_pct) {
                line.push_str(&format!(" {}:{}:{}", assets[j].0, assets[j].1, dec_str(rng.range(1, 8) * mul, scale)));
            }
        }
        out.line(line);
        // one script per key, interleaved at random
        let mut scripts: Vec<Vec<String>> = vec![];
        for a in assets.iter() {
            let len = rng.range(0, max_len) as usize;
            let levels = curve(&mut rng, len);
            let ts = times(&mut rng, len);
            scripts.push(
                (0..len)
                    .map(|i| {
                        let v = dec_str(levels[i] * mul, scale);
                        if rng.chance(10) {
                            format!("bal {}:{} {v} {} {}", a.0, a.1, ts[i] * step, dec_str(levels[i] * mul / 2, scale))
                        } else {
                            format!("bal {}:{} {v} {}", a.0, a.1, ts[i] * step)
                        }
                    })
                    .collect(),
            );
        }
        for k in 0..n_instr {
            let len = rng.range(0, max_len) as usize;
            let levels = curve(&mut rng, len);
            let ts = times(&mut rng, len);
            let mut prev = 0i64;
            scripts.push(
                (0..len)
                    .map(|i| {
                        let d = dec_str((levels[i] - prev) * mul, scale);
                        prev = levels[i];
                        if rng.chance(10) {
                            format!("cls {k} {d} {} {}", ts[i] * step, ts[i] * step - 1000)
                        } else {
                            format!("cls {k} {d} {}", ts[i] * step)
                        }
                    })
                    .collect(),
            );
        }
        let gen_pct = *rng.pick(&[0u64, 8, 20]);
        let mut cursors = vec![0usize; scripts.len()];
        let gen_line = |rng: &mut Rng| -> String {
            let g = if rng.chance(12) { "gen!" } else { "gen" };
            match rng.below(4) {
                0 => format!("{g} a252"),
                1 => format!("{g} a365"),
                2 => format!("{g} d"),
                _ => g.to_string(),
            }
        };
        if rng.chance(15) {
            out.line(gen_line(&mut rng)); // before any update
        }
        loop {
            let live: Vec<usize> = (0..scripts.len()).filter(|i| cursors[*i] < scripts[*i].len()).collect();
            if live.is_empty() {
                break;
            }
            let i = *rng.pick(&live);
            out.line(&scripts[i][cursors[i]]);
            cursors[i] += 1;
            if rng.chance(gen_pct) {
                out.line(gen_line(&mut rng));
            }
        }
        if rng.chance(85) {
            out.line(*rng.pick(&["gen", "gen", "gen a365", "gen a252"]));
        }
    }
}

/// Input classes the main generator never produced (input-domain audit), as a separately seeded
/// family `d<k>` after the random cases (which stay as they were):
///  0 long curves (150-400 points, thorough up to 1 500);
///  1 asset balances whose `free` differs from `total` (the drawdown is of `total`);
///  2 positions whose `time_enter` differs from `time_exit` (the PnL curve is timed by the exit);
///  3 extreme-but-exact magnitudes (unit 1e-8 .. 1e-6 or 1e9 .. 1e10; a tiny trough under a huge peak);
///  4 `gen` / `gen!` on an empty history (before any point), then a normal curve;
///  5 timestamps before the epoch (negative) and realistic ones (1.7e12 ms), equal and decreasing.
fn domain_family(out: &mut Out, seed: u64, n_cases: usize, tier: &str) {
    let mut rng = Rng::new(seed ^ 0xD0A1_18D0_A118);
    let extra = (n_cases / 10).max(if n_cases > 0 { 6 } else { 0 });
    let long_max = if tier == "thorough" { 1500 } else { 400 };
    for k in 0..extra {
        let id = format!("d{}", k + 1);
        let class = k % 6;
        let len = match class {
            0 if k < 6 => rng.range(150, long_max) as usize,
            0 => rng.range(100, 200) as usize,
            _ => rng.range(1, 25) as usize,
        };
        let levels = curve(&mut rng, len);
        let mut ts = times(&mut rng, len);
        let mut gens: Vec<u8> = (0..len).map(|_| if rng.chance(10) { 1 } else { 0 }).collect();
        gens[len - 1] = 1;
        let vals: Vec<String> = match class {
            3 => {
                let (mul, scale) = *rng.pick(&[(1i64, 8u32), (25, 8), (1, 6), (1_000_000_000, 0), (10_000_000_000, 0), (2_500_000_000, 0)]);
                let mut v: Vec<String> = levels.iter().map(|l| dec_str(l * mul, scale)).collect();
                // a tiny trough under a huge peak / exact zero
                if scale == 0 && len > 2 {
                    let i = rng.range(1, len as i64 - 1) as usize;
                    v[i] = rng.pick(&["0.00000001", "0", "0.000001"]).to_string();
                }
                v
            }
            _ => {
                let (mul, scale) = *rng.pick(&[(1i64, 0u32), (5, 1), (25, 2), (10, 0)]);
                levels.iter().map(|l| dec_str(l * mul, scale)).collect()
            }
        };
        if class == 5 {
            let base = if rng.chance(50) { -(rng.range(1, 4) * 86_400_000) } else { 1_700_000_000_000 };
            let back = rng.chance(50);
            for (i, t) in ts.iter_mut().enumerate() {
                // before the epoch the main generator's clamp at 0 is not applied: times may decrease
                *t = if back && base < 0 { base - *t / 2 + (i as i64 % 2) } else { base + *t };
            }
        }
        let mode = match class {
            1 => "asset",
            2 => "instr",
            _ => *rng.pick(&["raw", "rawinit", "asset", "instr"]),
        };
        match class {
            1 => {
                // free != total: half, zero, above total, negative
                out.case(&id);
                let free = |rng: &mut Rng, v: &str| -> String {
                    let t = parse_dec(v);
                    match rng.below(4) {
                        0 => (t / Decimal::TWO).normalize().to_string(),
                        1 => "0".into(),
                        2 => (t + Decimal::ONE).normalize().to_string(),
                        _ => (-t).normalize().to_string(),
                    }
                };
                let f0 = free(&mut rng, &vals[0]);
                out.line(format!("asset {} {} {}", vals[0], ts[0], f0));
                for i in 1..len {
                    let f = free(&mut rng, &vals[i]);
                    out.line(format!("pt {} {} {}", vals[i], ts[i], f));
                    if gens[i] == 1 {
                        out.line("gen");
                    }
                }
                if len == 1 {
                    out.line("gen");
                }
            }
            2 => {
                out.case(&id);
                out.line(format!("instr {}", ts[0]));
                let mut prev = Decimal::ZERO;
                for i in 0..len {
                    let v = parse_dec(&vals[i]);
                    let te = ts[i] + *rng.pick(&[-86_400_000i64, -1000, -1, 1, 5000]);
                    out.line(format!("pos {} {} {}", (v - prev).normalize(), ts[i], te));
                    prev = v;
                    if gens[i] == 1 {
                        out.line("gen");
                    }
                }
            }
            4 => {
                // generate before any point
                out.case(&id);
                match mode {
                    "raw" => out.line("raw"),
                    "rawinit" => out.line(format!("rawinit {} {}", vals[0], ts[0])),
                    "asset" => out.line(format!("asset {} {}", vals[0], ts[0])),
                    _ => out.line(format!("instr {}", ts[0])),
                }
                out.line("gen");
                if (mode == "asset" || mode == "instr") && rng.chance(50) {
                    out.line("gen!");
                    out.line("gen");
                }
                let mut prev = Decimal::ZERO;
                let start = if mode == "rawinit" || mode == "asset" { 1 } else { 0 };
                for i in start..len {
                    if mode == "instr" {
                        let v = parse_dec(&vals[i]);
                        out.line(format!("pos {} {}", (v - prev).normalize(), ts[i]));
                        prev = v;
                    } else {
                        out.line(format!("pt {} {}", vals[i], ts[i]));
                    }
                    if gens[i] == 1 {
                        out.line("gen");
                    }
                }
            }
            _ => emit_case(out, &id, mode, &vals, &ts, &gens),
        }
    }
}

fn main() {
    let a = args();
    match a.cmd.as_str() {
        "gen" => generate(a.seed, a.n, &a.tier),
        "run" => run(),
        _ => {
            eprintln!("usage: c18 gen <seed> <n> <tier> | run < cases");
            std::process::exit(2)
        }
    }
}
