//! C16M (sub-check of C16) — risk-adjusted return metrics and time-interval scaling.
//!
//! Drives the real `SharpeRatio` / `SortinoRatio` / `CalmarRatio` / `RateOfReturn` (`calculate`,
//! `scale`), the `TimeInterval` implementations (`Daily`, `Annual252`, `Annual365`, `TimeDelta`) and
//! the whole `TearSheetGenerator` (`init`, `update_from_position`, `generate`) of /repo in-process.
//!
//! Tokens: interval = `D` | `A252` | `A365` | `ms:<int>`; op value = decimal | `MAX` | `MIN`;
//! observed value = `MAX` | `MIN` | `~n/d`. Ops and observations: see
//! `lean/BarterModel/Driver/C16M.lean`.
use barter::{
    engine::state::position::PositionExited,
    statistic::{
        metric::{
            calmar::CalmarRatio, rate_of_return::RateOfReturn, sharpe::SharpeRatio,
            sortino::SortinoRatio,
        },
        summary::instrument::{TearSheet, TearSheetGenerator},
        time::{Annual252, Annual365, Daily, TimeInterval},
    },
};
use barter_execution::trade::AssetFees;
use barter_instrument::{Side, asset::AssetIndex, instrument::InstrumentIndex};
use chrono::{DateTime, TimeDelta, Utc};
use rust_decimal::Decimal;
use vh::*;

#[derive(Clone, Copy, Debug)]
enum Iv {
    D,
    A252,
    A365,
    Ms(i64),
}

fn parse_iv(s: &str) -> Iv {
    match s {
        "D" => Iv::D,
        "A252" => Iv::A252,
        "A365" => Iv::A365,
        _ => Iv::Ms(
            s.strip_prefix("ms:")
                .and_then(|x| x.parse().ok())
                .unwrap_or_else(|| panic!("bad interval {s:?}")),
        ),
    }
}

fn fmt_iv(iv: Iv) -> String {
    match iv {
        Iv::D => "D".into(),
        Iv::A252 => "A252".into(),
        Iv::A365 => "A365".into(),
        Iv::Ms(ms) => format!("ms:{ms}"),
    }
}

/// Runs `$body` with `$t` bound to the concrete `TimeInterval` value denoted by `$iv`.
macro_rules! with_iv {
    ($iv:expr, |$t:ident| $body:expr) => {
        match $iv {
            Iv::D => {
                let $t = Daily;
                $body
            }
            Iv::A252 => {
                let $t = Annual252;
                $body
            }
            Iv::A365 => {
                let $t = Annual365;
                $body
            }
            Iv::Ms(ms) => {
                let $t = TimeDelta::milliseconds(ms);
                $body
            }
        }
    };
}

/// Reads the interval token back from the interval a metric carries (type-directed, so that the
/// observation really comes from the returned struct).
trait IvTok {
    fn tok(&self) -> String;
}
impl IvTok for Daily {
    fn tok(&self) -> String {
        "D".into()
    }
}
impl IvTok for Annual252 {
    fn tok(&self) -> String {
        "A252".into()
    }
}
impl IvTok for Annual365 {
    fn tok(&self) -> String {
        "A365".into()
    }
}
impl IvTok for TimeDelta {
    fn tok(&self) -> String {
        format!("ms:{}", self.num_milliseconds())
    }
}

fn parse_val(s: &str) -> Decimal {
    match s {
        "MAX" => Decimal::MAX,
        "MIN" => Decimal::MIN,
        _ => parse_dec(s),
    }
}

fn fmt_val(d: Decimal) -> String {
    if d == Decimal::MAX {
        "MAX".into()
    } else if d == Decimal::MIN {
        "MIN".into()
    } else {
        fmt_dec_approx(d)
    }
}

fn fmt_opt_val(d: Option<Decimal>) -> String {
    d.map(fmt_val).unwrap_or_else(|| "none".into())
}

fn metric_lines(value: Decimal, iv: String, lines: &mut Vec<String>) {
    lines.push(format!("v {}", fmt_val(value)));
    lines.push(format!("iv {iv}"));
}

fn calc(kind: &str, rf: Decimal, mean: Decimal, risk: Decimal, iv: Iv, lines: &mut Vec<String>) {
    with_iv!(iv, |t| match kind {
        "sharpe" => {
            let m = SharpeRatio::calculate(rf, mean, risk, t);
            metric_lines(m.value, m.interval.tok(), lines)
        }
        "sortino" => {
            let m = SortinoRatio::calculate(rf, mean, risk, t);
            metric_lines(m.value, m.interval.tok(), lines)
        }
        "calmar" => {
            let m = CalmarRatio::calculate(rf, mean, risk, t);
            metric_lines(m.value, m.interval.tok(), lines)
        }
        _ => lines.push("bad-op".into()),
    })
}

fn scale(kind: &str, value: Decimal, src: Iv, dst: Iv, lines: &mut Vec<String>) {
    with_iv!(src, |s| with_iv!(dst, |d| match kind {
        "sharpe" => {
            let m = SharpeRatio { value, interval: s }.scale(d);
            metric_lines(m.value, m.interval.tok(), lines)
        }
        "sortino" => {
            let m = SortinoRatio { value, interval: s }.scale(d);
            metric_lines(m.value, m.interval.tok(), lines)
        }
        "calmar" => {
            let m = CalmarRatio { value, interval: s }.scale(d);
            metric_lines(m.value, m.interval.tok(), lines)
        }
        "ror" => {
            let m = RateOfReturn { value, interval: s }.scale(d);
            metric_lines(m.value, m.interval.tok(), lines)
        }
        _ => lines.push("bad-op".into()),
    }))
}

fn calc_scale(
    kind: &str,
    rf: Decimal,
    mean: Decimal,
    risk: Decimal,
    src: Iv,
    dst: Iv,
    lines: &mut Vec<String>,
) {
    with_iv!(src, |s| with_iv!(dst, |d| match kind {
        "sharpe" => {
            let m = SharpeRatio::calculate(rf, mean, risk, s).scale(d);
            metric_lines(m.value, m.interval.tok(), lines)
        }
        "sortino" => {
            let m = SortinoRatio::calculate(rf, mean, risk, s).scale(d);
            metric_lines(m.value, m.interval.tok(), lines)
        }
        "calmar" => {
            let m = CalmarRatio::calculate(rf, mean, risk, s).scale(d);
            metric_lines(m.value, m.interval.tok(), lines)
        }
        _ => lines.push("bad-op".into()),
    }))
}

fn time(ms: i64) -> DateTime<Utc> {
    DateTime::<Utc>::from_timestamp_millis(ms).expect("time in range")
}

fn position(
    t: i64,
    pnl: Decimal,
    entry: Decimal,
    qty: Decimal,
) -> PositionExited<AssetIndex, InstrumentIndex> {
    PositionExited {
        instrument: InstrumentIndex(0),
        side: Side::Buy,
        price_entry_average: entry,
        quantity_abs_max: qty,
        pnl_realised: pnl,
        fees_enter: AssetFees::new(AssetIndex(0), Decimal::ZERO),
        fees_exit: AssetFees::new(AssetIndex(0), Decimal::ZERO),
        time_enter: time(t),
        time_exit: time(t),
        trades: vec![],
    }
}

fn observe_state(g: &TearSheetGenerator, lines: &mut Vec<String>) {
    let r = &g.pnl_returns;
    lines.push(format!(
        "st now {} cnt {} {} mean {} sd {} lsd {}",
        g.time_engine_now.timestamp_millis(),
        fmt_dec(r.total.count),
        fmt_dec(r.losses.count),
        fmt_dec_approx(r.total.mean),
        fmt_dec_approx(r.total.dispersion.std_dev),
        fmt_dec_approx(r.losses.dispersion.std_dev),
    ));
}

fn observe_sheet<I: TimeInterval>(period: i64, s: &TearSheet<I>, lines: &mut Vec<String>) {
    lines.push(format!("period {period}"));
    lines.push(format!("pnl {}", fmt_dec(s.pnl)));
    lines.push(format!("ror {}", fmt_val(s.pnl_return.value)));
    lines.push(format!("sharpe {}", fmt_val(s.sharpe_ratio.value)));
    lines.push(format!("sortino {}", fmt_val(s.sortino_ratio.value)));
    lines.push(format!("calmar {}", fmt_val(s.calmar_ratio.value)));
    lines.push(format!(
        "ddmax {}",
        fmt_opt_dec_approx(s.pnl_drawdown_max.as_ref().map(|m| m.0.value))
    ));
    lines.push(format!(
        "win {}",
        fmt_opt_dec_approx(s.win_rate.as_ref().map(|w| w.value))
    ));
    lines.push(format!(
        "pf {}",
        fmt_opt_val(s.profit_factor.as_ref().map(|p| p.value))
    ));
}

fn run() {
    run_cases(|case, lines| {
        let mut generator: Option<TearSheetGenerator> = None;
        for op in case.ops.iter() {
            lines.push("@".into());
            let toks: Vec<&str> = op.iter().map(|s| s.as_str()).collect();
            match toks.as_slice() {
                ["name", iv] => with_iv!(parse_iv(iv), |t| {
                    lines.push(format!("name {}", t.name()));
                    lines.push(format!("secs {}", t.interval().num_seconds()));
                }),
                ["calc", "ror", mean, iv] => with_iv!(parse_iv(iv), |t| {
                    let m = RateOfReturn::calculate(parse_dec(mean), t);
                    metric_lines(m.value, m.interval.tok(), lines)
                }),
                ["calc", kind, rf, mean, risk, iv] => calc(
                    kind,
                    parse_dec(rf),
                    parse_dec(mean),
                    parse_dec(risk),
                    parse_iv(iv),
                    lines,
                ),
                ["scale", kind, v, src, dst] => {
                    scale(kind, parse_val(v), parse_iv(src), parse_iv(dst), lines)
                }
                ["cs", kind, rf, mean, risk, src, dst] => calc_scale(
                    kind,
                    parse_dec(rf),
                    parse_dec(mean),
                    parse_dec(risk),
                    parse_iv(src),
                    parse_iv(dst),
                    lines,
                ),
                ["init", t0] => {
                    let g = TearSheetGenerator::init(time(t0.parse().expect("t0")));
                    observe_state(&g, lines);
                    generator = Some(g);
                }
                ["pos", t, pnl, entry, qty] => {
                    let g = generator.as_mut().expect("init first");
                    g.update_from_position(&position(
                        t.parse().expect("t"),
                        parse_dec(pnl),
                        parse_dec(entry),
                        parse_dec(qty),
                    ));
                    observe_state(g, lines);
                }
                ["gen", rf, iv] => {
                    let g = generator.as_mut().expect("init first");
                    // the trading period `generate` derives, read back in whole seconds
                    let period = g
                        .time_engine_now
                        .signed_duration_since(g.time_engine_start)
                        .max(TimeDelta::seconds(1))
                        .num_seconds();
                    let rf = parse_dec(rf);
                    with_iv!(parse_iv(iv), |t| {
                        let sheet = g.generate(rf, t);
                        observe_sheet(period, &sheet, lines)
                    })
                }
                _ => lines.push("bad-op".into()),
            }
        }
    });
}

// ------------------------------------------------------------------------------------ generator

const DAY: i64 = 86_400_000;

fn iv_tok(rng: &mut Rng, exotic: bool) -> String {
    let c = rng.below(if exotic { 12 } else { 8 });
    let iv = match c {
        0 => Iv::D,
        1 => Iv::A252,
        2 => Iv::A365,
        // the custom intervals of the unit tests and their neighbours
        3 => Iv::Ms(*rng.pick(&[2i64, 4, 8, 1, 24, 48]) * 3_600_000),
        // whole seconds, small
        4 => Iv::Ms(rng.range(1, 120) * 1000),
        // whole seconds, anything up to ~1.3 years
        5 => Iv::Ms(rng.range(1, 40_000_000) * 1000),
        // whole days
        6 => Iv::Ms(rng.range(1, 800) * DAY),
        7 => Iv::Ms(*rng.pick(&[1000i64, 60_000, DAY, 252 * DAY, 365 * DAY, 7 * DAY])),
        // not a whole number of seconds (the code truncates)
        8 => Iv::Ms(rng.range(1000, 10_000_000)),
        // shorter than a second / zero: `current_secs == 0`
        9 => Iv::Ms(*rng.pick(&[0i64, 1, 500, 999, -999])),
        // negative lengths (`.abs()`)
        10 => Iv::Ms(-rng.range(1, 400) * DAY),
        _ => Iv::Ms(-rng.range(1000, 10_000_000)),
    };
    fmt_iv(iv)
}

fn small_dec(rng: &mut Rng) -> String {
    match rng.below(6) {
        0 => "0".into(),
        1 => rng.pick(&["0.0015", "0.0025", "0.001", "0.002", "-0.002", "0.02", "0.015", "0.05", "0.01", "-0.01"]).to_string(),
        2 => dec_str(rng.range(-50, 50), 3),
        3 => dec_str(rng.range(-9999, 9999), 4),
        4 => dec_str(rng.range(-20, 20), 0),
        _ => dec_str(rng.range(-999_999, 999_999), 6),
    }
}

fn risk_dec(rng: &mut Rng) -> String {
    match rng.below(6) {
        0 | 1 => "0".into(),
        2 => rng.pick(&["0.02", "0.015", "-0.015", "0.5", "1", "0.25"]).to_string(),
        3 => dec_str(rng.range(1, 9999), 4),
        4 => dec_str(rng.range(-999, 999), 3),
        _ => dec_str(rng.range(1, 999_999), 6),
    }
}

fn value_tok(rng: &mut Rng) -> String {
    match rng.below(10) {
        0 => "MAX".into(),
        1 => "MIN".into(),
        2 => "0".into(),
        3 => rng.pick(&["0.05", "0.01", "-0.01", "1", "-1"]).to_string(),
        // large magnitudes: the product with the scale factor overflows for some factors
        4 | 5 => {
            let e = rng.range(20, 26) as u32;
            let m = rng.range(1, 79);
            let s = format!("{}{}", m, "0".repeat(e as usize));
            if rng.chance(50) { format!("-{s}") } else { s }
        }
        _ => small_dec(rng),
    }
}

const KINDS: [&str; 3] = ["sharpe", "sortino", "calmar"];

/// The repo's own unit-test vectors (sharpe.rs, sortino.rs, calmar.rs, rate_of_return.rs, time.rs).
fn unit_vectors(out: &mut Out) {
    out.case("u-names");
    for iv in ["D", "A252", "A365", "ms:7200000", "ms:90000", "ms:-90000", "ms:59999", "ms:0"] {
        out.line(format!("name {iv}"));
    }
    out.case("u-sharpe");
    out.line("calc sharpe 0.001 0.002 0.0 ms:7200000");
    out.line("calc sharpe 0.0015 0.0025 0.02 ms:7200000");
    out.line("calc sharpe 0.0015 0.0025 0.02 D");
    out.line("scale sharpe 0.05 D A252");
    out.line("calc sharpe 0.002 0.001 0 D");
    out.case("u-sortino");
    out.line("calc sortino 0.0015 0.0025 0.02 D");
    out.line("calc sortino 0.001 0.002 0.0 D");
    out.line("calc sortino 0.002 0.001 0.0 D");
    out.line("calc sortino 0.001 0.001 0.0 D");
    out.line("calc sortino 0.001 -0.002 0.015 D");
    out.line("calc sortino 0.0015 0.0025 0.02 ms:14400000");
    out.line("scale sortino 0.05 D A252");
    out.line("scale sortino 0.05 ms:7200000 ms:28800000");
    out.line("calc sortino 0.0000000001 0.0000000002 0.0000000001 D");
    out.line("calc sortino 10000000000 20000000000 10000000000 D");
    out.case("u-calmar");
    out.line("calc calmar 0.0015 0.0025 0.02 D");
    out.line("calc calmar 0.001 0.002 0.0 D");
    out.line("calc calmar 0.002 0.001 0.0 D");
    out.line("calc calmar 0.002 -0.001 0.0 D");
    out.line("calc calmar 0.001 0.001 0.0 D");
    out.line("calc calmar 0.001 -0.002 0.015 D");
    out.line("calc calmar 0.0015 0.0025 0.02 ms:14400000");
    out.line("scale calmar 0.05 D A252");
    out.line("scale calmar 0.05 ms:7200000 ms:28800000");
    out.line("calc calmar 0.001 0.002 -0.015 D");
    out.case("u-ror");
    out.line("calc ror 0.0025 D");
    out.line("calc ror 0.0 D");
    out.line("calc ror -0.0025 D");
    out.line("calc ror 0.0025 ms:14400000");
    out.line("scale ror 0.01 D A252");
    out.line("scale ror 0.01 ms:7200000 ms:28800000");
    out.line("scale ror 0.0 D A252");
    out.line("scale ror -0.01 D A252");
    out.line("scale ror 0.0000000001 D A252");
    out.line("scale ror 10000000000 D A252");
    // sentinels through `scale` (what `generate` does to the zero-risk special cases)
    out.case("u-sentinels");
    for k in KINDS {
        for v in ["MAX", "MIN"] {
            for (a, b) in [("D", "A252"), ("A365", "D"), ("D", "D"), ("ms:500", "D"), ("D", "ms:0")] {
                out.line(format!("scale {k} {v} {a} {b}"));
            }
        }
    }
    out.line("scale ror MIN D A252");
    out.line("scale ror MAX A252 D");
    out.line("scale ror -1 ms:500 D");
    out.line("cs sortino 0.002 0.001 0 ms:864000000 A365");
    out.line("cs calmar 0.002 0.001 0 ms:864000000 A365");
    out.line("cs sharpe 0.002 0.001 0 ms:864000000 A365");
    // a tear sheet with one losing position: Sortino "very bad" goes through scale
    out.case("u-sheet-one-loss");
    out.line("init 0");
    out.line("gen 0 A365");
    out.line("pos 864000000 -5 100 1");
    out.line("gen 0 A365");
    out.line("gen 0 ms:432000000");
    out.case("u-sheet-mixed");
    out.line("init 1000");
    out.line("pos 86401000 10 100 1");
    out.line("pos 172801000 -20 100 1");
    out.line("pos 259201000 20 100 1");
    out.line("pos 345601000 -5 100 1");
    out.line("pos 432001000 30 100 1");
    out.line("gen 0.0015 D");
    out.line("gen 0.0015 A252");
    out.line("gen 0.0015 A365");
}

fn metric_case(rng: &mut Rng, out: &mut Out, tier: &str) {
    let n = rng.range(1, if tier == "thorough" { 14 } else { 8 });
    let exotic = rng.chance(35);
    for _ in 0..n {
        match rng.below(10) {
            0 => out.line(format!("name {}", iv_tok(rng, true))),
            1 | 2 => {
                let k = *rng.pick(&KINDS);
                // mean == rf with zero risk is a branch of its own
                let rf = small_dec(rng);
                let mean = if rng.chance(25) { rf.clone() } else { small_dec(rng) };
                out.line(format!("calc {k} {rf} {mean} {} {}", risk_dec(rng), iv_tok(rng, exotic)));
            }
            3 => out.line(format!("calc ror {} {}", small_dec(rng), iv_tok(rng, exotic))),
            4..=6 => {
                let k = *rng.pick(&["sharpe", "sortino", "calmar", "ror"]);
                let (a, b) = (iv_tok(rng, exotic), iv_tok(rng, exotic));
                let b = if rng.chance(10) { a.clone() } else { b };
                out.line(format!("scale {k} {} {a} {b}", value_tok(rng)));
            }
            7 => {
                // scale twice: A -> B -> C against A -> C, on a literal value
                let k = *rng.pick(&["sharpe", "ror"]);
                let v = small_dec(rng);
                let (a, b, c) = (iv_tok(rng, false), iv_tok(rng, false), iv_tok(rng, false));
                out.line(format!("scale {k} {v} {a} {b}"));
                out.line(format!("scale {k} {v} {a} {c}"));
                out.line(format!("scale {k} {v} {b} {c}"));
            }
            _ => {
                let k = *rng.pick(&KINDS);
                let rf = small_dec(rng);
                let mean = if rng.chance(25) { rf.clone() } else { small_dec(rng) };
                out.line(format!(
                    "cs {k} {rf} {mean} {} {} {}",
                    risk_dec(rng),
                    iv_tok(rng, exotic),
                    iv_tok(rng, exotic)
                ));
            }
        }
    }
}

fn sheet_case(rng: &mut Rng, out: &mut Out, tier: &str) {
    let t0 = *rng.pick(&[0i64, 1000, 1_700_000_000_000, 86_400_000]);
    out.line(format!("init {t0}"));
    let len = rng.range(0, if tier == "thorough" { 40 } else { 20 });
    // bias of the history
    let bias = *rng.pick(&[0u64, 1, 2, 3, 3, 4, 4, 4, 4, 4, 5]);
    // entry notionals with finite decimal expansions of 1/notional, so that every return is an exact
    // `Decimal` (the comparison `mean == risk_free` of the zero-risk branch is then not decided by
    // rounding noise)
    let notionals: [(&str, &str); 6] = [("100", "1"), ("50", "2"), ("25", "4"), ("1", "1"), ("10", "0.5"), ("200", "0.5")];
    let whole_seconds = !rng.chance(25);
    let step_choices: [i64; 6] = [1000, 60_000, 3_600_000, DAY, 7 * DAY, 30 * DAY];
    let step = *rng.pick(&step_choices);
    let mut t = t0;
    let rf_pool: &[&str] = if bias == 0 || bias == 1 { &["0", "0.0015", "0.001"] } else { &["0.0015", "0.001", "-0.0005", "0.02"] };
    let equal_losses = rng.chance(30);
    for k in 0..len {
        if rng.chance(12) {
            let exotic = rng.chance(10);
            out.line(format!("gen {} {}", rng.pick(rf_pool), iv_tok(rng, exotic)));
        }
        // time: mostly advancing; sometimes equal; rarely going back (before the start included)
        let dt = match rng.below(20) {
            0 => 0,
            1 => -step,
            _ => step * rng.range(1, 3),
        };
        t += dt;
        if !whole_seconds {
            t += rng.range(0, 999);
        }
        let pnl: i64 = match bias {
            0 => rng.range(1, 30),                                     // all wins
            1 => -(if equal_losses { 5 } else { rng.range(1, 30) }),  // all losses
            2 => if k == 0 { -rng.range(1, 30) } else { rng.range(0, 30) }, // a single loss first
            3 => if rng.chance(15) { -(if equal_losses { 7 } else { rng.range(1, 40) }) } else { rng.range(0, 30) },
            4 => rng.range(-30, 30),
            _ => if rng.chance(50) { 0 } else { rng.range(-10, 10) },
        };
        let (entry, qty) = *rng.pick(&notionals);
        out.line(format!("pos {t} {} {entry} {qty}", dec_str(pnl, if rng.chance(20) { 1 } else { 0 })));
    }
    let gens = rng.range(1, 3);
    for _ in 0..gens {
        let exotic = rng.chance(10);
        out.line(format!("gen {} {}", rng.pick(rf_pool), iv_tok(rng, exotic)));
    }
    if rng.chance(4) {
        // the code panics on a zero cost of investment (division by zero); last op of the case
        let (e, q) = *rng.pick(&[("0", "1"), ("100", "0")]);
        out.line(format!("pos {} 1 {e} {q}", t + step));
    }
}

fn generate(seed: u64, n_cases: usize, tier: &str) {
    let mut out = Out::new();
    let mut rng = Rng::new(seed);
    unit_vectors(&mut out);
    let mut id = 0usize;
    if tier == "thorough" {
        // small-scope exhaustive: every (kind, value class, from, to) over a fixed interval alphabet
        let ivs = ["D", "A252", "A365", "ms:7200000", "ms:1000", "ms:1500", "ms:500", "ms:0", "ms:-86400000", "ms:63072000000"];
        let vals = ["MAX", "MIN", "0", "0.05", "-0.05", "1", "-3", "7900000000000000000000000000", "-7900000000000000000000000000"];
        for k in ["sharpe", "sortino", "calmar", "ror"] {
            for a in ivs {
                id += 1;
                out.case(format!("x{id}"));
                for b in ivs {
                    for v in vals {
                        out.line(format!("scale {k} {v} {a} {b}"));
                    }
                }
            }
        }
        // every zero-risk / sign combination of calculate followed by scale
        let rfs = ["0", "0.001", "-0.001"];
        let means = ["0", "0.001", "-0.001", "0.002"];
        let risks = ["0", "0.02", "-0.02"];
        for k in KINDS {
            id += 1;
            out.case(format!("x{id}"));
            for rf in rfs {
                for mean in means {
                    for risk in risks {
                        out.line(format!("calc {k} {rf} {mean} {risk} D"));
                        for (a, b) in [("ms:864000000", "A365"), ("ms:63072000000", "A365"), ("D", "D")] {
                            out.line(format!("cs {k} {rf} {mean} {risk} {a} {b}"));
                        }
                    }
                }
            }
        }
    }
    for _ in 0..n_cases {
        id += 1;
        out.case(format!("r{id}"));
        if rng.chance(45) {
            metric_case(&mut rng, &mut out, tier);
        } else {
            sheet_case(&mut rng, &mut out, tier);
        }
    }
    domain_family(&mut out, seed, n_cases, tier);
    out.flush();
}

// ---------------------------------------------------------------- input-domain family (`d..` cases)
//
// Separately seeded, appended after the random cases (which stay exactly as they were): tear-sheet input
// classes the random sheet cases never produce. One class per case, cycled by case number:
//   0 long            80-150 (thorough -300) closed positions, a request every ~40 and at the end
//   1 signs of cost   negative entry price, negative size, both (exact notionals as in sheet_case)
//   2 clock           NEGATIVE start time, exits before / at the start (trading period clamped to 1 s),
//                     a whole history at ONE instant
//   3 duplicates      runs of the identical closed position (same time, PnL, entry, size)
fn domain_family(out: &mut Out, seed: u64, n_cases: usize, tier: &str) {
    let mut rng = Rng::new(seed ^ 0xD0_16_4D_D0);
    let rng = &mut rng;
    let thorough = tier == "thorough";
    let notionals: [(&str, &str); 6] = [("100", "1"), ("50", "2"), ("25", "4"), ("1", "1"), ("10", "0.5"), ("200", "0.5")];
    let rfs = ["0", "0.0015", "0.001", "-0.0005"];
    let ivs = ["D", "A252", "A365", "ms:7200000", "ms:604800000"];
    let count = (n_cases / 15).max(4);
    for j in 0..count {
        out.case(format!("d{}", j + 1));
        let step = *rng.pick(&[1000i64, 60_000, 3_600_000, DAY, 7 * DAY]);
        match j % 4 {
            0 => {
                let t0 = *rng.pick(&[0i64, 1000, 1_700_000_000_000]);
                out.line(format!("init {t0}"));
                let mut t = t0;
                let bias = rng.below(4);
                let len = rng.range(80, if thorough { 300 } else { 150 });
                for k in 0..len {
                    t += match rng.below(20) {
                        0 => 0,
                        1 => -step,
                        _ => step * rng.range(1, 3),
                    };
                    let pnl = match bias {
                        0 => rng.range(1, 30),
                        1 => -rng.range(1, 30),
                        2 => rng.range(-30, 30),
                        _ => if rng.chance(50) { 0 } else { rng.range(-10, 10) },
                    };
                    let (entry, qty) = *rng.pick(&notionals);
                    out.line(format!("pos {t} {pnl} {entry} {qty}"));
                    if k % 40 == 39 {
                        out.line(format!("gen {} {}", rng.pick(&rfs), rng.pick(&ivs)));
                    }
                }
                out.line(format!("gen {} D", rng.pick(&rfs)));
                out.line(format!("gen {} {}", rng.pick(&rfs), rng.pick(&ivs)));
            }
            1 => {
                out.line("init 0");
                let mut t = 0i64;
                for _ in 0..rng.range(1, 20) {
                    t += step * rng.range(1, 3);
                    let (entry, qty) = *rng.pick(&notionals);
                    let (se, sq) = *rng.pick(&[("-", ""), ("", "-"), ("-", "-"), ("", "")]);
                    let pnl = if rng.chance(20) { 0 } else { rng.range(-30, 30) };
                    out.line(format!("pos {t} {pnl} {se}{entry} {sq}{qty}"));
                    if rng.chance(12) {
                        out.line(format!("gen {} {}", rng.pick(&rfs), rng.pick(&ivs)));
                    }
                }
                out.line(format!("gen {} {}", rng.pick(&rfs), rng.pick(&ivs)));
            }
            2 => {
                let t0 = *rng.pick(&[-86_400_000i64, -1, -1_700_000_000_000, 5000]);
                out.line(format!("init {t0}"));
                let same_instant = rng.chance(40);
                let mut t = t0;
                out.line(format!("gen {} {}", rng.pick(&rfs), rng.pick(&ivs)));
                for _ in 0..rng.range(1, 15) {
                    if !same_instant {
                        t += *rng.pick(&[0i64, -1, -1000, -step, step, 1, 999, 1000, 1001]);
                    }
                    let (entry, qty) = *rng.pick(&notionals);
                    out.line(format!("pos {t} {} {entry} {qty}", rng.range(-20, 20)));
                    if rng.chance(20) {
                        out.line(format!("gen {} {}", rng.pick(&rfs), rng.pick(&ivs)));
                    }
                }
                out.line(format!("gen {} {}", rng.pick(&rfs), rng.pick(&ivs)));
            }
            _ => {
                out.line("init 1000");
                let mut t = 1000i64;
                for _ in 0..rng.range(1, 6) {
                    t += step;
                    let (entry, qty) = *rng.pick(&notionals);
                    let pnl = rng.range(-20, 20);
                    for _ in 0..rng.range(2, 6) {
                        out.line(format!("pos {t} {pnl} {entry} {qty}"));
                    }
                    if rng.chance(30) {
                        out.line(format!("gen {} {}", rng.pick(&rfs), rng.pick(&ivs)));
                    }
                }
                out.line(format!("gen {} {}", rng.pick(&rfs), rng.pick(&ivs)));
            }
        }
    }
}

fn main() {
    let a = args();
    match a.cmd.as_str() {
        "gen" => generate(a.seed, a.n, &a.tier),
        "run" => run(),
        _ => {
            eprintln!("usage: c16m gen <seed> <n> <tier> | run < cases");
            std::process::exit(2)
        }
    }
}
