//! C05M (sub-check of C05) — order book event dispatch, `OrderBookMap` and the L2 manager.
//! Ops: see lean/BarterModel/Driver/C05M.lean.
//!
//! Everything is the real code of /repo: `Level` (derived `Ord` / `PartialEq`), `OrderBook::new` on
//! arbitrary input (unsorted, duplicate prices, zero amounts), `OrderBookMapSingle` /
//! `OrderBookMapMulti` (`new`, `insert`, `find`, `keys`, `clone`) over `Arc<RwLock<OrderBook>>` cells
//! (identified by `Arc::ptr_eq`; several keys may share one cell), and `OrderBookL2Manager::run` on a
//! current-thread tokio runtime over a finite in-memory stream (`run`: `stream::iter`; `runc`: an
//! unbounded channel fed by a concurrently running producer task that yields between sends). The
//! manager always receives a *clone* of the map; the books are read afterwards through the
//! original handles. `runr` is `runc` with a second reader: a task holding its own clones of every
//! cell's `Arc` polls `try_read()` on all of them each time the manager waits for the next event
//! (`rdlocked n`: how often a book was found write-locked between two events; documented use of the
//! map is "clone the map for viewing the up to date OrderBooks elsewhere", so `n` is 0).
use barter_data::{
    books::{
        Level, OrderBook,
        manager::OrderBookL2Manager,
        map::{OrderBookMap, OrderBookMapMulti, OrderBookMapSingle},
    },
    event::MarketEvent,
    streams::consumer::MarketStreamEvent,
    subscription::book::OrderBookEvent,
};
use barter_instrument::exchange::ExchangeId;
use chrono::{DateTime, Utc};
use fnv::FnvHashMap;
use std::sync::Arc;
use vh::*;

fn fmt_level(l: &Level) -> String {
    format!("{}:{}", fmt_dec(l.price), fmt_dec(l.amount))
}

fn fmt_levels(ls: &[Level]) -> String {
    ls.iter().map(fmt_level).collect::<Vec<_>>().join(" ")
}

fn fmt_prices(ls: &[Level]) -> String {
    ls.iter().map(|l| fmt_dec(l.price)).collect::<Vec<_>>().join(" ")
}

fn fmt_time(t: Option<DateTime<Utc>>) -> String {
    match t {
        None => "-".into(),
        Some(t) => t.timestamp_millis().to_string(),
    }
}

fn fmt_book_line(b: &OrderBook) -> String {
    format!(
        "{} {} {} | {}",
        b.sequence,
        fmt_time(b.time_engine),
        fmt_levels(b.bids().levels()),
        fmt_levels(b.asks().levels())
    )
}

fn parse_level(t: &str) -> Level {
    let (p, a) = t.split_once(':').unwrap_or_else(|| panic!("bad level {t:?}"));
    Level::new(parse_dec(p), parse_dec(a))
}

fn parse_levels(toks: &[String]) -> Vec<Level> {
    toks.iter().map(|t| parse_level(t)).collect()
}

/// `seq te | bids | asks`; `None` (reported as `bad-op`, as the drivers do) when `seq` is not a `u64`
fn parse_body(toks: &[String]) -> Option<OrderBook> {
    let seq: u64 = toks[0].parse().ok()?;
    let te = if toks[1] == "-" {
        None
    } else {
        Some(DateTime::<Utc>::from_timestamp_millis(toks[1].parse().expect("time")).expect("time range"))
    };
    assert_eq!(toks[2], "|", "bad op");
    let rest = &toks[3..];
    let bar = rest.iter().position(|t| t == "|").expect("second |");
    Some(OrderBook::new(seq, te, parse_levels(&rest[..bar]), parse_levels(&rest[bar + 1..])))
}

const DEPTHS: [usize; 4] = [0, 1, 2, 5];

fn observe(sfx: usize, book: &OrderBook, lines: &mut Vec<String>) {
    let best = |ls: &[Level]| ls.first().map(fmt_level).unwrap_or_else(|| "none".into());
    lines.push(format!("h{sfx} {} {}", book.sequence, fmt_time(book.time_engine)));
    lines.push(format!("b{sfx} {}", fmt_levels(book.bids().levels())));
    lines.push(format!("a{sfx} {}", fmt_levels(book.asks().levels())));
    lines.push(format!("bp{sfx} {}", fmt_prices(book.bids().levels())));
    lines.push(format!("ap{sfx} {}", fmt_prices(book.asks().levels())));
    lines.push(format!("bb{sfx} {}", best(book.bids().levels())));
    lines.push(format!("ba{sfx} {}", best(book.asks().levels())));
    lines.push(format!("mid{sfx} {}", fmt_opt_dec_approx(book.mid_price())));
    let vw = std::panic::catch_unwind(std::panic::AssertUnwindSafe(|| book.volume_weighed_mid_price()));
    lines.push(format!(
        "vw{sfx} {}",
        match vw {
            Ok(v) => fmt_opt_dec_approx(v),
            Err(_) => "panic".into(),
        }
    ));
    lines.push(format!("def{sfx} {}", (*book == OrderBook::default()) as u8));
}

type StreamEv = MarketStreamEvent<usize, OrderBookEvent>;

fn item(k: usize, kind: OrderBookEvent) -> StreamEv {
    let t: DateTime<Utc> = DateTime::<Utc>::MIN_UTC;
    MarketStreamEvent::Item(MarketEvent {
        time_exchange: t,
        time_received: t,
        exchange: ExchangeId::Mock,
        instrument: k,
        kind,
    })
}

enum Map {
    Unset,
    Single(OrderBookMapSingle<usize>),
    Multi(OrderBookMapMulti<usize>),
}

/// `OrderBookL2Manager::run` over a clone of the map; `chan` selects the channel-fed stream.
fn run_manager<M>(
    rt: &tokio::runtime::Runtime,
    map: &M,
    stream: Vec<StreamEv>,
    chan: bool,
    reader: Option<Box<dyn Fn() -> usize>>,
) -> usize
where
    M: OrderBookMap<Key = usize> + 'static,
{
    if let Some(poll) = reader {
        // second reader: its own Arc clones, polled whenever the manager is pending on the channel
        let books = map.clone();
        let local = tokio::task::LocalSet::new();
        return local.block_on(rt, async move {
            let (tx, rx) = tokio::sync::mpsc::unbounded_channel::<StreamEv>();
            let done = std::rc::Rc::new(std::cell::Cell::new(false));
            let producer = tokio::task::spawn_local(async move {
                for ev in stream {
                    if tx.send(ev).is_err() {
                        break;
                    }
                    // let the manager take the event, then the reader look at the books
                    tokio::task::yield_now().await;
                    tokio::task::yield_now().await;
                }
            });
            let done_r = done.clone();
            let rd = tokio::task::spawn_local(async move {
                let mut locked = 0usize;
                loop {
                    locked += poll();
                    if done_r.get() {
                        break locked;
                    }
                    tokio::task::yield_now().await;
                }
            });
            let manager = OrderBookL2Manager {
                stream: tokio_stream::wrappers::UnboundedReceiverStream::new(rx),
                books,
            };
            manager.run().await;
            done.set(true);
            producer.await.expect("producer");
            rd.await.expect("reader")
        });
    }
    if !chan {
        let manager = OrderBookL2Manager {
            stream: futures::stream::iter(stream),
            books: map.clone(),
        };
        rt.block_on(manager.run());
    } else {
        let books = map.clone();
        let local = tokio::task::LocalSet::new();
        local.block_on(rt, async move {
            let (tx, rx) = tokio::sync::mpsc::unbounded_channel::<StreamEv>();
            let producer = tokio::task::spawn_local(async move {
                for (i, ev) in stream.into_iter().enumerate() {
                    if tx.send(ev).is_err() {
                        break; // the manager returned early: observed through the books
                    }
                    if i % 2 == 0 {
                        tokio::task::yield_now().await;
                    }
                }
                // dropping tx ends the stream
            });
            let manager = OrderBookL2Manager {
                stream: tokio_stream::wrappers::UnboundedReceiverStream::new(rx),
                books,
            };
            manager.run().await;
            producer.await.expect("producer");
        });
    }
    0
}

fn run() {
    let rt = tokio::runtime::Builder::new_current_thread().build().unwrap();
    run_cases(|case, lines| {
        // the Arc<parking_lot::RwLock<OrderBook>> cells, in allocation order (the element type is
        // inferred from the field type of OrderBookMapSingle)
        let mut cells = vec![OrderBookMapSingle::new(0usize, Arc::default()).book];
        cells.clear();
        let mut map = Map::Unset;
        let mut queue: Vec<StreamEv> = vec![];
        for op in case.ops.iter() {
            lines.push("@".into());
            let cell_arg = |t: &String| -> Option<usize> {
                let c: usize = t.parse().expect("cell");
                (c < cells.len()).then_some(c)
            };
            match op[0].as_str() {
                "lv" => {
                    let (a, b) = (parse_level(&op[1]), parse_level(&op[2]));
                    let cmp = a.cmp(&b);
                    lines.push(format!(
                        "cmp {}",
                        match cmp {
                            std::cmp::Ordering::Less => "lt",
                            std::cmp::Ordering::Equal => "eq",
                            std::cmp::Ordering::Greater => "gt",
                        }
                    ));
                    lines.push(format!("eq {}", (a == b) as u8));
                    lines.push(format!("rel {}{}{}{}", (a < b) as u8, (a <= b) as u8, (a > b) as u8, (a >= b) as u8));
                    lines.push(format!("max {}", fmt_level(&a.max(b))));
                    lines.push(format!("min {}", fmt_level(&a.min(b))));
                    if a.partial_cmp(&b) != Some(cmp) {
                        lines.push("partial-cmp-differs".into());
                    }
                }
                "lsort" => {
                    let mut ls = parse_levels(&op[1..]);
                    ls.sort();
                    lines.push(format!("sorted {}", fmt_levels(&ls)));
                }
                "cell" => {
                    let Some(book) = parse_body(&op[1..]) else {
                        lines.push("bad-op".into());
                        continue;
                    };
                    let cell = OrderBookMapSingle::new(0usize, Arc::default()).book;
                    *cell.write() = book;
                    cells.push(cell.clone());
                    let book = cell.read();
                    observe(cells.len() - 1, &book, lines);
                    for d in DEPTHS {
                        lines.push(format!("snap{d} {}", fmt_book_line(&book.snapshot(d))));
                    }
                }
                "celld" => {
                    // Arc<RwLock<OrderBook>>::default() holds OrderBook::default()
                    let cell = OrderBookMapSingle::new(0usize, Arc::default()).book;
                    cells.push(cell.clone());
                    observe(cells.len() - 1, &cell.read(), lines);
                }
                "single" => {
                    let k: usize = op[1].parse().expect("key");
                    match cell_arg(&op[2]) {
                        Some(c) => map = Map::Single(OrderBookMapSingle::new(k, cells[c].clone())),
                        None => lines.push("bad-op".into()),
                    }
                }
                "multi" => {
                    let pairs: Vec<(usize, usize)> = op[1..]
                        .iter()
                        .map(|t| {
                            let (k, c) = t.split_once(':').expect("k:c");
                            (k.parse().expect("key"), c.parse().expect("cell"))
                        })
                        .collect();
                    if pairs.iter().all(|(_, c)| *c < cells.len()) {
                        let books: FnvHashMap<usize, _> =
                            pairs.into_iter().map(|(k, c)| (k, cells[c].clone())).collect();
                        map = Map::Multi(OrderBookMapMulti::new(books));
                    } else {
                        lines.push("bad-op".into());
                    }
                }
                "insert" => {
                    let k: usize = op[1].parse().expect("key");
                    match (&mut map, cell_arg(&op[2])) {
                        (Map::Multi(m), Some(c)) => m.insert(k, cells[c].clone()),
                        _ => lines.push("bad-op".into()),
                    }
                }
                "find" => {
                    let k: usize = op[1].parse().expect("key");
                    let found = match &map {
                        Map::Single(m) => m.find(&k),
                        Map::Multi(m) => m.find(&k),
                        Map::Unset => {
                            lines.push("bad-op".into());
                            continue;
                        }
                    };
                    lines.push(match found {
                        None => "found none".into(),
                        Some(book) => {
                            let c = cells.iter().position(|c| Arc::ptr_eq(c, &book)).expect("a known cell");
                            format!("found {c}")
                        }
                    });
                }
                "keys" => {
                    let mut keys: Vec<usize> = match &map {
                        Map::Single(m) => m.keys().copied().collect(),
                        Map::Multi(m) => m.keys().copied().collect(),
                        Map::Unset => {
                            lines.push("bad-op".into());
                            continue;
                        }
                    };
                    keys.sort();
                    lines.push(format!("keys {}", keys.iter().map(|k| k.to_string()).collect::<Vec<_>>().join(" ")));
                }
                "re" => queue.push(MarketStreamEvent::Reconnecting(ExchangeId::Mock)),
                "snap" | "upd" => {
                    let k: usize = op[1].parse().expect("key");
                    let Some(book) = parse_body(&op[2..]) else {
                        lines.push("bad-op".into());
                        continue;
                    };
                    lines.push(format!("ev {}", fmt_book_line(&book)));
                    let event = if op[0] == "snap" {
                        OrderBookEvent::Snapshot(book)
                    } else {
                        OrderBookEvent::Update(book)
                    };
                    queue.push(item(k, event));
                }
                "run" | "runc" | "runr" => {
                    // as the drivers: no argument, and a map must have been built (the queue is kept otherwise)
                    if op.len() != 1 || matches!(map, Map::Unset) {
                        lines.push("bad-op".into());
                        continue;
                    }
                    let stream = std::mem::take(&mut queue);
                    let chan = op[0] == "runc";
                    // the reader's own clones of the Arcs; one poll = try_read() on every book
                    let reader: Option<Box<dyn Fn() -> usize>> = (op[0] == "runr").then(|| {
                        let handles = cells.clone();
                        Box::new(move || {
                            handles
                                .iter()
                                .filter(|h| match h.try_read() {
                                    Some(book) => {
                                        std::hint::black_box(book.sequence);
                                        false
                                    }
                                    None => true,
                                })
                                .count()
                        }) as Box<dyn Fn() -> usize>
                    });
                    let with_reader = reader.is_some();
                    let locked = match &map {
                        Map::Single(m) => run_manager(&rt, m, stream, chan, reader),
                        Map::Multi(m) => run_manager(&rt, m, stream, chan, reader),
                        Map::Unset => unreachable!(),
                    };
                    if with_reader {
                        lines.push(format!("rdlocked {locked}"));
                    }
                    for (c, cell) in cells.iter().enumerate() {
                        observe(c, &cell.read(), lines);
                    }
                }
                "depth" => {
                    let Ok(d) = op[2].parse::<usize>() else {
                        lines.push("bad-op".into());
                        continue;
                    };
                    match cell_arg(&op[1]) {
                        Some(c) => lines.push(format!("snap {}", fmt_book_line(&cells[c].read().snapshot(d)))),
                        None => lines.push("bad-op".into()),
                    }
                }
                other => panic!("bad op {other}"),
            }
        }
    });
}

// ------------------------------------------------------------------------------------ generators

struct Grid {
    prices: Vec<String>,
}

impl Grid {
    fn new(rng: &mut Rng, min_prices: usize, max_prices: usize) -> Grid {
        let count = rng.range(min_prices as i64, max_prices as i64) as usize;
        let (base, step, scale) =
            *rng.pick(&[(100i64, 1i64, 0u32), (1000, 5, 1), (99990, 5, 2), (1, 1, 4), (25000, 125, 3), (-3, 1, 0)]);
        Grid {
            prices: (0..count as i64).map(|i| dec_str(base + i * step, scale)).collect(),
        }
    }
}

fn amount(rng: &mut Rng, zero_pct: u64) -> String {
    if rng.chance(zero_pct) {
        return (*rng.pick(&["0", "0.0", "0.000"])).to_string();
    }
    match rng.below(4) {
        0 => "1".into(),
        1 => "0.5".into(),
        2 => dec_str(rng.range(1, 9999), 3),
        _ => dec_str(rng.range(1, 50), 0),
    }
}

fn shuffle<T>(rng: &mut Rng, xs: &mut [T]) {
    for i in (1..xs.len()).rev() {
        let j = rng.below(i as u64 + 1) as usize;
        xs.swap(i, j);
    }
}

/// arbitrary unsorted levels, duplicates and zero amounts allowed (at most `max_levels` = 12 / 16: a
/// size choice only — the constructors use the stable `sort_by`, as does the model; a longer
/// duplicate-price list is in corpus/C05M)
fn any_levels(rng: &mut Rng, grid: &Grid, max_levels: usize, zero_pct: u64) -> Vec<String> {
    let len = if rng.chance(15) { 0 } else { rng.range(1, max_levels as i64) as usize };
    (0..len)
        .map(|_| format!("{}:{}", rng.pick(&grid.prices), amount(rng, zero_pct)))
        .collect()
}

/// clean side: distinct prices, non-zero amounts, any order
fn clean_levels(rng: &mut Rng, grid: &Grid, keep_pct: u64) -> Vec<String> {
    let mut ps: Vec<&String> = grid.prices.iter().filter(|_| rng.chance(keep_pct)).collect();
    shuffle(rng, &mut ps);
    ps.into_iter().map(|p| format!("{p}:{}", amount(rng, 0))).collect()
}

fn time(rng: &mut Rng) -> String {
    match rng.below(6) {
        0 | 1 => "-".into(),
        2 => "0".into(),
        3 => "-1".into(),
        _ => (1_700_000_000_000i64 + rng.range(0, 5) * 250).to_string(),
    }
}

fn body(rng: &mut Rng, grid: &Grid, seq: u64, clean: bool, max_levels: usize, zero_pct: u64) -> String {
    let (b, a) = if clean {
        (clean_levels(rng, grid, 55), clean_levels(rng, grid, 55))
    } else {
        (any_levels(rng, grid, max_levels, zero_pct), any_levels(rng, grid, max_levels, zero_pct))
    };
    format!("{seq} {} | {} | {}", time(rng), b.join(" "), a.join(" "))
}

fn level_case(out: &mut Out, rng: &mut Rng) {
    let vals = ["-1", "0", "0.0", "1", "1.0", "1.5", "2", "100.25"];
    for _ in 0..rng.range(2, 8) {
        let l = |rng: &mut Rng| format!("{}:{}", rng.pick(&vals), rng.pick(&vals));
        let (a, b) = (l(rng), l(rng));
        out.line(format!("lv {a} {b}"));
    }
    let n = rng.range(0, 12);
    let ls: Vec<String> = (0..n).map(|_| format!("{}:{}", rng.pick(&vals), rng.pick(&vals))).collect();
    out.line(format!("lsort {}", ls.join(" ")));
}

fn manager_case(out: &mut Out, rng: &mut Rng, thorough: bool) {
    // a long book (binary search over many levels; distinct prices) or a short one (duplicates /
    // zeros allowed)
    let long = rng.chance(12);
    let grid = if long { Grid::new(rng, 24, if thorough { 70 } else { 48 }) } else { Grid::new(rng, 2, if thorough { 10 } else { 7 }) };
    let max_levels = if thorough { 16 } else { 12 };
    let zero_pct = *rng.pick(&[10u64, 30, 30, 60]);
    let dirty_pct = *rng.pick(&[0u64, 30, 60, 100]);
    let mut seq: u64 = rng.range(0, 1000) as u64;
    let n_cells = rng.range(1, 4) as usize;
    for _ in 0..n_cells {
        if rng.chance(55) {
            out.line("celld");
        } else if long {
            out.line(format!(
                "cell {seq} {} | {} | {}",
                time(rng),
                clean_levels(rng, &grid, 80).join(" "),
                clean_levels(rng, &grid, 80).join(" ")
            ));
        } else {
            let clean = !rng.chance(dirty_pct);
            out.line(format!("cell {}", body(rng, &grid, seq, clean, max_levels, zero_pct)));
        }
    }
    let n_keys = rng.range(1, 4) as usize;
    let single = rng.chance(25);
    if single {
        out.line(format!("single {} {}", rng.below(n_keys as u64), rng.below(n_cells as u64)));
    } else {
        // keys may repeat (the later pair wins) and cells may be shared between keys
        let pairs: Vec<String> = (0..rng.range(0, 5))
            .map(|_| format!("{}:{}", rng.below(n_keys as u64), rng.below(n_cells as u64)))
            .collect();
        out.line(format!("multi {}", pairs.join(" ")));
    }
    out.line("keys");
    for k in 0..=n_keys {
        out.line(format!("find {k}"));
    }
    let len = rng.range(1, if thorough { 40 } else { 25 });
    let run_pct = *rng.pick(&[10u64, 35, 100]);
    for _ in 0..len {
        if rng.chance(4) {
            out.line("re");
            continue;
        }
        if !single && rng.chance(4) {
            let k = rng.below(n_keys as u64 + 1);
            out.line(format!("insert {k} {}", rng.below(n_cells as u64)));
            out.line("keys");
            out.line(format!("find {k}"));
            continue;
        }
        if rng.chance(5) {
            out.line(format!("depth {} {}", rng.below(n_cells as u64), rng.pick(&[0u64, 1, 2, 3, 5, 100])));
            continue;
        }
        // key: mostly a candidate key, sometimes one that is never configured
        let k = if rng.chance(6) { 9 } else { rng.below(n_keys as u64) };
        seq = match rng.below(10) {
            0 => seq,
            1 => seq.saturating_sub(rng.below(5)),
            _ => seq + 1 + rng.below(3),
        };
        if rng.chance(10) {
            if long {
                out.line(format!(
                    "snap {k} {seq} {} | {} | {}",
                    time(rng),
                    clean_levels(rng, &grid, 80).join(" "),
                    clean_levels(rng, &grid, 80).join(" ")
                ));
            } else {
                let clean = !rng.chance(dirty_pct);
                out.line(format!("snap {k} {}", body(rng, &grid, seq, clean, max_levels, zero_pct)));
            }
        } else {
            let (b, a) = match rng.below(4) {
                0 => (any_levels(rng, &grid, max_levels, zero_pct), vec![]),
                1 => (vec![], any_levels(rng, &grid, max_levels, zero_pct)),
                _ => (any_levels(rng, &grid, max_levels, zero_pct), any_levels(rng, &grid, max_levels, zero_pct)),
            };
            out.line(format!("upd {k} {seq} {} | {} | {}", time(rng), b.join(" "), a.join(" ")));
        }
        if rng.chance(run_pct) {
            out.line(if rng.chance(30) { "runc" } else { "run" });
        }
    }
    out.line(if rng.chance(50) { "runc" } else { "run" });
    out.line(format!("depth {} {}", rng.below(n_cells as u64), rng.pick(&[0u64, 1, 2, 3, 5, 100])));
}


// ---- input-domain family (`d<id>` cases; own random stream, so the `r` / `x` cases stay as they are) ----

const SEQ_EDGES: [u64; 10] = [
    0,
    1,
    4294967295,
    4294967296,
    9007199254740993,
    9223372036854775807,
    9223372036854775808,
    18446744073709551614,
    18446744073709551615,
    18446744073709551615,
];

/// year 0, just before / at / after the epoch, now, year 9999 (all inside chrono's range)
const TIME_EDGES: [&str; 9] =
    ["-", "-62167219200000", "-1", "0", "1", "1700000000000", "1700000000000", "1700000000001", "253402300799999"];

const DEPTH_EDGES: [&str; 12] = ["0", "1", "2", "3", "4", "6", "7", "8", "16", "100", "9223372036854775808", "18446744073709551615"];

/// signed amounts, pairs that cancel exactly included (`volume_weighed_mid_price` then divides by zero: modelled)
fn signed_amount(rng: &mut Rng, zero_pct: u64) -> String {
    if rng.chance(zero_pct) {
        return (*rng.pick(&["0", "0.0", "-0", "-0.0", "0.000"])).to_string();
    }
    (*rng.pick(&["1", "-1", "1", "-1.0", "0.5", "-0.5", "2", "-2", "3.25", "-3.25", "7", "0.001", "-0.001", "12"])).to_string()
}

/// 1e-8 … 1e12, at most 13 significant digits, positive
fn wide_amount(rng: &mut Rng, zero_pct: u64) -> String {
    if rng.chance(zero_pct) {
        return (*rng.pick(&["0", "0.00000000"])).to_string();
    }
    (*rng.pick(&[
        "0.00000001",
        "0.00000003",
        "0.12345678",
        "1",
        "99999.99999999",
        "1000000000000",
        "999999999999.9",
        "250000000",
    ]))
    .to_string()
}

fn grid_of(base: i64, step: i64, scale: u32, count: usize) -> Grid {
    Grid { prices: (0..count as i64).map(|i| dec_str(base + i * step, scale)).collect() }
}

/// One case of the input-domain family; the class is fixed by the case index:
///  0 signed     negative amounts (pairs cancelling exactly included), `-0`, prices below / at / above zero
///  1 edges      sequence numbers 0 … u64::MAX in any order, time_engine year 0 … year 9999, equal and decreasing
///  2 magnitude  prices at 1e-8 and at 1e12, amounts 1e-8 … 1e12 (products stay within 28 digits)
///  3 long       sides of 100-260 levels, update lists of up to 300 levels (duplicates of a price, zero amounts)
///  4 levels     Level's derived order over a wider value set (-0, 1e-8, 1e12, negative amounts, 100.250 = 100.25)
/// every manager class draws snapshot depths from 0 … usize::MAX.
fn domain_case(out: &mut Out, rng: &mut Rng, idx: usize) {
    let class = match idx % 5 {
        3 if (idx / 5) % 3 != 0 => rng.below(3) as usize,
        4 if (idx / 5) % 2 != 0 => rng.below(3) as usize,
        c => c,
    };
    if class == 4 {
        let vals = ["-0", "0", "0.00000001", "-0.00000001", "1000000000000", "-1000000000000", "-1.5", "1.5", "100.25", "100.250", "1"];
        for _ in 0..rng.range(2, 8) {
            let l = |rng: &mut Rng| format!("{}:{}", rng.pick(&vals), rng.pick(&vals));
            let (a, b) = (l(rng), l(rng));
            out.line(format!("lv {a} {b}"));
        }
        let n = rng.range(0, 12);
        let ls: Vec<String> = (0..n).map(|_| format!("{}:{}", rng.pick(&vals), rng.pick(&vals))).collect();
        out.line(format!("lsort {}", ls.join(" ")));
        return;
    }
    let grid = match class {
        0 => {
            let count = rng.range(2, 7);
            let (st, sc) = *rng.pick(&[(1i64, 0u32), (5, 1), (1, 4), (1, 8)]);
            grid_of(-st * rng.range(0, count), st, sc, count as usize)
        }
        2 => {
            let mut g = grid_of(1, 1, 8, rng.range(1, 3) as usize);
            g.prices.extend(grid_of(100_000_000_000_000 - 2, 1, 2, rng.range(1, 4) as usize).prices);
            g
        }
        3 => {
            let (b, st, sc) = *rng.pick(&[(100i64, 1i64, 0u32), (99990, 5, 2), (-120, 1, 0)]);
            grid_of(b, st, sc, rng.range(140, 260) as usize)
        }
        _ => Grid::new(rng, 2, 7),
    };
    let zero_pct = *rng.pick(&[10u64, 30, 60]);
    let am = |rng: &mut Rng, zero_pct: u64| match class {
        0 => signed_amount(rng, zero_pct),
        2 => wide_amount(rng, zero_pct),
        _ => amount(rng, zero_pct),
    };
    let any = |rng: &mut Rng, max: usize| -> Vec<String> {
        let len = if rng.chance(15) { 0 } else { rng.range(1, max as i64) as usize };
        (0..len).map(|_| format!("{}:{}", rng.pick(&grid.prices), am(rng, zero_pct))).collect()
    };
    let clean = |rng: &mut Rng, keep: u64| -> Vec<String> {
        let mut ps: Vec<&String> = grid.prices.iter().filter(|_| rng.chance(keep)).collect();
        shuffle(rng, &mut ps);
        ps.into_iter().map(|p| format!("{p}:{}", am(rng, 0))).collect()
    };
    let edges = class == 1 || rng.chance(15);
    let time_of = |rng: &mut Rng| if edges { (*rng.pick(&TIME_EDGES)).to_string() } else { time(rng) };
    let max_levels = if class == 3 { *rng.pick(&[12usize, 80, 300]) } else { 12 };
    let keep = if class == 3 { *rng.pick(&[60u64, 90, 100]) } else { 55 };
    let mut seq: u64 = if rng.chance(20) { 0 } else { rng.range(0, 1000) as u64 };
    let next_seq = |rng: &mut Rng, seq: u64| {
        if edges && rng.chance(60) {
            *rng.pick(&SEQ_EDGES)
        } else {
            match rng.below(10) {
                0 => seq,
                1 => seq.saturating_sub(rng.below(5)),
                _ => seq.saturating_add(1 + rng.below(3)),
            }
        }
    };
    let n_cells = rng.range(1, 3) as usize;
    for _ in 0..n_cells {
        if rng.chance(40) {
            out.line("celld");
        } else {
            seq = next_seq(rng, seq);
            let dirty = class != 3 && rng.chance(30);
            let (b, a) = if dirty { (any(rng, max_levels), any(rng, max_levels)) } else { (clean(rng, keep), clean(rng, keep)) };
            out.line(format!("cell {seq} {} | {} | {}", time_of(rng), b.join(" "), a.join(" ")));
        }
    }
    let n_keys = rng.range(1, 3) as usize;
    if rng.chance(30) {
        out.line(format!("single {} {}", rng.below(n_keys as u64), rng.below(n_cells as u64)));
    } else {
        let pairs: Vec<String> =
            (0..rng.range(1, 4)).map(|_| format!("{}:{}", rng.below(n_keys as u64), rng.below(n_cells as u64))).collect();
        out.line(format!("multi {}", pairs.join(" ")));
    }
    let len = if class == 3 { rng.range(1, 6) } else { rng.range(1, 20) };
    let run_pct = *rng.pick(&[35u64, 100]);
    for _ in 0..len {
        if rng.chance(12) {
            out.line(format!("depth {} {}", rng.below(n_cells as u64), rng.pick(&DEPTH_EDGES)));
            continue;
        }
        let k = if rng.chance(5) { 9 } else { rng.below(n_keys as u64) };
        seq = next_seq(rng, seq);
        if rng.chance(10) {
            let dirty = class != 3 && rng.chance(30);
            let (b, a) = if dirty { (any(rng, max_levels), any(rng, max_levels)) } else { (clean(rng, keep), clean(rng, keep)) };
            out.line(format!("snap {k} {seq} {} | {} | {}", time_of(rng), b.join(" "), a.join(" ")));
        } else {
            let (b, a) = match rng.below(4) {
                0 => (any(rng, max_levels), vec![]),
                1 => (vec![], any(rng, max_levels)),
                _ => (any(rng, max_levels), any(rng, max_levels)),
            };
            out.line(format!("upd {k} {seq} {} | {} | {}", time_of(rng), b.join(" "), a.join(" ")));
        }
        if rng.chance(run_pct) {
            out.line(if rng.chance(30) { "runc" } else { "run" });
        }
    }
    out.line(if rng.chance(50) { "runc" } else { "run" });
    out.line(format!("depth {} {}", rng.below(n_cells as u64), rng.pick(&DEPTH_EDGES)));
}

// ---- configuration-shape family (`cfg<id>` cases; own random stream, so the `x` / `r` / `d` cases stay as they are) ----

/// sparse instrument keys: small, around 2^8 / 2^16 / 2^32 (equal low 32 bits: 1 / 2^32+1, 7 / 2^32+7), usize::MAX
const CFG_KEYS: [u64; 14] = [
    0,
    1,
    7,
    255,
    256,
    65536,
    4294967295,
    4294967296,
    4294967297,
    4294967303,
    9223372036854775808,
    18446744073709551614,
    18446744073709551615,
    12,
];

/// One case of the configuration-shape family; the shape is fixed by the case index:
///  0 reader   the usual small set-up, but most runs are `runr`: a second reader task with its own clones of the
///             cells' Arcs polls try_read() on every book each time the manager waits for the next event
///  1 many     5-12 cells, an OrderBookMapMulti of 5-12 distinct sparse keys (cells pre-populated or default, some
///             shared, some unmapped); only an "active" subset of the instruments ever receives an event, the others
///             and the unmapped cells must stay as they are; events for keys that are not in the map (incl. keys with
///             the low 32 bits of a mapped one); 25 % Snapshots (a pre-populated book is replaced)
///  2 single   OrderBookMapSingle with a large key on a cell other than the first, among 2-5 pre-populated cells;
///             events for the key, for keys sharing its low 32 bits and for small keys
fn cfg_case(out: &mut Out, rng: &mut Rng, idx: usize) {
    let shape = idx % 3;
    let grid = Grid::new(rng, 2, 7);
    let zero_pct = *rng.pick(&[10u64, 30, 60]);
    let dirty_pct = *rng.pick(&[0u64, 0, 30]);
    let mut seq: u64 = rng.range(0, 1000) as u64;
    let n_cells = match shape {
        0 => rng.range(1, 4),
        1 => rng.range(5, 12),
        _ => rng.range(2, 5),
    } as usize;
    for _ in 0..n_cells {
        if rng.chance(if shape == 2 { 15 } else { 45 }) {
            out.line("celld");
        } else {
            let clean = !rng.chance(dirty_pct);
            out.line(format!("cell {}", body(rng, &grid, seq, clean, 8, zero_pct)));
        }
    }
    // the configured keys (distinct) and the keys that receive events
    let mut pool: Vec<u64> = CFG_KEYS.to_vec();
    shuffle(rng, &mut pool);
    let (mapped, event_keys): (Vec<u64>, Vec<u64>) = match shape {
        0 => {
            let n = rng.range(1, 4) as usize;
            let m: Vec<u64> = (0..n as u64).collect();
            (m.clone(), m)
        }
        1 => {
            let n = rng.range(5, 12) as usize;
            let m: Vec<u64> = pool[..n].to_vec();
            let active = rng.range(1, 3) as usize;
            let mut ev: Vec<u64> = m[..active].to_vec();
            // unmapped keys, among them (when available) ones sharing the low 32 bits of a mapped key
            ev.push(pool[n]);
            for k in &m {
                let twin = k ^ (1 << 32);
                if !m.contains(&twin) && rng.chance(30) {
                    ev.push(twin);
                }
            }
            (m, ev)
        }
        _ => {
            let k = *rng.pick(&[4294967297u64, 4294967303, 18446744073709551615, 9223372036854775808, 65536]);
            (vec![k], vec![k, k, k, k ^ (1 << 32), k & 0xFFFF_FFFF, 0, 1])
        }
    };
    if shape == 2 || (shape == 0 && rng.chance(25)) {
        out.line(format!("single {} {}", mapped[0], if shape == 2 { rng.range(1, n_cells as i64 - 1) as u64 } else { rng.below(n_cells as u64) }));
    } else {
        let mut pairs: Vec<String> = mapped
            .iter()
            .enumerate()
            .map(|(i, k)| {
                // shape 1: mostly one cell per key (the last cell stays unmapped), sometimes a shared one
                let c = if shape == 1 && !rng.chance(15) { (i % (n_cells - 1)) as u64 } else { rng.below(n_cells as u64) };
                format!("{k}:{c}")
            })
            .collect();
        shuffle(rng, &mut pairs);
        out.line(format!("multi {}", pairs.join(" ")));
    }
    out.line("keys");
    for k in mapped.iter().chain(event_keys.iter()) {
        out.line(format!("find {k}"));
    }
    let len = rng.range(2, 18);
    let run_pct = *rng.pick(&[10u64, 35, 100]);
    let run_op = |rng: &mut Rng| match rng.below(10) {
        0 => "run",
        1 | 2 => "runc",
        _ => "runr",
    };
    let snap_pct = if shape == 1 { 25 } else { 10 };
    for _ in 0..len {
        if rng.chance(4) {
            out.line("re");
            continue;
        }
        let k = *rng.pick(&event_keys);
        seq = match rng.below(10) {
            0 => seq,
            1 => seq.saturating_sub(rng.below(5)),
            _ => seq + 1 + rng.below(3),
        };
        if rng.chance(snap_pct) {
            let clean = !rng.chance(dirty_pct);
            out.line(format!("snap {k} {}", body(rng, &grid, seq, clean, 8, zero_pct)));
        } else {
            let (b, a) = match rng.below(4) {
                0 => (any_levels(rng, &grid, 8, zero_pct), vec![]),
                1 => (vec![], any_levels(rng, &grid, 8, zero_pct)),
                _ => (any_levels(rng, &grid, 8, zero_pct), any_levels(rng, &grid, 8, zero_pct)),
            };
            out.line(format!("upd {k} {seq} {} | {} | {}", time(rng), b.join(" "), a.join(" ")));
        }
        if rng.chance(run_pct) {
            out.line(run_op(rng));
        }
    }
    out.line(run_op(rng));
    out.line("keys");
    out.line(format!("find {}", mapped[mapped.len() - 1]));
}

fn generate(seed: u64, n_cases: usize, tier: &str) {
    let mut out = Out::new();
    let mut rng = Rng::new(seed);
    let mut id = 0usize;
    let thorough = tier == "thorough";
    if thorough {
        // small-scope exhaustive: every base side of <= 4 levels over prices {2,4,6} (duplicates
        // allowed; amounts 1,2,3,4 by position so that the level hit by the search is visible),
        // constructed by OrderBook::new, then one update level over prices {1..7} x {delete, set},
        // for bids and for asks
        let mut bases: Vec<Vec<&str>> = vec![vec![]];
        let mut frontier: Vec<Vec<&str>> = vec![vec![]];
        for _ in 0..4 {
            let mut next = vec![];
            for b in &frontier {
                for p in ["2", "4", "6"] {
                    let mut x = b.clone();
                    x.push(p);
                    next.push(x);
                }
            }
            bases.extend(next.iter().cloned());
            frontier = next;
        }
        for side in 0..2 {
            for base in &bases {
                let levels: Vec<String> = base.iter().enumerate().map(|(i, p)| format!("{p}:{}", i + 1)).collect();
                for p in 1..=7 {
                    for a in ["0", "9"] {
                        id += 1;
                        out.case(format!("x{id}"));
                        if side == 0 {
                            out.line(format!("cell 1 - | {} | ", levels.join(" ")));
                            out.line("single 0 0");
                            out.line(format!("upd 0 2 5 | {p}:{a} | "));
                        } else {
                            out.line(format!("cell 1 - | | {}", levels.join(" ")));
                            out.line("single 0 0");
                            out.line(format!("upd 0 2 5 | | {p}:{a}"));
                        }
                        out.line("run");
                    }
                }
            }
        }
    }
    for _ in 0..n_cases {
        id += 1;
        out.case(format!("r{id}"));
        if rng.chance(8) {
            level_case(&mut out, &mut rng);
        } else {
            manager_case(&mut out, &mut rng, thorough);
        }
    }
    // input-domain family: one case per five random ones, from its own random stream
    let mut drng = Rng::new(seed ^ 0xD0_5D05);
    for j in 0..n_cases / 5 {
        id += 1;
        out.case(format!("d{id}"));
        domain_case(&mut out, &mut drng, j);
    }
    // configuration-shape family: one case per eight random ones, from its own random stream
    let mut crng = Rng::new(seed ^ 0xCF6_C05);
    for j in 0..n_cases / 8 {
        id += 1;
        out.case(format!("cfg{id}"));
        cfg_case(&mut out, &mut crng, j);
    }
    out.flush();
}

fn main() {
    let a = args();
    match a.cmd.as_str() {
        "gen" => generate(a.seed, a.n, &a.tier),
        "run" => run(),
        _ => {
            eprintln!("usage: c05m gen <seed> <n> <tier> | run < cases");
            std::process::exit(2)
        }
    }
}
