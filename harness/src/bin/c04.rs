//! C04 — ExecutionInstrumentMap / AccountEventIndexer / ExecutionManager key translation.
//!
//! Ops (see `lean/BarterModel/Driver/C04.lean` for the grammar): `def …` instrument definitions,
//! `build …` runs the real `IndexedInstrumentsBuilder` and prints the indexed tables, every other
//! op names the exchange label `e` whose execution link (the real
//! `generate_execution_instrument_map(&instruments, EXCHANGES[e])`) it is executed on.
//! Exchange ids are labels (= position in `vh::engine_util::EXCHANGES`), every name is a numeric
//! string. The `route` op has no link argument: it builds the real `ExecutionBuilder` over the
//! collection with `add_live::<RStub<e>>` for a list of labels, initialises it and sends one
//! request through `execution_txs.find(&ExchangeIndex(x))` (see `through_builder`).
use barter::{
    engine::{
        Engine,
        action::send_requests::SendRequests,
        clock::LiveClock,
        error::{EngineError, UnrecoverableEngineError},
    },
    error::BarterError,
    execution::{
        AccountStreamEvent, Execution, builder::ExecutionBuilder, manager::ExecutionManager,
        request::ExecutionRequest,
    },
};
use barter_execution::{
    AccountEvent, AccountEventKind, AccountSnapshot, InstrumentAccountSnapshot,
    UnindexedAccountEvent, UnindexedAccountSnapshot,
    balance::{AssetBalance, Balance},
    client::ExecutionClient,
    error::{
        ApiError, ConnectivityError, KeyError, OrderError, UnindexedApiError, UnindexedClientError,
        UnindexedOrderError,
    },
    indexer::AccountEventIndexer,
    map::{ExecutionInstrumentMap, generate_execution_instrument_map},
    order::{
        Order, OrderEvent, OrderKey, OrderKind, OrderSnapshot, TimeInForce, UnindexedOrderSnapshot,
        id::{ClientOrderId, OrderId, StrategyId},
        request::{
            OrderRequestCancel, OrderRequestOpen, OrderResponseCancel, RequestCancel, RequestOpen,
            UnindexedOrderResponseCancel,
        },
        state::{
            ActiveOrderState, CancelInFlight, Cancelled, InactiveOrderState, Open, OpenInFlight, OrderState,
        },
    },
    trade::{AssetFees, Trade, TradeId},
};
use barter_instrument::{
    Side, Underlying,
    asset::{Asset, AssetIndex, QuoteAsset, name::AssetNameExchange},
    exchange::{ExchangeId, ExchangeIndex},
    index::{IndexedInstruments, error::IndexError},
    instrument::{
        Instrument, InstrumentIndex,
        kind::{
            InstrumentKind,
            future::FutureContract,
            option::{OptionContract, OptionExercise, OptionKind},
            perpetual::PerpetualContract,
        },
        name::InstrumentNameExchange,
        quote::InstrumentQuoteAsset,
        spec::{
            InstrumentSpec, InstrumentSpecNotional, InstrumentSpecPrice, InstrumentSpecQuantity,
            OrderQuantityUnits,
        },
    },
};
use barter_integration::{
    channel::{Tx, mpsc_unbounded},
    snapshot::Snapshot,
    stream::indexed::Indexer,
};
use chrono::{DateTime, Utc};
use rust_decimal::Decimal;
use std::sync::{Arc, Mutex};
use vh::{engine_util::*, *};

// ------------------------------------------------------------------------------------ helpers

fn label(id: ExchangeId) -> usize {
    EXCHANGES
        .iter()
        .position(|e| *e == id)
        .unwrap_or_else(|| panic!("exchange {id} has no label"))
}

fn strategy_of(cid: &str) -> StrategyId {
    StrategyId::new(format!("s{cid}"))
}

/// `cid` token of an order key; flags a strategy that is not the one paired with the cid
fn cid_tok(strategy: &StrategyId, cid: &ClientOrderId) -> String {
    if strategy.0 == format!("s{}", cid.0) {
        cid.0.to_string()
    } else {
        format!("{}!strategy={}", cid.0, strategy.0)
    }
}

fn key_err(e: &KeyError) -> &'static str {
    match e {
        KeyError::ExchangeId(_) => "ExchangeId",
        KeyError::AssetKey(_) => "AssetKey",
        KeyError::InstrumentKey(_) => "InstrumentKey",
    }
}

fn idx_err(e: &IndexError) -> &'static str {
    match e {
        IndexError::ExchangeIndex(_) => "ExchangeIndex",
        IndexError::AssetIndex(_) => "AssetIndex",
        IndexError::InstrumentIndex(_) => "InstrumentIndex",
    }
}

fn dec(p: &str) -> Decimal {
    p.parse().unwrap()
}

// ------------------------------------------------------------------------------------ payload
//
// Every order / request / trade / balance of an op carries ONE payload number `p` (the model's
// opaque payload). All the fields the indexer has to carry over untouched are functions of `p`
// that run through the whole domain of their Rust types (both sides, both order kinds, every
// time-in-force, signed / zero / tiny / huge quantities, rebates, time stamps before / at / after
// `t0`, free != total, an order id different from the trade id, every `ActiveOrderState` and
// `ConnectivityError` variant, a cancel request without order id). The printers recompute them from
// the `p` that comes back and append `!payload` when anything differs.

fn pl_num(d: Decimal) -> u64 {
    d.to_string().parse().unwrap_or(u64::MAX)
}

fn pl_side(p: u64) -> Side {
    if p % 2 == 0 { Side::Buy } else { Side::Sell }
}

fn pl_kind(p: u64) -> OrderKind {
    if (p / 2) % 2 == 0 { OrderKind::Limit } else { OrderKind::Market }
}

fn pl_tif(p: u64) -> TimeInForce {
    match (p / 4) % 5 {
        0 => TimeInForce::GoodUntilCancelled { post_only: false },
        1 => TimeInForce::GoodUntilCancelled { post_only: true },
        2 => TimeInForce::GoodUntilEndOfDay,
        3 => TimeInForce::FillOrKill,
        _ => TimeInForce::ImmediateOrCancel,
    }
}

fn pl_qty(p: u64) -> Decimal {
    dec(["1", "0", "0.5", "-1", "0.00000001", "1000000000000", "-2.5"][((p / 20) % 7) as usize])
}

/// three seconds before `t0` … three seconds after it (equal to `t0` when `p % 7 == 3`)
fn pl_time(p: u64) -> DateTime<Utc> {
    t0() + chrono::Duration::seconds((p % 7) as i64 - 3)
}

fn pl_fees(p: u64) -> Decimal {
    dec(["0", "0.1", "-0.2", "2.5", "-1"][((p / 3) % 5) as usize])
}

/// free balance: equal to the total for every fourth `p`, else below it (negative for small `p`)
fn pl_free(p: u64) -> Decimal {
    if p % 4 == 0 {
        Decimal::from(p)
    } else {
        Decimal::from(p) / Decimal::from(2u64) - Decimal::from(p % 4)
    }
}

fn pl_filled(p: u64) -> Decimal {
    Decimal::from(p) / Decimal::from(2u64)
}

fn pl_open(id: &str) -> Open {
    let p: u64 = id.parse().unwrap();
    Open::new(OrderId::new(id), pl_time(p), pl_filled(p))
}

/// `act <id>`: 7 = `OpenInFlight`, 8 = `CancelInFlight` without order, 6 = `CancelInFlight` with the
/// open order 6, everything else the open order `<id>`
fn pl_active(id: &str) -> ActiveOrderState {
    match id {
        "7" => ActiveOrderState::OpenInFlight(OpenInFlight),
        "8" => ActiveOrderState::CancelInFlight(CancelInFlight { order: None }),
        "6" => ActiveOrderState::CancelInFlight(CancelInFlight { order: Some(pl_open(id)) }),
        _ => ActiveOrderState::Open(pl_open(id)),
    }
}

fn pl_cancelled(id: &str) -> Cancelled {
    Cancelled::new(OrderId::new(id), pl_time(id.parse().unwrap()))
}

/// `conn`: which connectivity error is a function of the surrounding order's payload / cid (`salt`)
fn pl_conn(salt: u64) -> ConnectivityError {
    match salt % 3 {
        0 => ConnectivityError::Timeout,
        1 => ConnectivityError::ExchangeOffline(EXCHANGES[(salt % 5) as usize]),
        _ => ConnectivityError::Socket(format!("socket{salt}")),
    }
}

fn pl_msg(salt: u64) -> String {
    format!("x{salt}")
}

/// order id of a cancel request: absent for payload 0
fn pl_cancel_id(p: &str) -> Option<OrderId> {
    if p == "0" { None } else { Some(OrderId::new(p)) }
}

// ------------------------------------------------------------------------------------ parsing

struct Cur<'a> {
    t: &'a [String],
    i: usize,
}

impl<'a> Cur<'a> {
    fn next(&mut self) -> &'a str {
        let s = self.t.get(self.i).unwrap_or_else(|| panic!("bad op: truncated"));
        self.i += 1;
        s
    }
    fn num(&mut self) -> &'a str {
        let s = self.next();
        s.parse::<u64>().unwrap_or_else(|_| panic!("bad op: number expected, got {s}"));
        s
    }
    fn count(&mut self) -> usize {
        self.num().parse().unwrap()
    }
    fn exchange(&mut self) -> ExchangeId {
        EXCHANGES[self.count()]
    }
    fn done(&self) {
        assert!(self.i == self.t.len(), "bad op: trailing tokens");
    }
}

fn p_api(c: &mut Cur, salt: u64) -> UnindexedApiError {
    match c.next() {
        "rate" => ApiError::RateLimit,
        "ainv" => ApiError::AssetInvalid(AssetNameExchange::new(c.num()), pl_msg(salt)),
        "iinv" => ApiError::InstrumentInvalid(InstrumentNameExchange::new(c.num()), pl_msg(salt)),
        "bins" => ApiError::BalanceInsufficient(AssetNameExchange::new(c.num()), pl_msg(salt)),
        "orej" => ApiError::OrderRejected(pl_msg(salt)),
        "acanc" => ApiError::OrderAlreadyCancelled,
        "afill" => ApiError::OrderAlreadyFullyFilled,
        o => panic!("bad api {o}"),
    }
}

fn p_oerr(c: &mut Cur, salt: u64) -> UnindexedOrderError {
    match c.next() {
        "conn" => OrderError::Connectivity(pl_conn(salt)),
        "rej" => OrderError::Rejected(p_api(c, salt)),
        o => panic!("bad oerr {o}"),
    }
}

fn p_key(c: &mut Cur) -> OrderKey<ExchangeId, InstrumentNameExchange> {
    let exchange = c.exchange();
    let instrument = InstrumentNameExchange::new(c.num());
    let cid = c.num();
    OrderKey {
        exchange,
        instrument,
        strategy: strategy_of(cid),
        cid: ClientOrderId::new(cid),
    }
}

fn p_state(c: &mut Cur, salt: u64) -> OrderState<AssetNameExchange, InstrumentNameExchange> {
    match c.next() {
        "act" => OrderState::Active(pl_active(c.num())),
        "canc" => OrderState::inactive(pl_cancelled(c.num())),
        "full" => OrderState::fully_filled(),
        "exp" => OrderState::expired(),
        "fail" => OrderState::inactive(p_oerr(c, salt)),
        o => panic!("bad state {o}"),
    }
}

fn p_order(c: &mut Cur) -> UnindexedOrderSnapshot {
    let key = p_key(c);
    let p = c.num();
    let n: u64 = p.parse().unwrap();
    let state = p_state(c, n);
    Order {
        key,
        side: pl_side(n),
        price: dec(p),
        quantity: pl_qty(n),
        kind: pl_kind(n),
        time_in_force: pl_tif(n),
        state,
    }
}

fn p_cresp(c: &mut Cur) -> UnindexedOrderResponseCancel {
    let key = p_key(c);
    let salt: u64 = key.cid.0.parse().unwrap();
    let state = match c.next() {
        "ok" => Ok(pl_cancelled(c.num())),
        "err" => Err(p_oerr(c, salt)),
        o => panic!("bad cresp {o}"),
    };
    OrderResponseCancel { key, state }
}

fn p_trade(c: &mut Cur) -> Trade<QuoteAsset, InstrumentNameExchange> {
    let instrument = InstrumentNameExchange::new(c.num());
    let p = c.num();
    let n: u64 = p.parse().unwrap();
    Trade {
        id: TradeId::new(p),
        order_id: OrderId::new((n + 1).to_string()),
        instrument,
        strategy: strategy_of(p),
        time_exchange: pl_time(n),
        side: pl_side(n),
        price: dec(p),
        quantity: pl_qty(n),
        fees: AssetFees {
            asset: QuoteAsset,
            fees: pl_fees(n),
        },
    }
}

fn p_bal(c: &mut Cur) -> AssetBalance<AssetNameExchange> {
    let asset = AssetNameExchange::new(c.num());
    let n: u64 = c.num().parse().unwrap();
    AssetBalance {
        asset,
        balance: Balance::new(Decimal::from(n), pl_free(n)),
        time_exchange: pl_time(n),
    }
}

fn p_snap(c: &mut Cur) -> UnindexedAccountSnapshot {
    let exchange = c.exchange();
    let nb = c.count();
    let balances = (0..nb).map(|_| p_bal(c)).collect();
    let ni = c.count();
    let instruments = (0..ni)
        .map(|_| {
            let instrument = InstrumentNameExchange::new(c.num());
            let no = c.count();
            let orders = (0..no).map(|_| p_order(c)).collect();
            InstrumentAccountSnapshot { instrument, orders }
        })
        .collect();
    AccountSnapshot {
        exchange,
        balances,
        instruments,
    }
}

fn p_event(c: &mut Cur) -> UnindexedAccountEvent {
    let exchange = c.exchange();
    let kind = match c.next() {
        "S" => AccountEventKind::Snapshot(p_snap(c)),
        "B" => AccountEventKind::BalanceSnapshot(Snapshot(p_bal(c))),
        "O" => AccountEventKind::OrderSnapshot(Snapshot(p_order(c))),
        "C" => AccountEventKind::OrderCancelled(p_cresp(c)),
        "T" => AccountEventKind::Trade(p_trade(c)),
        o => panic!("bad kind {o}"),
    };
    AccountEvent { exchange, kind }
}

// ------------------------------------------------------------------------------------ printing

fn s_api(e: &ApiError, salt: u64) -> String {
    let msg = |m: &String| if *m == pl_msg(salt) { "" } else { "!payload" };
    match e {
        ApiError::RateLimit => "rate".into(),
        ApiError::AssetInvalid(a, m) => format!("ainv {}{}", a.0, msg(m)),
        ApiError::InstrumentInvalid(i, m) => format!("iinv {}{}", i.0, msg(m)),
        ApiError::BalanceInsufficient(a, m) => format!("bins {}{}", a.0, msg(m)),
        ApiError::OrderRejected(m) => format!("orej{}", msg(m)),
        ApiError::OrderAlreadyCancelled => "acanc".into(),
        ApiError::OrderAlreadyFullyFilled => "afill".into(),
    }
}

fn s_oerr(e: &OrderError, salt: u64) -> String {
    match e {
        OrderError::Connectivity(c) if *c == pl_conn(salt) => "conn".into(),
        OrderError::Connectivity(_) => "conn!payload".into(),
        OrderError::Rejected(a) => format!("rej {}", s_api(a, salt)),
    }
}

fn s_key(k: &OrderKey) -> String {
    format!(
        "{} {} {}",
        k.exchange.0,
        k.instrument.0,
        cid_tok(&k.strategy, &k.cid)
    )
}

fn s_cancelled(c: &Cancelled) -> String {
    let ok = c.id.0.parse::<u64>().is_ok() && *c == pl_cancelled(&c.id.0);
    format!("{}{}", c.id.0, if ok { "" } else { "!payload" })
}

fn s_state(s: &OrderState, salt: u64) -> String {
    match s {
        OrderState::Active(a) => {
            // the id the op named: the open order's, or the fixed one of a variant without order
            let id = match a {
                ActiveOrderState::OpenInFlight(_) => "7".to_string(),
                ActiveOrderState::CancelInFlight(CancelInFlight { order: None }) => "8".into(),
                ActiveOrderState::CancelInFlight(CancelInFlight { order: Some(o) }) => o.id.0.to_string(),
                ActiveOrderState::Open(o) => o.id.0.to_string(),
            };
            let ok = id.parse::<u64>().is_ok() && *a == pl_active(&id);
            format!("act {id}{}", if ok { "" } else { "!payload" })
        }
        OrderState::Inactive(InactiveOrderState::Cancelled(c)) => format!("canc {}", s_cancelled(c)),
        OrderState::Inactive(InactiveOrderState::FullyFilled) => "full".into(),
        OrderState::Inactive(InactiveOrderState::Expired) => "exp".into(),
        OrderState::Inactive(InactiveOrderState::OpenFailed(e)) => format!("fail {}", s_oerr(e, salt)),
    }
}

/// everything the indexer must carry over untouched, beyond the price that is printed
fn order_rest_ok(o: &OrderSnapshot) -> bool {
    let p = pl_num(o.price);
    o.side == pl_side(p) && o.quantity == pl_qty(p) && o.kind == pl_kind(p) && o.time_in_force == pl_tif(p)
}

fn s_order(o: &OrderSnapshot) -> String {
    format!(
        "{} {}{} {}",
        s_key(&o.key),
        o.price,
        if order_rest_ok(o) { "" } else { "!payload" },
        s_state(&o.state, pl_num(o.price))
    )
}

fn s_cresp(r: &OrderResponseCancel) -> String {
    let salt = r.key.cid.0.parse().unwrap_or(u64::MAX);
    match &r.state {
        Ok(c) => format!("{} ok {}", s_key(&r.key), s_cancelled(c)),
        Err(e) => format!("{} err {}", s_key(&r.key), s_oerr(e, salt)),
    }
}

fn s_trade(t: &Trade<QuoteAsset, InstrumentIndex>) -> String {
    let p = t.price.to_string();
    let n = pl_num(t.price);
    let rest_ok = t.id == TradeId::new(&p)
        && t.order_id == OrderId::new(n.wrapping_add(1).to_string())
        && t.strategy == strategy_of(&p)
        && t.time_exchange == pl_time(n)
        && t.side == pl_side(n)
        && t.quantity == pl_qty(n)
        && t.fees.fees == pl_fees(n);
    format!(
        "{} {}{}",
        t.instrument.0,
        p,
        if rest_ok { "" } else { "!payload" }
    )
}

fn s_bal(b: &AssetBalance<AssetIndex>) -> String {
    let n = pl_num(b.balance.total);
    let rest_ok = b.balance.free == pl_free(n) && b.time_exchange == pl_time(n);
    format!(
        "{} {}{}",
        b.asset.0,
        b.balance.total,
        if rest_ok { "" } else { "!payload" }
    )
}

fn s_snap(s: &AccountSnapshot) -> String {
    let mut out = vec![s.exchange.0.to_string(), s.balances.len().to_string()];
    out.extend(s.balances.iter().map(s_bal));
    out.push(s.instruments.len().to_string());
    for i in &s.instruments {
        out.push(i.instrument.0.to_string());
        out.push(i.orders.len().to_string());
        out.extend(i.orders.iter().map(s_order));
    }
    out.join(" ")
}

fn s_event(ev: &AccountEvent) -> String {
    let kind = match &ev.kind {
        AccountEventKind::Snapshot(s) => format!("S {}", s_snap(s)),
        AccountEventKind::BalanceSnapshot(b) => format!("B {}", s_bal(&b.0)),
        AccountEventKind::OrderSnapshot(o) => format!("O {}", s_order(&o.0)),
        AccountEventKind::OrderCancelled(r) => format!("C {}", s_cresp(r)),
        AccountEventKind::Trade(t) => format!("T {}", s_trade(t)),
    };
    format!("{} {}", ev.exchange.0, kind)
}

fn res_idx<T>(lines: &mut Vec<String>, r: Result<T, IndexError>, f: impl Fn(&T) -> String) {
    match r {
        Ok(x) => lines.push(format!("r ok {}", f(&x))),
        Err(e) => {
            lines.push("r err".into());
            lines.push(format!("kind {}", idx_err(&e)));
        }
    }
}

// ------------------------------------------------------------------------------------ requests

fn request_open(x: usize, i: usize, cid: &str, p: &str) -> OrderRequestOpen {
    let n: u64 = p.parse().unwrap();
    OrderEvent {
        key: OrderKey {
            exchange: ExchangeIndex(x),
            instrument: InstrumentIndex(i),
            strategy: strategy_of(cid),
            cid: ClientOrderId::new(cid),
        },
        state: RequestOpen {
            side: pl_side(n),
            price: dec(p),
            quantity: pl_qty(n),
            kind: pl_kind(n),
            time_in_force: pl_tif(n),
        },
    }
}

fn request_cancel(x: usize, i: usize, cid: &str, p: &str) -> OrderRequestCancel {
    OrderEvent {
        key: OrderKey {
            exchange: ExchangeIndex(x),
            instrument: InstrumentIndex(i),
            strategy: strategy_of(cid),
            cid: ClientOrderId::new(cid),
        },
        state: RequestCancel { id: pl_cancel_id(p) },
    }
}

fn s_client_open(r: &OrderRequestOpen<ExchangeId, &InstrumentNameExchange>) -> String {
    let n = pl_num(r.state.price);
    let rest_ok = r.state.side == pl_side(n)
        && r.state.quantity == pl_qty(n)
        && r.state.kind == pl_kind(n)
        && r.state.time_in_force == pl_tif(n);
    format!(
        "{} {} {} open {}{}",
        label(r.key.exchange),
        r.key.instrument.name(),
        cid_tok(&r.key.strategy, &r.key.cid),
        r.state.price,
        if rest_ok { "" } else { "!payload" }
    )
}

fn s_client_cancel(r: &OrderRequestCancel<ExchangeId, &InstrumentNameExchange>) -> String {
    format!(
        "{} {} {} cancel {}",
        label(r.key.exchange),
        r.key.instrument.name(),
        cid_tok(&r.key.strategy, &r.key.cid),
        // payload 0 = a cancel request without order id
        match &r.state.id {
            None => "0".to_string(),
            Some(id) if id.0 == "0" => "0!payload".into(),
            Some(id) => id.0.to_string(),
        }
    )
}

// ------------------------------------------------------------------------------------ stub client

/// the answer of a stub client: the key it was handed, cancelled
fn echo_cancel(
    request: OrderRequestCancel<ExchangeId, &InstrumentNameExchange>,
) -> UnindexedOrderResponseCancel {
    let id = request.state.id.clone().unwrap_or(OrderId::new("0"));
    OrderResponseCancel {
        key: OrderKey {
            exchange: request.key.exchange,
            instrument: request.key.instrument.clone(),
            strategy: request.key.strategy,
            cid: request.key.cid,
        },
        state: Ok(Cancelled::new(id, t0())),
    }
}

/// the answer of a stub client: the key it was handed, open
fn echo_open(
    request: OrderRequestOpen<ExchangeId, &InstrumentNameExchange>,
) -> Order<ExchangeId, InstrumentNameExchange, Result<Open, UnindexedOrderError>> {
    Order {
        key: OrderKey {
            exchange: request.key.exchange,
            instrument: request.key.instrument.clone(),
            strategy: request.key.strategy,
            cid: request.key.cid,
        },
        side: request.state.side,
        price: request.state.price,
        quantity: request.state.quantity,
        kind: request.state.kind,
        time_in_force: request.state.time_in_force,
        state: Ok(Open::new(OrderId::new("1"), t0(), Decimal::ZERO)),
    }
}

/// `ExecutionClient` that records the request it is handed and answers with the same key.
#[derive(Debug, Clone)]
struct Stub {
    log: Arc<Mutex<Vec<String>>>,
}

impl ExecutionClient for Stub {
    const EXCHANGE: ExchangeId = ExchangeId::Mock;
    type Config = Arc<Mutex<Vec<String>>>;
    type AccountStream = futures::stream::Empty<UnindexedAccountEvent>;

    fn new(config: Self::Config) -> Self {
        Stub { log: config }
    }

    async fn account_snapshot(
        &self,
        _: &[AssetNameExchange],
        _: &[InstrumentNameExchange],
    ) -> Result<UnindexedAccountSnapshot, UnindexedClientError> {
        unimplemented!()
    }

    async fn account_stream(
        &self,
        _: &[AssetNameExchange],
        _: &[InstrumentNameExchange],
    ) -> Result<Self::AccountStream, UnindexedClientError> {
        unimplemented!()
    }

    fn cancel_order(
        &self,
        request: OrderRequestCancel<ExchangeId, &InstrumentNameExchange>,
    ) -> impl Future<Output = UnindexedOrderResponseCancel> + Send {
        self.log.lock().unwrap().push(s_client_cancel(&request));
        std::future::ready(echo_cancel(request))
    }

    fn open_order(
        &self,
        request: OrderRequestOpen<ExchangeId, &InstrumentNameExchange>,
    ) -> impl Future<
        Output = Order<ExchangeId, InstrumentNameExchange, Result<Open, UnindexedOrderError>>,
    > + Send {
        self.log.lock().unwrap().push(s_client_open(&request));
        std::future::ready(echo_open(request))
    }

    async fn fetch_balances(
        &self,
    ) -> Result<Vec<AssetBalance<AssetNameExchange>>, UnindexedClientError> {
        unimplemented!()
    }

    async fn fetch_open_orders(
        &self,
    ) -> Result<Vec<Order<ExchangeId, InstrumentNameExchange, Open>>, UnindexedClientError> {
        unimplemented!()
    }

    async fn fetch_trades(
        &self,
        _: DateTime<Utc>,
    ) -> Result<Vec<Trade<QuoteAsset, InstrumentNameExchange>>, UnindexedClientError> {
        unimplemented!()
    }
}

/// One request through a real `ExecutionManager::run` on a paused current-thread runtime.
/// Returns (what the client was handed, the response key the engine side received, panicked).
fn through_manager(
    map: Arc<ExecutionInstrumentMap>,
    request: ExecutionRequest,
) -> (Vec<String>, Option<String>, bool) {
    let log = Arc::new(Mutex::new(Vec::new()));
    let rt = tokio::runtime::Builder::new_current_thread()
        .enable_time()
        .start_paused(true)
        .build()
        .unwrap();
    let (resp, panicked) = rt.block_on(async {
        let (req_tx, req_rx) = mpsc_unbounded::<ExecutionRequest>();
        let (resp_tx, mut resp_rx) = mpsc_unbounded::<AccountStreamEvent>();
        let manager = ExecutionManager::new(
            req_rx.into_stream(),
            std::time::Duration::from_secs(1),
            resp_tx,
            Arc::new(Stub::new(log.clone())),
            AccountEventIndexer::new(map),
        );
        let handle = tokio::spawn(manager.run());
        req_tx.send(request).unwrap();
        let resp = tokio::time::timeout(std::time::Duration::from_secs(5), resp_rx.rx.recv())
            .await
            .ok()
            .flatten();
        let _ = req_tx.send(ExecutionRequest::Shutdown);
        let joined = handle.await;
        (resp, joined.is_err())
    });
    let resp = resp.map(|ev| match ev {
        AccountStreamEvent::Item(AccountEvent { exchange, kind }) => {
            let key = match &kind {
                AccountEventKind::OrderSnapshot(o) => o.0.key.clone(),
                AccountEventKind::OrderCancelled(r) => r.key.clone(),
                other => panic!("unexpected response {other:?}"),
            };
            if key.exchange != exchange {
                format!("{} !event-exchange={}", s_key(&key), exchange.0)
            } else {
                s_key(&key)
            }
        }
        AccountStreamEvent::Reconnecting(_) => "reconnecting".into(),
    });
    let log = log.lock().unwrap().clone();
    (log, resp, panicked)
}

// ------------------------------------------------------------------------------------ route

/// The live client of exchange label `N` for the `route` op: `EXCHANGE` is that exchange (so
/// `add_live` links it to exactly that exchange), every request it is handed is recorded as
/// `"<N> <request>"` in the log shared by all clients of one builder, and answered with the key
/// it carried. Its account stream stays silent after an empty snapshot.
#[derive(Debug, Clone)]
struct RStub<const N: usize> {
    log: Arc<Mutex<Vec<String>>>,
}

impl<const N: usize> ExecutionClient for RStub<N> {
    const EXCHANGE: ExchangeId = EXCHANGES[N];
    type Config = Arc<Mutex<Vec<String>>>;
    type AccountStream = futures::stream::Pending<UnindexedAccountEvent>;

    fn new(config: Self::Config) -> Self {
        RStub { log: config }
    }

    async fn account_snapshot(
        &self,
        _: &[AssetNameExchange],
        _: &[InstrumentNameExchange],
    ) -> Result<UnindexedAccountSnapshot, UnindexedClientError> {
        Ok(AccountSnapshot {
            exchange: Self::EXCHANGE,
            balances: vec![],
            instruments: vec![],
        })
    }

    async fn account_stream(
        &self,
        _: &[AssetNameExchange],
        _: &[InstrumentNameExchange],
    ) -> Result<Self::AccountStream, UnindexedClientError> {
        Ok(futures::stream::pending())
    }

    fn cancel_order(
        &self,
        request: OrderRequestCancel<ExchangeId, &InstrumentNameExchange>,
    ) -> impl Future<Output = UnindexedOrderResponseCancel> + Send {
        self.log.lock().unwrap().push(format!("{N} {}", s_client_cancel(&request)));
        std::future::ready(echo_cancel(request))
    }

    fn open_order(
        &self,
        request: OrderRequestOpen<ExchangeId, &InstrumentNameExchange>,
    ) -> impl Future<
        Output = Order<ExchangeId, InstrumentNameExchange, Result<Open, UnindexedOrderError>>,
    > + Send {
        self.log.lock().unwrap().push(format!("{N} {}", s_client_open(&request)));
        std::future::ready(echo_open(request))
    }

    async fn fetch_balances(
        &self,
    ) -> Result<Vec<AssetBalance<AssetNameExchange>>, UnindexedClientError> {
        unimplemented!()
    }

    async fn fetch_open_orders(
        &self,
    ) -> Result<Vec<Order<ExchangeId, InstrumentNameExchange, Open>>, UnindexedClientError> {
        unimplemented!()
    }

    async fn fetch_trades(
        &self,
        _: DateTime<Utc>,
    ) -> Result<Vec<Trade<QuoteAsset, InstrumentNameExchange>>, UnindexedClientError> {
        unimplemented!()
    }
}

/// One request end to end: the real `ExecutionBuilder` over `ii` with `add_live::<RStub<e>>` for
/// every label of `adds` (in this order), `build()`, `init()` on a paused current-thread runtime
/// (every `ExecutionManager::run` and account-stream forwarder is a task of it), then
/// the real `Engine::send_request` of an engine that owns the builder's transmitter table.
/// Observed: the slots of the transmitter table, whether the lookup succeeded, every call any
/// client received (tagged with the receiving client), which managers panicked, and the key of
/// every order response that came back on the merged account channel.
/// The order request of a `route` op as the engine holds it (before `ExecutionRequest::from`).
enum RouteRequest {
    Open(OrderRequestOpen),
    Cancel(OrderRequestCancel),
}

fn through_builder(
    ii: &IndexedInstruments,
    adds: &[usize],
    request: RouteRequest,
    lines: &mut Vec<String>,
) {
    let log = Arc::new(Mutex::new(Vec::new()));
    let timeout = std::time::Duration::from_secs(1);
    let mut builder = ExecutionBuilder::new(ii);
    for e in adds {
        let res = match e {
            0 => builder.add_live::<RStub<0>>(log.clone(), timeout),
            1 => builder.add_live::<RStub<1>>(log.clone(), timeout),
            2 => builder.add_live::<RStub<2>>(log.clone(), timeout),
            3 => builder.add_live::<RStub<3>>(log.clone(), timeout),
            4 => builder.add_live::<RStub<4>>(log.clone(), timeout),
            _ => panic!("bad op: exchange label out of range"),
        };
        match res {
            Ok(next) => builder = next,
            Err(BarterError::IndexError(_)) => {
                lines.push("r builderr index".into());
                return;
            }
            Err(BarterError::ExecutionBuilder(_)) => {
                lines.push("r builderr duplicate".into());
                return;
            }
            Err(other) => panic!("unexpected builder error {other:?}"),
        }
    }
    let build = match std::panic::catch_unwind(std::panic::AssertUnwindSafe(|| builder.build())) {
        Ok(build) => build,
        Err(_) => {
            lines.push("r buildpanic".into());
            return;
        }
    };
    let rt = tokio::runtime::Builder::new_current_thread()
        .enable_time()
        .start_paused(true)
        .build()
        .unwrap();
    let (txmap, found, panicked, responses) = rt.block_on(async {
        let Execution {
            execution_txs,
            mut account_channel,
            handles,
        } = build
            .init()
            .await
            .unwrap_or_else(|e| panic!("ExecutionBuild::init failed: {e:?}"));
        let mut txmap = vec!["txmap".to_string()];
        txmap.extend(
            (&execution_txs)
                .into_iter()
                .map(|(id, tx)| format!("{}:{}", label(*id), tx.is_some() as u8)),
        );
        // the REAL `Engine::send_request` (engine/action/send_requests.rs) over the transmitter table
        // the builder made: clock, state, strategy and risk manager play no part in it
        let txmap_line = txmap.join(" ");
        let engine = Engine::new(LiveClock, (), execution_txs, (), ());
        let sent = match &request {
            RouteRequest::Open(r) => engine.send_request(r),
            RouteRequest::Cancel(r) => engine.send_request(r),
        };
        let found = match sent {
            Ok(()) => true,
            Err(EngineError::Unrecoverable(UnrecoverableEngineError::IndexError(_))) => false,
            Err(other) => panic!("manager dropped its receiver before the request: {other:?}"),
        };
        let txmap = vec![txmap_line];
        // paused clock: returns once every task is idle (request handled, answer forwarded)
        tokio::time::sleep(std::time::Duration::from_secs(3)).await;
        let mut panicked = vec![];
        for (j, h) in handles.managers.into_iter().enumerate() {
            if h.is_finished() {
                match h.await {
                    Err(e) if e.is_panic() => panicked.push(adds[j]),
                    _ => panicked.push(100 + adds[j]), // a manager must not stop by itself
                }
            } else {
                h.abort();
            }
        }
        handles.account_to_engines.iter().for_each(|h| h.abort());
        handles.mock_exchanges.iter().for_each(|h| h.abort());
        let mut responses = vec![];
        while let Ok(ev) = account_channel.rx.rx.try_recv() {
            match ev {
                AccountStreamEvent::Item(AccountEvent { exchange, kind }) => {
                    let key = match &kind {
                        // the initial snapshot of every link's account stream
                        AccountEventKind::Snapshot(_) => continue,
                        AccountEventKind::OrderSnapshot(o) => o.0.key.clone(),
                        AccountEventKind::OrderCancelled(r) => r.key.clone(),
                        other => panic!("unexpected response {other:?}"),
                    };
                    responses.push(if key.exchange != exchange {
                        format!("{} !event-exchange={}", s_key(&key), exchange.0)
                    } else {
                        s_key(&key)
                    });
                }
                AccountStreamEvent::Reconnecting(_) => responses.push("reconnecting".into()),
            }
        }
        (txmap.join(" "), found, panicked, responses)
    });
    let log = log.lock().unwrap().clone();
    lines.push(txmap);
    lines.push(
        if !found {
            "r err"
        } else if !panicked.is_empty() {
            "r panic"
        } else {
            "r ok"
        }
        .into(),
    );
    lines.push(format!("delivered {}", log.len()));
    for l in &log {
        lines.push(format!("client {l}"));
    }
    for who in &panicked {
        lines.push(format!("mpanic {who}"));
    }
    if found && panicked.is_empty() {
        if responses.is_empty() {
            lines.push("resp filtered".into());
        }
        for r in &responses {
            lines.push(format!("resp {r}"));
        }
    } else {
        for r in &responses {
            lines.push(format!("resp! {r}"));
        }
    }
}

/// `route <n> <e>*n (open|cancel) <x> <i> <cid> <p>`
fn route_op(ii: &IndexedInstruments, op: &[String], lines: &mut Vec<String>) {
    let mut c = Cur { t: &op[1..], i: 0 };
    let n = c.count();
    let adds: Vec<usize> = (0..n).map(|_| c.count()).collect();
    let (kind, x, i, cid, p) = (c.next(), c.count(), c.count(), c.num(), c.num());
    c.done();
    let request = match kind {
        "open" => RouteRequest::Open(request_open(x, i, cid, p)),
        "cancel" => RouteRequest::Cancel(request_cancel(x, i, cid, p)),
        o => panic!("bad kind {o}"),
    };
    through_builder(ii, &adds, request, lines);
}

// ------------------------------------------------------------------------------------ sroute

/// Configuration-shape family: the live client of exchange label `N` for the `sroute` op. Unlike
/// `RStub` its account is NOT empty: `account_snapshot` answers with one balance per asset name and
/// one (order-less) instrument entry per instrument name it is ASKED about (amount = 1000 * N +
/// position + 1, free = total, time t0), and both `account_snapshot` and `account_stream` record
/// the names they were handed (`asked<N> …` / `asks<N> …`).
#[derive(Debug, Clone)]
struct SStub<const N: usize> {
    log: Arc<Mutex<Vec<String>>>,
}

fn asked_toks(assets: &[AssetNameExchange], instruments: &[InstrumentNameExchange]) -> String {
    let mut t = vec!["A".to_string()];
    t.extend(assets.iter().map(|a| a.name().to_string()));
    t.push("I".into());
    t.extend(instruments.iter().map(|i| i.name().to_string()));
    t.join(" ")
}

impl<const N: usize> ExecutionClient for SStub<N> {
    const EXCHANGE: ExchangeId = EXCHANGES[N];
    type Config = Arc<Mutex<Vec<String>>>;
    type AccountStream = futures::stream::Pending<UnindexedAccountEvent>;

    fn new(config: Self::Config) -> Self {
        SStub { log: config }
    }

    async fn account_snapshot(
        &self,
        assets: &[AssetNameExchange],
        instruments: &[InstrumentNameExchange],
    ) -> Result<UnindexedAccountSnapshot, UnindexedClientError> {
        self.log.lock().unwrap().push(format!("asked{N} {}", asked_toks(assets, instruments)));
        Ok(AccountSnapshot {
            exchange: Self::EXCHANGE,
            balances: assets
                .iter()
                .enumerate()
                .map(|(k, a)| {
                    let amount = Decimal::from((1000 * N + k + 1) as u64);
                    AssetBalance::new(a.clone(), Balance::new(amount, amount), t0())
                })
                .collect(),
            instruments: instruments
                .iter()
                .map(|i| InstrumentAccountSnapshot::new(i.clone(), vec![]))
                .collect(),
        })
    }

    async fn account_stream(
        &self,
        assets: &[AssetNameExchange],
        instruments: &[InstrumentNameExchange],
    ) -> Result<Self::AccountStream, UnindexedClientError> {
        self.log.lock().unwrap().push(format!("asks{N} {}", asked_toks(assets, instruments)));
        Ok(futures::stream::pending())
    }

    fn cancel_order(
        &self,
        request: OrderRequestCancel<ExchangeId, &InstrumentNameExchange>,
    ) -> impl Future<Output = UnindexedOrderResponseCancel> + Send {
        std::future::ready(echo_cancel(request))
    }

    fn open_order(
        &self,
        request: OrderRequestOpen<ExchangeId, &InstrumentNameExchange>,
    ) -> impl Future<
        Output = Order<ExchangeId, InstrumentNameExchange, Result<Open, UnindexedOrderError>>,
    > + Send {
        std::future::ready(echo_open(request))
    }

    async fn fetch_balances(
        &self,
    ) -> Result<Vec<AssetBalance<AssetNameExchange>>, UnindexedClientError> {
        unimplemented!()
    }

    async fn fetch_open_orders(
        &self,
    ) -> Result<Vec<Order<ExchangeId, InstrumentNameExchange, Open>>, UnindexedClientError> {
        unimplemented!()
    }

    async fn fetch_trades(
        &self,
        _: DateTime<Utc>,
    ) -> Result<Vec<Trade<QuoteAsset, InstrumentNameExchange>>, UnindexedClientError> {
        unimplemented!()
    }
}

/// `sroute <n> <e>*n`: the real `ExecutionBuilder` over `ii` with `add_live::<SStub<e>>` for every
/// label of the list (in this order), `build()`, `init()` on a paused current-thread runtime.
/// Observed: the slots of the transmitter table and, per linked exchange in slot order, the names
/// its client was asked about by `account_snapshot` and `account_stream` and the indexed initial
/// snapshot that arrived on the merged account channel.
fn sroute_op(ii: &IndexedInstruments, op: &[String], lines: &mut Vec<String>) {
    let mut c = Cur { t: &op[1..], i: 0 };
    let n = c.count();
    let adds: Vec<usize> = (0..n).map(|_| c.count()).collect();
    c.done();
    let log = Arc::new(Mutex::new(Vec::new()));
    let timeout = std::time::Duration::from_secs(1);
    let mut builder = ExecutionBuilder::new(ii);
    for e in &adds {
        let res = match e {
            0 => builder.add_live::<SStub<0>>(log.clone(), timeout),
            1 => builder.add_live::<SStub<1>>(log.clone(), timeout),
            2 => builder.add_live::<SStub<2>>(log.clone(), timeout),
            3 => builder.add_live::<SStub<3>>(log.clone(), timeout),
            4 => builder.add_live::<SStub<4>>(log.clone(), timeout),
            _ => panic!("bad op: exchange label out of range"),
        };
        match res {
            Ok(next) => builder = next,
            Err(BarterError::IndexError(_)) => {
                lines.push("r builderr index".into());
                return;
            }
            Err(BarterError::ExecutionBuilder(_)) => {
                lines.push("r builderr duplicate".into());
                return;
            }
            Err(other) => panic!("unexpected builder error {other:?}"),
        }
    }
    let build = match std::panic::catch_unwind(std::panic::AssertUnwindSafe(|| builder.build())) {
        Ok(build) => build,
        Err(_) => {
            lines.push("r buildpanic".into());
            return;
        }
    };
    let rt = tokio::runtime::Builder::new_current_thread()
        .enable_time()
        .start_paused(true)
        .build()
        .unwrap();
    let res = rt.block_on(async {
        let Execution {
            execution_txs,
            mut account_channel,
            handles,
        } = match build.init().await {
            Ok(x) => x,
            Err(_) => return None,
        };
        let slots: Vec<(usize, bool)> = (&execution_txs)
            .into_iter()
            .map(|(id, tx)| (label(*id), tx.is_some()))
            .collect();
        tokio::time::sleep(std::time::Duration::from_secs(3)).await;
        handles.managers.iter().for_each(|h| h.abort());
        handles.account_to_engines.iter().for_each(|h| h.abort());
        handles.mock_exchanges.iter().for_each(|h| h.abort());
        let mut events = vec![];
        while let Ok(ev) = account_channel.rx.rx.try_recv() {
            events.push(ev);
        }
        Some((slots, events))
    });
    let Some((slots, events)) = res else {
        lines.push("r initerr".into());
        return;
    };
    let mut txmap = vec!["txmap".to_string()];
    txmap.extend(slots.iter().map(|(l, some)| format!("{l}:{}", *some as u8)));
    lines.push(txmap.join(" "));
    lines.push("r ok".into());
    // the initial snapshot of every link, by the label of the exchange at the EVENT's exchange index
    let mut snaps: Vec<(String, String)> = vec![];
    for ev in events {
        match ev {
            AccountStreamEvent::Item(AccountEvent { exchange, kind: AccountEventKind::Snapshot(s) }) => {
                let who = ii
                    .exchanges()
                    .iter()
                    .find(|k| k.key == exchange)
                    .map(|k| label(k.value).to_string())
                    .unwrap_or_else(|| "?".into());
                let mut t = vec![exchange.0.to_string(), s.exchange.0.to_string(), "B".into()];
                for b in &s.balances {
                    let ok = b.balance.free == b.balance.total && b.time_exchange == t0();
                    t.push(format!("{}:{}{}", b.asset.0, b.balance.total, if ok { "" } else { "!payload" }));
                }
                t.push("I".into());
                for i in &s.instruments {
                    t.push(format!("{}{}", i.instrument.0, if i.orders.is_empty() { "" } else { "!orders" }));
                }
                snaps.push((who, t.join(" ")));
            }
            other => lines.push(format!("unexpected {other:?}")),
        }
    }
    let log = log.lock().unwrap().clone();
    for (l, some) in &slots {
        if !some {
            continue;
        }
        for key in [format!("asked{l}"), format!("asks{l}")] {
            let mut hit = false;
            for entry in log.iter().filter(|e| e.split(' ').next() == Some(key.as_str())) {
                lines.push(entry.clone());
                hit = true;
            }
            if !hit {
                lines.push(format!("{key} none"));
            }
        }
        let who = l.to_string();
        let mut hit = false;
        for (_, t) in snaps.iter().filter(|(w, _)| *w == who) {
            lines.push(format!("snap{l} {t}"));
            hit = true;
        }
        if !hit {
            lines.push(format!("snap{l} none"));
        }
    }
    for (w, t) in snaps.iter().filter(|(w, _)| !slots.iter().any(|(l, some)| *some && l.to_string() == *w)) {
        lines.push(format!("snap-stray {w} {t}"));
    }
}

// ------------------------------------------------------------------------------------ run

struct Def {
    ex: usize,
    inst_internal: String,
    inst_name: String,
    base: (String, String),
    quote: (String, String),
    /// an asset of the exchange that need not be the base or quote of any instrument
    /// (`E` section of the `build` op): kind 1 / 2 / 3 = settlement asset of a perpetual / future /
    /// option, 4 = the quantity unit of a spot instrument's `InstrumentSpec`
    extra: Option<(u8, String, String)>,
}

fn build(defs: &[Def]) -> IndexedInstruments {
    let mut b = IndexedInstruments::builder();
    for d in defs {
        let underlying = Underlying::new(
            Asset::new(d.base.0.as_str(), d.base.1.as_str()),
            Asset::new(d.quote.0.as_str(), d.quote.1.as_str()),
        );
        let Some((kind, a_internal, a_name)) = &d.extra else {
            b = b.add_instrument(Instrument::spot(
                EXCHANGES[d.ex],
                d.inst_internal.as_str(),
                d.inst_name.as_str(),
                underlying,
                None,
            ));
            continue;
        };
        let extra = Asset::new(a_internal.as_str(), a_name.as_str());
        let (kind, spec) = match kind {
            1 => (
                InstrumentKind::Perpetual(PerpetualContract {
                    contract_size: Decimal::ONE,
                    settlement_asset: extra,
                }),
                None,
            ),
            2 => (
                InstrumentKind::Future(FutureContract {
                    contract_size: Decimal::ONE,
                    settlement_asset: extra,
                    expiry: t0(),
                }),
                None,
            ),
            3 => (
                InstrumentKind::Option(OptionContract {
                    contract_size: Decimal::ONE,
                    settlement_asset: extra,
                    kind: OptionKind::Put,
                    exercise: OptionExercise::European,
                    expiry: t0(),
                    strike: Decimal::TEN,
                }),
                None,
            ),
            4 => (
                InstrumentKind::Spot,
                Some(InstrumentSpec {
                    price: InstrumentSpecPrice { min: Decimal::ONE, tick_size: Decimal::ONE },
                    quantity: InstrumentSpecQuantity {
                        unit: OrderQuantityUnits::Asset(extra),
                        min: Decimal::ONE,
                        increment: Decimal::ONE,
                    },
                    notional: InstrumentSpecNotional { min: Decimal::ONE },
                }),
            ),
            o => panic!("bad op: extra asset kind {o}"),
        };
        b = b.add_instrument(Instrument::new(
            EXCHANGES[d.ex],
            d.inst_internal.as_str(),
            d.inst_name.as_str(),
            underlying,
            InstrumentQuoteAsset::UnderlyingQuote,
            kind,
            spec,
        ));
    }
    b.build()
}

fn table_lines(ii: &IndexedInstruments) -> [String; 3] {
    let mut x = vec!["exchanges".to_string()];
    x.extend(ii.exchanges().iter().map(|k| format!("{}:{}", k.key.0, label(k.value))));
    let mut a = vec!["assets".to_string()];
    a.extend(ii.assets().iter().map(|k| {
        format!("{}:{}:{}", k.key.0, label(k.value.exchange), k.value.asset.name_exchange.name())
    }));
    let mut i = vec!["instruments".to_string()];
    i.extend(ii.instruments().iter().map(|k| {
        format!("{}:{}:{}", k.key.0, label(k.value.exchange.value), k.value.name_exchange.name())
    }));
    [x.join(" "), a.join(" "), i.join(" ")]
}

fn query(ii: &IndexedInstruments, op: &[String], lines: &mut Vec<String>) {
    let e: usize = op[1].parse().unwrap();
    let map = match generate_execution_instrument_map(ii, EXCHANGES[e]) {
        Ok(m) => Arc::new(m),
        Err(_) => {
            lines.push("r nomap".into());
            return;
        }
    };
    let indexer = AccountEventIndexer::new(map.clone());
    let rest = &op[2..];
    let mut c = Cur { t: rest, i: 0 };
    match op[0].as_str() {
        "map" => {
            c.done();
            lines.push(format!("r ok {} {}", map.exchange.key.0, label(map.exchange.value)));
            let mut l = vec!["massets".to_string()];
            l.extend(map.assets.iter().map(|(k, v)| format!("{}:{}", k.0, v.name())));
            lines.push(l.join(" "));
            let mut l = vec!["minstruments".to_string()];
            l.extend(map.instruments.iter().map(|(k, v)| format!("{}:{}", k.0, v.name())));
            lines.push(l.join(" "));
            let mut l = vec!["xassets".to_string()];
            l.extend(map.exchange_assets().map(|v| v.name().to_string()));
            lines.push(l.join(" "));
            let mut l = vec!["xinstruments".to_string()];
            l.extend(map.exchange_instruments().map(|v| v.name().to_string()));
            lines.push(l.join(" "));
        }
        "fexid" => {
            let x = c.count();
            c.done();
            match map.find_exchange_id(ExchangeIndex(x)) {
                Ok(id) => lines.push(format!("r ok {}", label(id))),
                Err(e) => {
                    lines.push("r err".into());
                    lines.push(format!("kind {}", key_err(&e)));
                }
            }
        }
        "fexix" => {
            let id = c.exchange();
            c.done();
            res_idx(lines, map.find_exchange_index(id), |x| x.0.to_string());
        }
        "fan" => {
            let a = c.count();
            c.done();
            match map.find_asset_name_exchange(AssetIndex(a)) {
                Ok(name) => {
                    lines.push(format!("r ok {}", name.name()));
                    lines.push(match map.find_asset_index(name) {
                        Ok(back) => format!("back ok {}", back.0),
                        Err(_) => "back err".into(),
                    });
                }
                Err(e) => {
                    lines.push("r err".into());
                    lines.push(format!("kind {}", key_err(&e)));
                }
            }
        }
        "fin" => {
            let i = c.count();
            c.done();
            match map.find_instrument_name_exchange(InstrumentIndex(i)) {
                Ok(name) => {
                    lines.push(format!("r ok {}", name.name()));
                    lines.push(match map.find_instrument_index(name) {
                        Ok(back) => format!("back ok {}", back.0),
                        Err(_) => "back err".into(),
                    });
                }
                Err(e) => {
                    lines.push("r err".into());
                    lines.push(format!("kind {}", key_err(&e)));
                }
            }
        }
        "fai" => {
            let name = AssetNameExchange::new(c.num());
            c.done();
            match map.find_asset_index(&name) {
                Ok(a) => {
                    lines.push(format!("r ok {}", a.0));
                    lines.push(match map.find_asset_name_exchange(a) {
                        Ok(back) => format!("back ok {}", back.name()),
                        Err(_) => "back err".into(),
                    });
                }
                Err(e) => {
                    lines.push("r err".into());
                    lines.push(format!("kind {}", idx_err(&e)));
                }
            }
        }
        "fii" => {
            let name = InstrumentNameExchange::new(c.num());
            c.done();
            match map.find_instrument_index(&name) {
                Ok(i) => {
                    lines.push(format!("r ok {}", i.0));
                    lines.push(match map.find_instrument_name_exchange(i) {
                        Ok(back) => format!("back ok {}", back.name()),
                        Err(_) => "back err".into(),
                    });
                }
                Err(e) => {
                    lines.push("r err".into());
                    lines.push(format!("kind {}", idx_err(&e)));
                }
            }
        }
        "oreq" => {
            let (x, i, cid, kind, p) = (c.count(), c.count(), c.num(), c.next(), c.num());
            c.done();
            let r = match kind {
                "open" => indexer
                    .order_request(&request_open(x, i, cid, p))
                    .map(|r| s_client_open(&r)),
                "cancel" => indexer
                    .order_request(&request_cancel(x, i, cid, p))
                    .map(|r| s_client_cancel(&r)),
                o => panic!("bad kind {o}"),
            };
            match r {
                Ok(s) => lines.push(format!("r ok {s}")),
                Err(e) => {
                    lines.push("r err".into());
                    lines.push(format!("kind {}", key_err(&e)));
                }
            }
        }
        "okey" => {
            let k = p_key(&mut c);
            c.done();
            res_idx(lines, indexer.order_key(k), s_key);
        }
        "bal" => {
            let b = p_bal(&mut c);
            c.done();
            res_idx(lines, indexer.asset_balance(b), s_bal);
        }
        "trade" => {
            let t = p_trade(&mut c);
            c.done();
            res_idx(lines, indexer.trade(t), s_trade);
        }
        "ev" => {
            let ev = p_event(&mut c);
            c.done();
            // through the `Indexer` trait, as `IndexedStream` does
            res_idx(lines, indexer.index(ev), s_event);
        }
        "mgr" => {
            let (kind, x, i, cid, p) = (c.next(), c.count(), c.count(), c.num(), c.num());
            c.done();
            let request = match kind {
                "open" => ExecutionRequest::Open(request_open(x, i, cid, p)),
                "cancel" => ExecutionRequest::Cancel(request_cancel(x, i, cid, p)),
                o => panic!("bad kind {o}"),
            };
            let (log, resp, panicked) = through_manager(map, request);
            if panicked {
                lines.push("r panic".into());
                for l in log {
                    lines.push(format!("client {l}"));
                }
            } else {
                lines.push("r ok".into());
                for l in log {
                    lines.push(format!("client {l}"));
                }
                lines.push(format!("resp {}", resp.unwrap_or("filtered".into())));
            }
        }
        o => panic!("bad op {o}"),
    }
}

fn run() {
    run_cases(|case, lines| {
        let mut built: Option<IndexedInstruments> = None;
        for op in &case.ops {
            lines.push("@".into());
            match op[0].as_str() {
                "build" => {
                    // `build D <n> {7 tokens}* [E <m> {4 tokens}*] X ...`: only the definitions are read here; the
                    // tables that follow are what the generator saw the builder produce and are
                    // re-derived (and printed) from the real builder below
                    assert!(op[1] == "D", "bad build");
                    let n: usize = op[2].parse().unwrap();
                    let mut defs: Vec<Def> = (0..n)
                        .map(|j| {
                            let t = &op[3 + 7 * j..10 + 7 * j];
                            Def {
                                ex: t[0].parse().unwrap(),
                                inst_internal: t[1].clone(),
                                inst_name: t[2].clone(),
                                base: (t[3].clone(), t[4].clone()),
                                quote: (t[5].clone(), t[6].clone()),
                                extra: None,
                            }
                        })
                        .collect();
                    let mut k = 3 + 7 * n;
                    if op[k] == "E" {
                        let m: usize = op[k + 1].parse().unwrap();
                        for j in 0..m {
                            let t = &op[k + 2 + 4 * j..k + 6 + 4 * j];
                            let pos: usize = t[0].parse().unwrap();
                            assert!(defs[pos].extra.is_none(), "bad build: two extra assets");
                            t[2].parse::<u64>().expect("bad build");
                            t[3].parse::<u64>().expect("bad build");
                            defs[pos].extra = Some((t[1].parse().unwrap(), t[2].clone(), t[3].clone()));
                        }
                        k += 2 + 4 * m;
                    }
                    assert!(op[k] == "X", "bad build");
                    let ii = build(&defs);
                    lines.extend(table_lines(&ii));
                    built = Some(ii);
                }
                "tamper" => {
                    // a collection the builder cannot produce (key != position): through the
                    // derived Deserialize of IndexedInstruments; model vs code only
                    let ii = built.take().expect("build first");
                    let field = match op[1].as_str() {
                        "X" => "exchanges",
                        "A" => "assets",
                        "I" => "instruments",
                        o => panic!("bad tamper {o}"),
                    };
                    let (pos, key): (usize, u64) = (op[2].parse().unwrap(), op[3].parse().unwrap());
                    let mut v = serde_json::to_value(&ii).unwrap();
                    match v[field].get_mut(pos) {
                        Some(entry) => entry["key"] = serde_json::json!(key),
                        None => lines.push("nopos".into()),
                    }
                    let ii: IndexedInstruments = serde_json::from_value(v).unwrap();
                    lines.extend(table_lines(&ii));
                    built = Some(ii);
                }
                "route" => route_op(built.as_ref().expect("build first"), op, lines),
                "sroute" => sroute_op(built.as_ref().expect("build first"), op, lines),
                _ => query(built.as_ref().expect("build first"), op, lines),
            }
        }
    });
}

// ------------------------------------------------------------------------------------ generator

/// `build D n {def}* X n {key id}* A n {key ex name}* I n {key ex name}*`: the definitions and the
/// collection the real builder made of them (one op, so that shrinking keeps them together)
fn build_op(defs: &[Def], ii: &IndexedInstruments) -> String {
    let mut t = vec!["build".to_string(), "D".into(), defs.len().to_string()];
    for d in defs {
        t.push(def_op(d));
    }
    let extras: Vec<String> = defs
        .iter()
        .enumerate()
        .filter_map(|(j, d)| d.extra.as_ref().map(|(k, i, n)| format!("{j} {k} {i} {n}")))
        .collect();
    if !extras.is_empty() {
        t.push("E".into());
        t.push(extras.len().to_string());
        t.extend(extras);
    }
    t.push("X".into());
    t.push(ii.exchanges().len().to_string());
    for k in ii.exchanges() {
        t.push(k.key.0.to_string());
        t.push(label(k.value).to_string());
    }
    t.push("A".into());
    t.push(ii.assets().len().to_string());
    for k in ii.assets() {
        t.push(k.key.0.to_string());
        t.push(label(k.value.exchange).to_string());
        t.push(k.value.asset.name_exchange.name().to_string());
    }
    t.push("I".into());
    t.push(ii.instruments().len().to_string());
    for k in ii.instruments() {
        t.push(k.key.0.to_string());
        t.push(label(k.value.exchange.value).to_string());
        t.push(k.value.name_exchange.name().to_string());
    }
    t.join(" ")
}

fn def_op(d: &Def) -> String {
    format!(
        "{} {} {} {} {} {} {}",
        d.ex, d.inst_internal, d.inst_name, d.base.0, d.base.1, d.quote.0, d.quote.1
    )
}

/// every `find_*` of every link (all labels 0..=4, so foreign and absent exchanges too) on every
/// index 0..=len and every name that occurs anywhere plus an unknown one
fn sweep(out: &mut Out, ii: &IndexedInstruments, labels: &[usize]) {
    sweep_upto(out, ii, labels, 0)
}

fn sweep_upto(out: &mut Out, ii: &IndexedInstruments, labels: &[usize], extra: usize) {
    let mut inames: Vec<String> = ii
        .instruments()
        .iter()
        .map(|k| k.value.name_exchange.name().to_string())
        .collect();
    inames.push("99".into());
    inames.sort();
    inames.dedup();
    let mut anames: Vec<String> = ii
        .assets()
        .iter()
        .map(|k| k.value.asset.name_exchange.name().to_string())
        .collect();
    anames.push("99".into());
    anames.sort();
    anames.dedup();
    for &e in labels {
        out.line(format!("map {e}"));
        for x in 0..=ii.exchanges().len() + extra {
            out.line(format!("fexid {e} {x}"));
        }
        for id in 0..EXCHANGES.len() {
            out.line(format!("fexix {e} {id}"));
        }
        for a in 0..=ii.assets().len() + extra {
            out.line(format!("fan {e} {a}"));
        }
        for i in 0..=ii.instruments().len() + extra {
            out.line(format!("fin {e} {i}"));
        }
        for n in &anames {
            out.line(format!("fai {e} {n}"));
        }
        for n in &inames {
            out.line(format!("fii {e} {n}"));
        }
    }
}

struct Pools {
    ex_ids: Vec<usize>,
    inames_own: Vec<String>,
    inames_all: Vec<String>,
    anames_own: Vec<String>,
    anames_all: Vec<String>,
}

fn pools(ii: &IndexedInstruments, e: usize) -> Pools {
    let own = |l: usize| l == e;
    Pools {
        ex_ids: (0..EXCHANGES.len()).collect(),
        inames_own: ii
            .instruments()
            .iter()
            .filter(|k| own(label(k.value.exchange.value)))
            .map(|k| k.value.name_exchange.name().to_string())
            .collect(),
        inames_all: ii
            .instruments()
            .iter()
            .map(|k| k.value.name_exchange.name().to_string())
            .chain(["99".to_string()])
            .collect(),
        anames_own: ii
            .assets()
            .iter()
            .filter(|k| own(label(k.value.exchange)))
            .map(|k| k.value.asset.name_exchange.name().to_string())
            .collect(),
        anames_all: ii
            .assets()
            .iter()
            .map(|k| k.value.asset.name_exchange.name().to_string())
            .chain(["99".to_string()])
            .collect(),
    }
}

fn pick_name(rng: &mut Rng, own: &[String], all: &[String], own_pct: u64) -> String {
    if !own.is_empty() && rng.chance(own_pct) {
        rng.pick(own).clone()
    } else {
        rng.pick(all).clone()
    }
}

fn g_ex(rng: &mut Rng, p: &Pools, e: usize, own_pct: u64) -> String {
    if rng.chance(own_pct) {
        e.to_string()
    } else {
        rng.pick(&p.ex_ids).to_string()
    }
}

fn g_api(rng: &mut Rng, p: &Pools, own: u64) -> String {
    match rng.below(7) {
        0 => "rate".into(),
        1 => format!("ainv {}", pick_name(rng, &p.anames_own, &p.anames_all, own)),
        2 => format!("iinv {}", pick_name(rng, &p.inames_own, &p.inames_all, own)),
        3 => format!("bins {}", pick_name(rng, &p.anames_own, &p.anames_all, own)),
        4 => "orej".into(),
        5 => "acanc".into(),
        _ => "afill".into(),
    }
}

fn g_oerr(rng: &mut Rng, p: &Pools, own: u64) -> String {
    if rng.chance(25) {
        "conn".into()
    } else {
        format!("rej {}", g_api(rng, p, own))
    }
}

fn g_key(rng: &mut Rng, p: &Pools, e: usize, own: u64) -> String {
    format!(
        "{} {} {}",
        g_ex(rng, p, e, own),
        pick_name(rng, &p.inames_own, &p.inames_all, own),
        rng.below(50)
    )
}

fn g_state(rng: &mut Rng, p: &Pools, own: u64) -> String {
    match rng.below(6) {
        0 => format!("act {}", rng.below(9)),
        1 => format!("canc {}", rng.below(9)),
        2 => "full".into(),
        3 => "exp".into(),
        _ => format!("fail {}", g_oerr(rng, p, own)),
    }
}

fn g_order(rng: &mut Rng, p: &Pools, e: usize, own: u64) -> String {
    format!("{} {} {}", g_key(rng, p, e, own), rng.below(1000), g_state(rng, p, own))
}

fn g_bal(rng: &mut Rng, p: &Pools, own: u64) -> String {
    format!("{} {}", pick_name(rng, &p.anames_own, &p.anames_all, own), rng.below(1000))
}

fn g_trade(rng: &mut Rng, p: &Pools, own: u64) -> String {
    format!("{} {}", pick_name(rng, &p.inames_own, &p.inames_all, own), rng.below(1000))
}

fn g_cresp(rng: &mut Rng, p: &Pools, e: usize, own: u64) -> String {
    if rng.chance(50) {
        format!("{} ok {}", g_key(rng, p, e, own), rng.below(9))
    } else {
        format!("{} err {}", g_key(rng, p, e, own), g_oerr(rng, p, own))
    }
}

fn g_snap(rng: &mut Rng, p: &Pools, e: usize, own: u64) -> String {
    let mut t = vec![g_ex(rng, p, e, own)];
    let nb = rng.below(4);
    t.push(nb.to_string());
    for _ in 0..nb {
        t.push(g_bal(rng, p, own));
    }
    let ni = rng.below(4);
    t.push(ni.to_string());
    for _ in 0..ni {
        t.push(pick_name(rng, &p.inames_own, &p.inames_all, own));
        let no = rng.below(3);
        t.push(no.to_string());
        for _ in 0..no {
            t.push(g_order(rng, p, e, own));
        }
    }
    t.join(" ")
}

fn g_event(rng: &mut Rng, p: &Pools, e: usize) -> String {
    // the larger the event the more its keys must be biased to translatable ones, otherwise
    // nearly every snapshot is rejected at its first key
    let own = *rng.pick(&[100u64, 97, 90, 60]);
    let kind = match rng.below(5) {
        0 => format!("S {}", g_snap(rng, p, e, own)),
        1 => format!("B {}", g_bal(rng, p, own)),
        2 => format!("O {}", g_order(rng, p, e, own)),
        3 => format!("C {}", g_cresp(rng, p, e, own)),
        _ => format!("T {}", g_trade(rng, p, own)),
    };
    format!("{} {}", g_ex(rng, p, e, own), kind)
}

fn random_ops(out: &mut Out, rng: &mut Rng, ii: &IndexedInstruments, n_ops: usize) {
    let present: Vec<usize> = ii.exchanges().iter().map(|k| label(k.value)).collect();
    for _ in 0..n_ops {
        // mostly a link that exists
        let e = if !present.is_empty() && rng.chance(92) {
            *rng.pick(&present)
        } else {
            rng.below(EXCHANGES.len() as u64) as usize
        };
        let p = pools(ii, e);
        let own_ix = ii.exchanges().iter().find(|k| label(k.value) == e).map(|k| k.key.0);
        let x = match own_ix {
            Some(x) if rng.chance(80) => x,
            _ => rng.below(ii.exchanges().len() as u64 + 1) as usize,
        };
        let own_instr: Vec<usize> = ii
            .instruments()
            .iter()
            .filter(|k| label(k.value.exchange.value) == e)
            .map(|k| k.key.0)
            .collect();
        let i = if !own_instr.is_empty() && rng.chance(70) {
            *rng.pick(&own_instr)
        } else {
            rng.below(ii.instruments().len() as u64 + 1) as usize
        };
        let kind = *rng.pick(&["open", "cancel"]);
        match rng.below(10) {
            0 | 1 => out.line(format!("oreq {e} {x} {i} {} {kind} {}", rng.below(50), rng.below(1000))),
            2 => out.line(format!("okey {e} {}", g_key(rng, &p, e, 80))),
            3 => out.line(format!("bal {e} {}", g_bal(rng, &p, 70))),
            4 => out.line(format!("trade {e} {}", g_trade(rng, &p, 70))),
            5 | 6 | 7 => out.line(format!("ev {e} {}", g_event(rng, &p, e))),
            _ => out.line(format!("mgr {e} {kind} {x} {i} {} {}", rng.below(50), rng.below(1000))),
        }
    }
}

/// labels of the collection's exchanges in `ExchangeIndex` order
fn present_labels(ii: &IndexedInstruments) -> Vec<usize> {
    ii.exchanges().iter().map(|k| label(k.value)).collect()
}

/// The exchanges an execution is added for, in `add_*` call order. `skip_first`: the exchange with
/// `ExchangeIndex(0)` stays link-less (market data only) while at least one later exchange is
/// linked — the configuration in which a table without placeholder slots shifts every later
/// transmitter down. Otherwise every exchange is linked with probability 60%. The call order is
/// shuffled; 8% of the lists are then spoiled by a repeated or an absent exchange (the builder
/// must refuse them).
fn g_adds(rng: &mut Rng, present: &[usize], skip_first: bool) -> Vec<usize> {
    let mut adds: Vec<usize> = vec![];
    if skip_first && present.len() >= 2 {
        for &e in &present[1..] {
            if rng.chance(75) {
                adds.push(e);
            }
        }
        if adds.is_empty() {
            adds.push(present[1 + rng.below(present.len() as u64 - 1) as usize]);
        }
    } else {
        for &e in present {
            if rng.chance(60) {
                adds.push(e);
            }
        }
    }
    for k in 0..adds.len() {
        let j = k + rng.below((adds.len() - k) as u64) as usize;
        adds.swap(k, j);
    }
    if rng.chance(8) {
        let absent: Vec<usize> = (0..EXCHANGES.len()).filter(|e| !present.contains(e)).collect();
        if !adds.is_empty() && (absent.is_empty() || rng.chance(50)) {
            let d = *rng.pick(&adds);
            adds.push(d);
        } else if !absent.is_empty() {
            let pos = rng.below(adds.len() as u64 + 1) as usize;
            adds.insert(pos, *rng.pick(&absent));
        }
    }
    adds
}

fn adds_tok(adds: &[usize]) -> String {
    let mut t = vec![adds.len().to_string()];
    t.extend(adds.iter().map(|e| e.to_string()));
    t.join(" ")
}

/// `route` ops: `n_sets` link selections (every other one with the first exchange link-less), and
/// for each of them one request per exchange index 0..=len (own, link-less, out of range), 70% for
/// an instrument of the exchange at that index, else any instrument index 0..=len.
fn route_ops(out: &mut Out, rng: &mut Rng, ii: &IndexedInstruments, n_sets: usize) {
    let present = present_labels(ii);
    for s in 0..n_sets {
        let adds = adds_tok(&g_adds(rng, &present, s % 2 == 0));
        for x in 0..=present.len() {
            let own: Vec<usize> = ii
                .instruments()
                .iter()
                .filter(|k| k.value.exchange.key.0 == x)
                .map(|k| k.key.0)
                .collect();
            let i = if !own.is_empty() && rng.chance(70) {
                *rng.pick(&own)
            } else {
                rng.below(ii.instruments().len() as u64 + 1) as usize
            };
            let kind = *rng.pick(&["open", "cancel"]);
            out.line(format!("route {adds} {kind} {x} {i} {} {}", rng.below(50), rng.below(1000)));
        }
    }
}

/// A random collection: 1..=4 exchange labels out of 5 (so label order != index order), 0..=5
/// instruments each (unequal counts), asset internal names from a pool of 4 shared by all
/// exchanges, exchange names from small numeric pools so that they collide *across* exchanges all
/// the time and — in `collide` cases only — also *within* one exchange (outside `WF`).
fn random_defs(rng: &mut Rng) -> Vec<Def> {
    let n_ex = rng.range(1, 4) as usize;
    let mut labels: Vec<usize> = (0..EXCHANGES.len()).collect();
    for k in 0..labels.len() {
        let j = k + rng.below((labels.len() - k) as u64) as usize;
        labels.swap(k, j);
    }
    labels.truncate(n_ex);
    let collide = rng.chance(12);
    let mut defs = vec![];
    for &ex in &labels {
        // asset internal name a (1..=4) -> exchange name: a permutation of 1..=5 per exchange
        let mut perm: Vec<u64> = (1..=5).collect();
        for k in 0..perm.len() {
            let j = k + rng.below((perm.len() - k) as u64) as usize;
            perm.swap(k, j);
        }
        if collide && rng.chance(50) {
            perm[1] = perm[0];
        }
        let n_inst = rng.range(0, 5) as usize;
        let mut names: Vec<u64> = (1..=7).collect();
        for k in 0..names.len() {
            let j = k + rng.below((names.len() - k) as u64) as usize;
            names.swap(k, j);
        }
        for j in 0..n_inst {
            let base = rng.below(4) as usize;
            let mut quote = rng.below(4) as usize;
            if quote == base {
                quote = (base + 1) % 4;
            }
            let name = if collide && j > 0 && rng.chance(40) { names[j - 1] } else { names[j] };
            defs.push(Def {
                ex,
                inst_internal: format!("{}", ex * 100 + j),
                inst_name: name.to_string(),
                base: ((base + 1).to_string(), perm[base].to_string()),
                quote: ((quote + 1).to_string(), perm[quote].to_string()),
                extra: None,
            });
        }
    }
    // definition order is arbitrary, and a definition may be repeated
    for k in 0..defs.len() {
        let j = k + rng.below((defs.len() - k) as u64) as usize;
        defs.swap(k, j);
    }
    if !defs.is_empty() && rng.chance(20) {
        let d = &defs[rng.below(defs.len() as u64) as usize];
        let dup = Def {
            ex: d.ex,
            inst_internal: d.inst_internal.clone(),
            inst_name: d.inst_name.clone(),
            base: d.base.clone(),
            quote: d.quote.clone(),
            extra: d.extra.clone(),
        };
        defs.push(dup);
    }
    defs
}

fn shuffle<T>(rng: &mut Rng, v: &mut [T]) {
    for k in 0..v.len() {
        let j = k + rng.below((v.len() - k) as u64) as usize;
        v.swap(k, j);
    }
}

/// Collections of the input-domain family (`d<k>` cases, own seed). `class`:
/// 0 all FIVE exchanges; 1 exchanges owning assets that are no instrument's base or quote
/// (settlement asset of a perpetual / future / option, quantity unit of a spec); 2 instruments
/// whose base IS their quote, exchanges with a single asset; 3 large: one exchange with 30-60
/// instruments over 12 assets, multi-digit names (1, 10, 11, 100, … so that one name is a prefix of
/// another); 4 an ordinary collection (the ops of the case carry the boundary payloads); 5 all of it.
/// Names are unique per exchange (inside `WF`), so the spec driver speaks on every link.
fn domain_defs(rng: &mut Rng, class: usize) -> Vec<Def> {
    let five = class == 0 || class == 5;
    let extras = class == 1 || class == 5;
    let same = class == 2 || class == 5;
    let big = class == 3;
    let n_ex = if five { 5 } else { rng.range(2, 3) as usize };
    let mut labels: Vec<usize> = (0..EXCHANGES.len()).collect();
    shuffle(rng, &mut labels);
    labels.truncate(n_ex);
    let n_assets = if big { 12 } else { 6 };
    let mut defs = vec![];
    for (pos, &ex) in labels.iter().enumerate() {
        // internal name a (1..=n_assets) -> exchange name perm[a - 1]; big: 1, 10, 11, 100, 101, ...
        let mut perm: Vec<u64> = if big {
            vec![1, 10, 11, 100, 101, 110, 111, 2, 20, 21, 200, 12, 120]
        } else {
            (1..=n_assets as u64 + 1).collect()
        };
        shuffle(rng, &mut perm);
        let n_inst = if big && pos == 0 {
            rng.range(30, 60) as usize
        } else if same && rng.chance(30) {
            1
        } else {
            rng.range(1, if five { 3 } else { 5 }) as usize
        };
        let mut names: Vec<u64> = if big {
            (0..80u64).map(|j| [1, 10, 100, 1000][(j % 4) as usize] + j / 4).collect()
        } else {
            (1..=7).collect()
        };
        names.sort();
        names.dedup();
        shuffle(rng, &mut names);
        let single = same && n_inst == 1;
        for j in 0..n_inst {
            // the underlying pool is the first four internal names; 5.. are only ever extra assets
            let pool = if big { n_assets as u64 } else { 4 };
            let base = rng.below(pool) as usize;
            let mut quote = rng.below(pool) as usize;
            if single || (same && rng.chance(35)) {
                quote = base;
            } else if quote == base {
                quote = (base + 1) % pool as usize;
            }
            let extra = if extras && rng.chance(60) {
                // mostly an asset nothing else on the exchange names; sometimes a shared one
                let a = if rng.chance(75) { 4 + rng.below(2) as usize } else { rng.below(4) as usize };
                Some((rng.range(1, 4) as u8, (a + 1).to_string(), perm[a].to_string()))
            } else {
                None
            };
            defs.push(Def {
                ex,
                inst_internal: format!("{}", ex * 100 + j),
                inst_name: names[j].to_string(),
                base: ((base + 1).to_string(), perm[base].to_string()),
                quote: ((quote + 1).to_string(), perm[quote].to_string()),
                extra,
            });
        }
    }
    shuffle(rng, &mut defs);
    defs
}

/// The ops of a `d` case: the complete sweep, random ops, route ops, and the boundary payloads the
/// random draw (p below 1000) meets too rarely: payload 0 (= cancel request WITHOUT order id), the
/// three non-`Open` active states, every payload class on own keys, and indices at the top of
/// `usize` on every index-taking op.
fn domain_ops(out: &mut Out, rng: &mut Rng, ii: &IndexedInstruments, n_ops: usize) {
    sweep(out, ii, &[0, 1, 2, 3, 4]);
    random_ops(out, rng, ii, n_ops);
    route_ops(out, rng, ii, 2);
    let present = present_labels(ii);
    let max = usize::MAX;
    for (x, &e) in present.iter().enumerate() {
        let p = pools(ii, e);
        let own: Vec<usize> = ii
            .instruments()
            .iter()
            .filter(|k| k.value.exchange.key.0 == x)
            .map(|k| k.key.0)
            .collect();
        let i = *rng.pick(&own);
        let cid = rng.below(50);
        out.line(format!("oreq {e} {x} {i} {cid} cancel 0"));
        out.line(format!("mgr {e} cancel {x} {i} {cid} 0"));
        out.line(format!("oreq {e} {x} {i} {cid} open 0"));
        let adds = adds_tok(&present);
        out.line(format!("route {adds} cancel {x} {i} {cid} 0"));
        let iname = rng.pick(&p.inames_own).clone();
        let aname = rng.pick(&p.anames_own).clone();
        for id in [6u64, 7, 8, 0] {
            let pay = *rng.pick(&[0u64, 1, 2, 3, 21, 62, 83, 104, 125, 999]);
            out.line(format!("ev {e} {e} O {e} {iname} {cid} {pay} act {id}"));
            out.line(format!("ev {e} {e} S {e} 1 {aname} {pay} 1 {iname} 1 {e} {iname} {cid} {pay} act {id}"));
        }
        for salt in 0..3u64 {
            out.line(format!("ev {e} {e} O {e} {iname} {cid} {salt} fail conn"));
            out.line(format!("ev {e} {e} C {e} {iname} {salt} err conn"));
        }
        out.line(format!("trade {e} {iname} {}", rng.pick(&[0u64, 1, 61, 63, 86, 101, 124])));
        out.line(format!("bal {e} {aname} {}", rng.pick(&[0u64, 1, 2, 3, 4, 7])));
        // indices at the top of usize
        out.line(format!("fexid {e} {max}"));
        out.line(format!("fan {e} {max}"));
        out.line(format!("fin {e} {max}"));
        out.line(format!("oreq {e} {max} {i} {cid} open 5"));
        out.line(format!("oreq {e} {x} {max} {cid} cancel 5"));
        out.line(format!("route {adds} open {max} {i} {cid} 5"));
        out.line(format!("route {adds} open {x} {max} {cid} 5"));
    }
}

fn emit_case(out: &mut Out, id: String, defs: &[Def], body: impl FnOnce(&mut Out, &IndexedInstruments)) {
    out.case(id);
    let ii = build(defs);
    out.line(build_op(defs, &ii));
    body(out, &ii);
}

fn generate(seed: u64, n_cases: usize, tier: &str) {
    let mut out = Out::new();
    let mut rng = Rng::new(seed);
    let mut id = 0usize;
    if tier == "thorough" {
        // exhaustive small scope: exchange labels {0,1,4} (index order 0,2,1), each with 0, 1 or 2
        // instruments named 1 or 2 over the assets {1,2} in either base/quote order
        // (1 + 4 + 16 = 21 configurations per exchange, 21^3 = 9261 collections, with same-name
        // instruments inside one exchange included); complete find_* sweep on every link plus
        // every (exchange index, instrument index) request.
        let mut configs: Vec<Vec<(u64, bool)>> = vec![vec![]];
        for n1 in 1..=2u64 {
            for f1 in [false, true] {
                configs.push(vec![(n1, f1)]);
            }
        }
        for n1 in 1..=2u64 {
            for f1 in [false, true] {
                for n2 in 1..=2u64 {
                    for f2 in [false, true] {
                        configs.push(vec![(n1, f1), (n2, f2)]);
                    }
                }
            }
        }
        let labels = [0usize, 1, 4];
        for c0 in &configs {
            for c1 in &configs {
                for c2 in &configs {
                    let mut defs = vec![];
                    for (ex, cfg) in labels.iter().zip([c0, c1, c2]) {
                        for (j, (name, flip)) in cfg.iter().enumerate() {
                            let (b, q) = if *flip { ("2", "1") } else { ("1", "2") };
                            defs.push(Def {
                                ex: *ex,
                                inst_internal: format!("{}", ex * 100 + j),
                                inst_name: name.to_string(),
                                base: (b.into(), b.into()),
                                quote: (q.into(), q.into()),
                                extra: None,
                            });
                        }
                    }
                    id += 1;
                    emit_case(&mut out, format!("x{id}"), &defs, |out, ii| {
                        sweep(out, ii, &[0, 1, 4, 2]);
                        for e in [0usize, 1, 4] {
                            for x in 0..=ii.exchanges().len() {
                                for i in 0..=ii.instruments().len() {
                                    out.line(format!("oreq {e} {x} {i} 7 open 5"));
                                }
                            }
                        }
                        // end-to-end routing: first exchange link-less and the later ones added
                        // in reverse order (every exchange index x every instrument index); all
                        // linked in reverse order, and the middle one link-less (every exchange
                        // index x {first instrument of that exchange or 0, out of range})
                        let present = present_labels(ii);
                        let n = present.len();
                        if n >= 1 {
                            let rev = |v: &[usize]| v.iter().rev().copied().collect::<Vec<_>>();
                            let skip_first = adds_tok(&rev(&present[1..]));
                            for x in 0..=n {
                                for i in 0..=ii.instruments().len() {
                                    out.line(format!("route {skip_first} open {x} {i} 7 5"));
                                }
                            }
                            let mut sets = vec![adds_tok(&rev(&present))];
                            if n >= 3 {
                                sets.push(adds_tok(&[present[n - 1], present[0]]));
                            }
                            for adds in &sets {
                                for x in 0..=n {
                                    let own = ii
                                        .instruments()
                                        .iter()
                                        .find(|k| k.value.exchange.key.0 == x)
                                        .map(|k| k.key.0)
                                        .unwrap_or(0);
                                    for i in [own, ii.instruments().len()] {
                                        out.line(format!("route {adds} cancel {x} {i} 7 5"));
                                    }
                                }
                            }
                        }
                    });
                }
            }
        }
    }
    for _ in 0..n_cases {
        id += 1;
        let defs = random_defs(&mut rng);
        let n_ops = if tier == "thorough" { 40 } else { 25 };
        let mut r2 = rng.fork();
        emit_case(&mut out, format!("r{id}"), &defs, |out, ii| {
            sweep(out, ii, &[0, 1, 2, 3, 4]);
            random_ops(out, &mut r2, ii, n_ops);
            route_ops(out, &mut r2, ii, if tier == "thorough" { 4 } else { 3 });
            // 8%: afterwards break key = position (duplicate / shifted / out-of-range keys) and
            // sweep again; outside `Indexed`, so model vs code only
            if r2.chance(8) {
                for _ in 0..r2.range(1, 3) {
                    let (f, len) = match r2.below(3) {
                        0 => ("X", ii.exchanges().len()),
                        1 => ("A", ii.assets().len()),
                        _ => ("I", ii.instruments().len()),
                    };
                    out.line(format!("tamper {f} {} {}", r2.below(len as u64 + 1), r2.below(len as u64 + 2)));
                }
                sweep_upto(out, ii, &[0, 1, 2, 3, 4], 2);
                random_ops(out, &mut r2, ii, 10);
            }
        });
    }
    // input-domain family: its own seed, so the random cases above stay what they were
    let mut rd = Rng::new(seed ^ 0xD04A_1C04);
    for k in 0..(n_cases / 6).max(6) {
        let defs = domain_defs(&mut rd, k % 6);
        let mut r2 = rd.fork();
        let n_ops = if tier == "thorough" { 30 } else { 20 };
        emit_case(&mut out, format!("d{}", k + 1), &defs, |out, ii| domain_ops(out, &mut r2, ii, n_ops));
    }
    // configuration-shape family (`cfg` cases): its own seed, so every case above stays what it was.
    // Clients whose account is NOT empty at start-up and which record the names they are asked
    // about: per case 5 / 8 link selections (every other one with the first exchange link-less;
    // then all linked in reverse order, only the LAST exchange linked, none linked)
    let mut rc = Rng::new(seed ^ 0xCF61_0C04);
    for k in 0..(n_cases / 6).max(6) {
        let defs = if k % 3 == 2 { domain_defs(&mut rc, k % 6) } else { random_defs(&mut rc) };
        let mut r2 = rc.fork();
        let n_sets = if tier == "thorough" { 5 } else { 2 };
        emit_case(&mut out, format!("cfg{}", k + 1), &defs, |out, ii| {
            let present = present_labels(ii);
            for s in 0..n_sets {
                out.line(format!("sroute {}", adds_tok(&g_adds(&mut r2, &present, s % 2 == 0))));
            }
            let rev: Vec<usize> = present.iter().rev().copied().collect();
            out.line(format!("sroute {}", adds_tok(&rev)));
            out.line(format!("sroute {}", adds_tok(&rev[..rev.len().min(1)])));
            out.line("sroute 0".to_string());
        });
    }
    out.flush();
}

fn main() {
    let a = args();
    match a.cmd.as_str() {
        "gen" => generate(a.seed, a.n, &a.tier),
        "run" => run(),
        _ => {
            eprintln!("usage: c04 gen <seed> <n> <tier> | run < cases");
            std::process::exit(2)
        }
    }
}
