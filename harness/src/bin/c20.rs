//! C20 — backtests consume their whole dataset in order and do not affect one another.
//!
//! Ops (one case = one dataset + strategy parameterisations + several concurrent runs):
//!   `data k e0 e1 ...`      dataset over `k` instruments; each event is `i:p` = `MarketStreamEvent::Item`
//!                           (trade on instrument `i` at integer price `p`; its id is its position in
//!                           the list) or `R` = `MarketStreamEvent::Reconnecting(exchange)` marker;
//!                           markers may stand anywhere, also before the first Item (the backtest clock
//!                           is initialised from the first Item by the real `MarketDataInMemory::new`;
//!                           a dataset without any Item makes `new` panic: `run` then reports `panic`)
//!   `data_slow g k e0 ...`  the same dataset served by the harness's own `BacktestMarketData` (`PacedData`)
//!                           whose stream sleeps `g` ms of TOKIO time before every event; every run of
//!                           such a case uses a current-thread runtime with a paused (auto-advancing)
//!                           clock, so a 30 s dataset costs no wall-clock time. The pacing of the data
//!                           source is irrelevant to the property: `seen` must still be the whole dataset
//!   `strat t:i:s:q ...`     one strategy parameterisation (a plan): after the `t`-th market event
//!                           (1-based count of market events processed) send a market order on
//!                           instrument `i`, side `s` (B/S), quantity `q`; `strat -` = passive
//!   `run n w`               run `n` backtests concurrently (backtest `b` uses strat `b mod #strats`)
//!                           through the real `run_backtests` on a tokio multi-thread runtime with
//!                           `w` workers (`w = 0`: current-thread), then each one alone
//!   `longdata n k rp ro pm tm`  a LONG dataset given by a FORMULA instead of a list (harness and Lean driver
//!                           compute the identical sequence): `n` stream events over `k` instruments; position
//!                           `pos` (0-based) is a `Reconnecting` marker iff `rp > 0` and `pos % rp == ro`,
//!                           otherwise the trade Item with id `pos`, instrument `(pos + pos/3) % k`, price
//!                           `50 + 50*instrument + pos % pm`, side Sell iff `pos % 3 == 1` (else Buy) and
//!                           exchange time `1 + pos*tm` ms. `strat` / `run` are used as with `data`; `run` then
//!                           prints DIGESTS (`lseen` / `linst` / `lreqs`) instead of id lists
//!   `tracked t x`           (before `data` / `data_slow` / `longdata`) TRACKED-BUT-NOT-TRADED exchanges: of the `k`
//!                           instruments of the dataset op that follows, the last `t` (1 <= t <= k) live on `x`
//!                           (1 <= x <= min(t,2)) further exchanges - U1 = Okx, U2 = Kraken, the r-th tracked
//!                           instrument on U(1 + r mod x) - for which the backtest gets NO `ExecutionConfig`
//!                           (`MultiExchangeTxMap` holds `None` for them); `t = k`: the `executions` list is EMPTY.
//!                           Dataset markers then name their exchange: `R` = the traded exchange (needs t < k),
//!                           `R1` / `R2` = U1 / U2; in a `longdata` dataset the marker at `pos` belongs to exchange
//!                           `E[(pos / rp) mod |E|]`, E = [traded (if t < k), U1 .. Ux]. A `strat` that trades a
//!                           tracked instrument is `bad-op` (harness and both drivers). The dataset is ONE stream:
//!                           every observation below covers ALL instruments and ALL exchanges' markers
//!   `cfg x o r u`           (after `tracked`, before the dataset op) SET-UP SHAPE of the backtests: `x` (1..3) TRADED exchanges
//!                           T0 = BinanceSpot, T1 = Bitfinex, T2 = Coinbase, each with its own mock execution link and the
//!                           same initial balances per asset; the `k - t` traded instruments are spread block-wise over
//!                           them (instrument `j` on T(j*x / (k-t)); needs x <= k - t, else the dataset op is `bad-op`);
//!                           `o` = 1: the `executions` list is given in REVERSE exchange-index order; `r` = 1: backtest `b`
//!                           gets risk_free_return 0.05 / 0 / -0.02 (b mod 3), `r` = 2: also every `BacktestArgsDynamic::id`
//!                           is `dup`; `u` bit 0: ONE `Arc<BacktestArgsConstant>` serves every call of the case (all `run`
//!                           ops, concurrent and alone), bit 1: a single backtest goes through `run_backtests` (not
//!                           `backtest`). `own` then also demands the summary's id, risk_free_return and Sharpe / Sortino /
//!                           Calmar ratios to be those of THIS backtest's arguments over its own feed. `R` = marker of T0.
//!                           `run` prints one more line per backtest, `acct b 1`: every account event its engine processed
//!                           comes from its own execution side (see `account_events_own`)
//!
//! Observations of `run` (per backtest `b`):
//!   `seen b ids...`         market stream events processed by b's engine, in order: the id of every Item
//!                           (recording GlobalData) and `R` for every market disconnect notice (recording
//!                           OnDisconnectStrategy writing to the same per-engine log)
//!   `inst b j ids...`       the Items per instrument (recording InstrumentDataState)
//!   `reqs b t:i:s:q@p ...`  order requests b's strategy issued (with the price it read)
//!   `own b 1`               b's summary equals a synchronous replay of b's own observed feed through
//!                           a fresh real Engine (the summary is a function of that engine's feed)
//!   after `longdata` the first three lines are replaced by
//!   `lseen b n=.. items=.. R=.. order=.. dups=.. skipped=.. last=.. h=..`
//!                           digest of the market stream b's engine processed: number of stream events, of
//!                           Items, of markers; `order` = `ok` or the first index at which the processed
//!                           sequence differs from the dataset (also when it merely ends early); a cursor walks
//!                           the dataset: an Item beyond the cursor adds the positions jumped over to `skipped`,
//!                           an Item behind it (a repeat / reordering) or a marker where the dataset has none
//!                           adds 1 to `dups`; positions never reached are added to `skipped` at the end;
//!                           `last` = last dataset position reached; `h` = rolling hash of the CONTENT of every
//!                           event processed (id, instrument, price, side, exchange time; 0 for a marker)
//!   `linst b j n=.. h=.. px=..`   per instrument: number of Items, rolling hash of their ids, last price held
//!   `lreqs b t:i:s:q@p ...` the requests of b's strategy (as `reqs`; the spec states them for long datasets)
//!   `lmark b c0 c1 ..`      (only after `tracked`) disconnect notices processed per exchange: traded, U1, .., Ux
//!   `alone b 1`             seen/inst/reqs AND the summary (realised PnL per instrument, final balances)
//!                           and final positions of the concurrent run equal those of b run alone on
//!                           the same kind of runtime (`0` otherwise, with a `# differs` note)
use barter::{
    EngineEvent,
    backtest::{
        BacktestArgsConstant, BacktestArgsDynamic, backtest,
        market_data::{BacktestMarketData, MarketDataInMemory},
        run_backtests, summary::BacktestSummary,
    },
    engine::{
        Engine, Processor,
        clock::HistoricalClock,
        execution_tx::MultiExchangeTxMap,
        state::{
            EngineState,
            builder::EngineStateBuilder,
            instrument::{
                data::InstrumentDataState, filter::InstrumentFilter,
            },
            order::in_flight_recorder::InFlightRequestRecorder,
            trading::TradingState,
        },
    },
    execution::AccountStreamEvent,
    risk::DefaultRiskManager,
    statistic::time::Daily,
    strategy::{
        algo::AlgoStrategy,
        close_positions::{ClosePositionsStrategy, close_open_positions_with_market_orders},
        on_disconnect::OnDisconnectStrategy,
        on_trading_disabled::OnTradingDisabled,
    },
    system::config::ExecutionConfig,
};
use barter_data::{
    books::{Level, OrderBook},
    event::{DataKind, MarketEvent},
    streams::consumer::MarketStreamEvent,
    subscription::{
        book::{OrderBookEvent, OrderBookL1},
        candle::Candle,
        liquidation::Liquidation,
        trade::PublicTrade,
    },
};
use barter_execution::{
    AccountEvent, AccountEventKind, UnindexedAccountSnapshot,
    balance::{AssetBalance, Balance},
    client::mock::MockExecutionConfig,
    order::{
        OrderKey, OrderKind, TimeInForce,
        id::{ClientOrderId, StrategyId},
        request::{OrderRequestCancel, OrderRequestOpen, RequestOpen},
    },
};
use barter_instrument::{
    Keyed, Side, Underlying,
    asset::{AssetIndex, ExchangeAsset, name::AssetNameExchange},
    exchange::{ExchangeId, ExchangeIndex},
    index::IndexedInstruments,
    instrument::{Instrument, InstrumentIndex},
};
use futures::{StreamExt, stream::BoxStream};
use rust_decimal::Decimal;
use std::sync::{Arc, Mutex};
use vh::{engine_util::time_ms, *};

const EXCHANGE: ExchangeId = ExchangeId::BinanceSpot;
/// exchanges whose instruments are tracked but not traded (`tracked t x`): no `ExecutionConfig` is given for them
const UNTRADED: [ExchangeId; 2] = [ExchangeId::Okx, ExchangeId::Kraken];

/// traded exchanges of a `cfg x ..` case, in `ExchangeIndex` order (`IndexedInstruments` sorts exchanges and instruments:
/// BinanceSpot < Bitfinex < Coinbase < Kraken < Okx); `TRADED[0]` = `EXCHANGE`
const TRADED: [ExchangeId; 3] = [ExchangeId::BinanceSpot, ExchangeId::Bitfinex, ExchangeId::Coinbase];

/// `cfg x o r u`: set-up shape of the backtests of a case (see the header); `Cfg::default()` = the shape of every other case
#[derive(Debug, Clone, Copy, PartialEq, Eq)]
struct Cfg {
    on: bool,
    /// number of TRADED exchanges (each with its own mock execution link)
    x: usize,
    /// `executions` listed in reverse exchange-index order
    rev: bool,
    /// 0: risk_free_return 0, ids `b<b>`; 1: risk_free_return differs per backtest; 2: as 1 and every id is `dup`
    r: u8,
    /// bit 0: ONE `Arc<BacktestArgsConstant>` is shared by every `run_backtests` / `backtest` call of the case;
    /// bit 1: a single backtest goes through `run_backtests` too
    u: u8,
}

impl Default for Cfg {
    fn default() -> Self {
        Cfg { on: false, x: 1, rev: false, r: 0, u: 0 }
    }
}

/// exchange of instrument `j` of `k`: the `k - t` traded instruments are spread block-wise over the `x` traded exchanges
/// (instrument `j` on `TRADED[j * x / (k - t)]`, so that the sorted index order is the instrument order), the last `t` live
/// on the untraded exchanges as `inst_exchange_no` says
fn inst_exchange(j: usize, k: usize, tracked: (usize, usize), x: usize) -> ExchangeId {
    if j < k - tracked.0 { TRADED[j * x / (k - tracked.0)] } else { exchange_of(inst_exchange_no(j, k, tracked)) }
}

/// risk-free return and id of backtest `b` under `cfg .. r ..`
fn rfr_of(cfg: Cfg, b: usize) -> Decimal {
    if cfg.r == 0 { Decimal::ZERO } else { [Decimal::new(5, 2), Decimal::ZERO, Decimal::new(-2, 2)][b % 3] }
}

fn id_of(cfg: Cfg, b: usize) -> String {
    if cfg.r == 2 { "dup".to_string() } else { format!("b{b}") }
}

/// 0 = the traded exchange, 1.. = `UNTRADED`
fn exchange_of(no: u8) -> ExchangeId {
    if no == 0 { EXCHANGE } else { UNTRADED[no as usize - 1] }
}

fn exchange_no(exchange: ExchangeId) -> u8 {
    if exchange == EXCHANGE {
        0
    } else {
        1 + UNTRADED.iter().position(|u| *u == exchange).expect("an exchange of the dataset") as u8
    }
}

/// exchange number of instrument `j` of `k` when the last `t` instruments live on `x` untraded exchanges
fn inst_exchange_no(j: usize, k: usize, (t, x): (usize, usize)) -> u8 {
    if j < k - t { 0 } else { 1 + ((j - (k - t)) % x) as u8 }
}

// ------------------------------------------------------------------ recording state

/// What the engine's `GlobalData` saw, in order.
#[derive(Debug, Clone, PartialEq, Eq)]
enum Rec {
    /// market Item (dataset position)
    M(u32),
    /// market disconnect notice (`MarketStreamEvent::Reconnecting`), seen by `on_disconnect`, with the
    /// number of the exchange it names (0 = the traded exchange, 1 / 2 = tracked-only exchanges U1 / U2)
    R(u8),
    A(String),
}

#[derive(Debug, Clone, Default)]
struct RecGlobal {
    log: Vec<Rec>,
    n_mkt: usize,
    /// raw account events, kept so that the feed can be replayed
    account: Vec<AccountEvent>,
    acc_notices: usize,
    /// rolling hash of the content of every market stream event processed (`lseen .. h=`)
    h: u64,
}

/// rolling hash shared with the Lean driver (`Backtest.mix`): all values stay below 2^53
const HASH_MOD: u64 = 4_294_967_291;
fn mix(h: u64, x: u64) -> u64 {
    (h * 1_000_003 + x + 1) % HASH_MOD
}

/// content of one Item: id (+1, a marker mixes 0), instrument, price, side, exchange time in ms
fn mix_item(h: u64, event: &MarketEvent<InstrumentIndex, DataKind>) -> u64 {
    let price = event_price(event);
    let sell = match &event.kind {
        DataKind::Trade(t) => (t.side == Side::Sell) as u64,
        DataKind::Liquidation(l) => (l.side == Side::Sell) as u64,
        _ => 0,
    };
    let h = mix(h, event_id(event) as u64 + 1);
    let h = mix(h, event.instrument.index() as u64);
    let h = mix(h, price);
    let h = mix(h, sell);
    // exchange time in ms relative to `time_ms(0)`
    // (an exchange time before `time_ms(0)` is legal: reduced into the hash range instead of wrapping around)
    mix(h, (event.time_exchange - time_ms(0)).num_milliseconds().rem_euclid(HASH_MOD as i64) as u64)
}

fn dec_u64(d: Decimal) -> u64 {
    use rust_decimal::prelude::ToPrimitive;
    d.to_u64().expect("integer")
}

/// the dataset position every Item carries, whatever its kind: trade id; amount of the best bid (L1 / order
/// book snapshot / update); trade count (candle); quantity (liquidation)
fn event_id(event: &MarketEvent<InstrumentIndex, DataKind>) -> u32 {
    match &event.kind {
        DataKind::Trade(t) => t.id.parse().expect("trade id = dataset position"),
        DataKind::OrderBookL1(l) => dec_u64(l.best_bid.expect("bid").amount) as u32,
        DataKind::OrderBook(OrderBookEvent::Snapshot(b)) | DataKind::OrderBook(OrderBookEvent::Update(b)) => {
            dec_u64(b.bids().levels()[0].amount) as u32
        }
        DataKind::Candle(c) => c.trade_count as u32,
        DataKind::Liquidation(l) => l.quantity as u32,
    }
}

/// the integer price every Item carries: trade price, best bid price, candle close, liquidation price
fn event_price(event: &MarketEvent<InstrumentIndex, DataKind>) -> u64 {
    match &event.kind {
        DataKind::Trade(t) => t.price as u64,
        DataKind::OrderBookL1(l) => dec_u64(l.best_bid.expect("bid").price),
        DataKind::OrderBook(OrderBookEvent::Snapshot(b)) | DataKind::OrderBook(OrderBookEvent::Update(b)) => {
            dec_u64(b.bids().levels()[0].price)
        }
        DataKind::Candle(c) => c.close as u64,
        DataKind::Liquidation(l) => l.price as u64,
    }
}

impl<'a> Processor<&'a MarketEvent<InstrumentIndex, DataKind>> for RecGlobal {
    type Audit = ();
    fn process(&mut self, event: &'a MarketEvent<InstrumentIndex, DataKind>) {
        self.log.push(Rec::M(event_id(event)));
        self.n_mkt += 1;
        self.h = mix_item(self.h, event);
    }
}

fn account_tag(event: &AccountEvent) -> String {
    match &event.kind {
        AccountEventKind::Snapshot(s) => format!(
            "snap[{}]",
            s.balances
                .iter()
                .map(|b| format!("{}={}", b.asset.index(), fmt_dec(b.balance.total)))
                .collect::<Vec<_>>()
                .join(",")
        ),
        AccountEventKind::BalanceSnapshot(b) => {
            format!("bal[{}={}]", b.0.asset.index(), fmt_dec(b.0.balance.total))
        }
        AccountEventKind::OrderSnapshot(o) => format!(
            "ord[{}:{}]",
            o.0.key.cid.0,
            match &o.0.state {
                barter_execution::order::state::OrderState::Active(_) => "active",
                barter_execution::order::state::OrderState::Inactive(i) => match i {
                    barter_execution::order::state::InactiveOrderState::FullyFilled => "filled",
                    barter_execution::order::state::InactiveOrderState::OpenFailed(_) => "failed",
                    _ => "inactive",
                },
            }
        ),
        AccountEventKind::OrderCancelled(c) => format!("cancel[{}]", c.key.cid.0),
        AccountEventKind::Trade(t) => format!(
            "trade[{}:{}:{}@{}]",
            t.instrument.index(),
            if t.side == Side::Buy { "B" } else { "S" },
            fmt_dec(t.quantity),
            fmt_dec(t.price)
        ),
    }
}

impl<'a> Processor<&'a AccountEvent> for RecGlobal {
    type Audit = ();
    fn process(&mut self, event: &'a AccountEvent) {
        self.log.push(Rec::A(account_tag(event)));
        self.account.push(event.clone());
    }
}

#[derive(Debug, Clone, Default)]
struct RecInstr {
    seen: Vec<u32>,
    price: Option<Decimal>,
}

impl InstrumentDataState for RecInstr {
    type MarketEventKind = DataKind;
    fn price(&self) -> Option<Decimal> {
        self.price
    }
}

impl<'a> Processor<&'a MarketEvent<InstrumentIndex, DataKind>> for RecInstr {
    type Audit = ();
    fn process(&mut self, event: &'a MarketEvent<InstrumentIndex, DataKind>) {
        self.seen.push(event_id(event));
        self.price = Some(Decimal::from(event_price(event)));
    }
}

impl<'a> Processor<&'a AccountEvent> for RecInstr {
    type Audit = ();
    fn process(&mut self, _: &'a AccountEvent) {}
}

impl InFlightRequestRecorder for RecInstr {
    fn record_in_flight_cancel(&mut self, _: &OrderRequestCancel<ExchangeIndex, InstrumentIndex>) {}
    fn record_in_flight_open(&mut self, _: &OrderRequestOpen<ExchangeIndex, InstrumentIndex>) {}
}

type State = EngineState<RecGlobal, RecInstr>;

// ------------------------------------------------------------------ strategy

#[derive(Debug, Clone, PartialEq, Eq)]
struct PlanItem {
    trigger: usize,
    inst: usize,
    side: Side,
    qty: Decimal,
    text: String,
}

/// What a backtest's engine state looked like the last time its strategy was consulted (= after the
/// last non-Shutdown event, since trading is enabled throughout).
#[derive(Debug, Default, Clone)]
struct Sink {
    log: Vec<Rec>,
    account: Vec<AccountEvent>,
    inst: Vec<Vec<u32>>,
    reqs: Vec<String>,
    positions: Vec<String>,
    balances: Vec<String>,
    /// content hash of the market stream (`RecGlobal::h`) and last price per instrument
    h: u64,
    px: Vec<Option<Decimal>>,
}

/// Decisions depend only on the number of market events processed and on market prices: never on
/// account events nor on their position in the feed.
#[derive(Debug)]
struct PlanStrategy {
    id: StrategyId,
    plan: Vec<PlanItem>,
    next: Mutex<usize>,
    sink: Arc<Mutex<Sink>>,
}

impl PlanStrategy {
    fn new(plan: Vec<PlanItem>, sink: Arc<Mutex<Sink>>) -> Self {
        Self {
            id: StrategyId::new("plan"),
            plan,
            next: Mutex::new(0),
            sink,
        }
    }
}

fn snapshot_positions(state: &State) -> Vec<String> {
    state
        .instruments
        .0
        .values()
        .map(|s| match &s.position.current {
            None => "0".to_string(),
            Some(p) => format!(
                "{}{}",
                if p.side == Side::Buy { "" } else { "-" },
                fmt_dec(p.quantity_abs)
            ),
        })
        .collect()
}

fn snapshot_balances(state: &State) -> Vec<String> {
    state
        .assets
        .0
        .values()
        .map(|s| match &s.balance {
            Some(b) => fmt_dec(b.value.total),
            None => "none".into(),
        })
        .collect()
}

impl AlgoStrategy for PlanStrategy {
    type State = State;
    fn generate_algo_orders(
        &self,
        state: &Self::State,
    ) -> (
        impl IntoIterator<Item = OrderRequestCancel<ExchangeIndex, InstrumentIndex>>,
        impl IntoIterator<Item = OrderRequestOpen<ExchangeIndex, InstrumentIndex>>,
    ) {
        let mut opens = Vec::new();
        let mut sink = self.sink.lock().unwrap();
        let mut next = self.next.lock().unwrap();
        while *next < self.plan.len() && self.plan[*next].trigger <= state.global.n_mkt {
            let item = &self.plan[*next];
            let Some(price) = state
                .instruments
                .instrument_index(&InstrumentIndex(item.inst))
                .data
                .price
            else {
                break;
            };
            sink.reqs.push(format!("{}@{}", item.text, fmt_dec(price)));
            opens.push(OrderRequestOpen {
                key: OrderKey {
                    // the exchange of the instrument (index 0 unless `cfg x ..` spreads the traded instruments)
                    exchange: state.instruments.instrument_index(&InstrumentIndex(item.inst)).instrument.exchange,
                    instrument: InstrumentIndex(item.inst),
                    strategy: self.id.clone(),
                    cid: ClientOrderId::new(format!("c{}", *next)),
                },
                state: RequestOpen {
                    side: item.side,
                    price,
                    quantity: item.qty,
                    kind: OrderKind::Market,
                    time_in_force: TimeInForce::ImmediateOrCancel,
                },
            });
            *next += 1;
        }
        // record what this engine has seen so far
        let have = sink.log.len();
        sink.log.extend_from_slice(&state.global.log[have..]);
        let have = sink.account.len();
        sink.account.extend_from_slice(&state.global.account[have..]);
        if sink.inst.is_empty() {
            sink.inst = vec![vec![]; state.instruments.0.len()];
        }
        for (j, s) in state.instruments.0.values().enumerate() {
            let have = sink.inst[j].len();
            sink.inst[j].extend_from_slice(&s.data.seen[have..]);
        }
        sink.positions = snapshot_positions(state);
        sink.balances = snapshot_balances(state);
        sink.h = state.global.h;
        sink.px = state.instruments.0.values().map(|s| s.data.price).collect();
        (std::iter::empty(), opens)
    }
}

impl ClosePositionsStrategy for PlanStrategy {
    type State = State;
    fn close_positions_requests<'a>(
        &'a self,
        state: &'a Self::State,
        filter: &'a InstrumentFilter<ExchangeIndex, AssetIndex, InstrumentIndex>,
    ) -> (
        impl IntoIterator<Item = OrderRequestCancel<ExchangeIndex, InstrumentIndex>> + 'a,
        impl IntoIterator<Item = OrderRequestOpen<ExchangeIndex, InstrumentIndex>> + 'a,
    )
    where
        ExchangeIndex: 'a,
        AssetIndex: 'a,
        InstrumentIndex: 'a,
    {
        close_open_positions_with_market_orders(&self.id, state, filter, |state| {
            ClientOrderId::new(format!("x{}", state.key.index()))
        })
    }
}

impl<Clock, Txs, Risk> OnDisconnectStrategy<Clock, State, Txs, Risk> for PlanStrategy {
    type OnDisconnect = ();
    fn on_disconnect(engine: &mut Engine<Clock, State, Txs, Self, Risk>, exchange: ExchangeId) {
        // the engine has just marked the link that dropped (engine/mod.rs:263-315): a market notice
        // leaves market_data Reconnecting; anything else is an account-stream notice
        let market = engine.state.connectivity.connectivity(&exchange).market_data
            == barter::engine::state::connectivity::Health::Reconnecting;
        if market {
            engine.state.global.log.push(Rec::R(exchange_no(exchange)));
            engine.state.global.h = mix(engine.state.global.h, 0);
        } else {
            engine.state.global.log.push(Rec::A("acc-reconnecting".into()));
            engine.state.global.acc_notices += 1;
        }
    }
}

impl<Clock, Txs, Risk> OnTradingDisabled<Clock, State, Txs, Risk> for PlanStrategy {
    type OnTradingDisabled = ();
    fn on_trading_disabled(_: &mut Engine<Clock, State, Txs, Self, Risk>) {}
}

// ------------------------------------------------------------------ set-up

struct Setup {
    instruments: IndexedInstruments,
    events: Arc<Vec<MarketStreamEvent<InstrumentIndex, DataKind>>>,
    n_events: usize,
    plans: Vec<Vec<PlanItem>>,
    latency_ms: u64,
    /// `data_slow`: tokio-time gap before every event of the stream
    gap_ms: Option<u64>,
    /// `longdata`: observations of `run` are digests
    long: bool,
    /// `tracked t x`: the last `t` instruments live on `x` exchanges without an execution link ((0, 0): none)
    tracked: (usize, usize),
    /// `cfg x o r u`
    cfg: Cfg,
}

/// The data source handed to `backtest()`: the repo's `MarketDataInMemory` (clock from its `new`,
/// stream from its `stream()`), or - for `data_slow` - the same events served by an async stream
/// that sleeps `gap` of tokio time before each one (a legal custom `BacktestMarketData`).
#[derive(Debug, Clone)]
struct PacedData {
    inner: MarketDataInMemory<DataKind>,
    events: Arc<Vec<MarketStreamEvent<InstrumentIndex, DataKind>>>,
    gap_ms: Option<u64>,
}

impl BacktestMarketData for PacedData {
    type Kind = DataKind;

    async fn time_first_event(&self) -> Result<chrono::DateTime<chrono::Utc>, barter::error::BarterError> {
        self.inner.time_first_event().await
    }

    async fn stream(
        &self,
    ) -> Result<
        impl futures::Stream<Item = MarketStreamEvent<InstrumentIndex, DataKind>> + Send + 'static,
        barter::error::BarterError,
    > {
        let stream: BoxStream<'static, MarketStreamEvent<InstrumentIndex, DataKind>> = match self.gap_ms {
            None => self.inner.stream().await?.boxed(),
            Some(gap) => {
                let events = Arc::clone(&self.events);
                futures::stream::iter(0..events.len())
                    .then(move |index| {
                        let events = Arc::clone(&events);
                        async move {
                            tokio::time::sleep(std::time::Duration::from_millis(gap)).await;
                            events[index].clone()
                        }
                    })
                    .boxed()
            }
        };
        Ok(stream)
    }
}

fn asset_name(j: usize) -> String {
    format!("a{j}")
}

fn build_instruments(k: usize, tracked: (usize, usize), x: usize) -> IndexedInstruments {
    let mut builder = IndexedInstruments::builder();
    for j in 0..k {
        let exchange = inst_exchange(j, k, tracked, x);
        builder = builder.add_instrument(Instrument::spot(
            exchange,
            format!("{}_{}_usdt", exchange.as_str(), asset_name(j)),
            format!("{}USDT", asset_name(j).to_uppercase()),
            Underlying::new(asset_name(j), "usdt".to_string()),
            None,
        ));
    }
    let built = builder.build();
    if x > 1 {
        // the harness addresses instrument `j` as `InstrumentIndex(j)`: the sorted index must keep the traded ones in place
        for j in 0..k - tracked.0 {
            let i = &built.instruments()[j].value;
            assert!(i.exchange.value == inst_exchange(j, k, tracked, x) && i.name_exchange.name().as_str() == format!("{}USDT", asset_name(j).to_uppercase()), "instrument order");
        }
    }
    built
}

fn initial_balances(instruments: &IndexedInstruments) -> Vec<(String, Decimal)> {
    instruments
        .assets()
        .iter()
        .map(|a| {
            let name = a.value.asset.name_exchange.as_ref().to_string();
            let amount = if name == "usdt" { Decimal::from(100_000) } else { Decimal::from(100) };
            (name, amount)
        })
        .collect()
}

fn args_constant(
    s: &Setup,
) -> Arc<BacktestArgsConstant<PacedData, Daily, State>> {
    let balances = initial_balances(&s.instruments);
    // an execution link (mock exchange) for the traded exchange only: instruments of `UNTRADED` exchanges are tracked,
    // not traded; when every instrument is tracked the `executions` list is empty
    let traded = s.instruments.exchanges().iter().any(|e| e.value == EXCHANGE);
    let mock = |exchange: ExchangeId| ExecutionConfig::Mock(MockExecutionConfig {
        mocked_exchange: exchange,
        initial_state: UnindexedAccountSnapshot {
            exchange,
            balances: s.instruments.assets().iter().zip(balances.iter())
                .filter(|(a, _)| a.value.exchange == exchange)
                .map(|(_, b)| b)
                .map(|(name, amount)| AssetBalance {
                    asset: AssetNameExchange::new(name.clone()),
                    balance: Balance::new(*amount, *amount),
                    time_exchange: time_ms(0),
                })
                .collect(),
            instruments: vec![],
        },
        latency_ms: s.latency_ms,
        fees_percent: Decimal::ZERO,
    });
    // one mock link per traded exchange (`cfg x ..`: x of them), listed in exchange-index order or (`cfg . 1 ..`) reversed
    let mut executions: Vec<ExecutionConfig> = if !traded { vec![] } else { TRADED[..s.cfg.x].iter().map(|e| mock(*e)).collect() };
    if s.cfg.rev {
        executions.reverse();
    }
    let engine_state = EngineStateBuilder::new(&s.instruments, RecGlobal::default(), RecInstr::default)
        .time_engine_start(time_ms(0))
        .trading_state(TradingState::Enabled)
        .balances(s.instruments.assets().iter().zip(balances.iter()).map(
            |(a, (_, amount))| {
                Keyed::new(
                    ExchangeAsset::new(a.value.exchange, a.value.asset.name_internal.clone()),
                    Balance::new(*amount, *amount),
                )
            },
        ))
        .build();
    Arc::new(BacktestArgsConstant {
        instruments: s.instruments.clone(),
        executions,
        market_data: PacedData {
            inner: MarketDataInMemory::new(Arc::clone(&s.events)),
            events: Arc::clone(&s.events),
            gap_ms: s.gap_ms,
        },
        summary_interval: Daily,
        engine_state,
    })
}

fn dynamic(
    s: &Setup,
    b: usize,
    sink: Arc<Mutex<Sink>>,
) -> BacktestArgsDynamic<PlanStrategy, DefaultRiskManager<State>> {
    BacktestArgsDynamic {
        id: smol_str::SmolStr::new(id_of(s.cfg, b)),
        risk_free_return: rfr_of(s.cfg, b),
        strategy: PlanStrategy::new(s.plans[b % s.plans.len()].clone(), sink),
        risk: DefaultRiskManager::default(),
    }
}

fn runtime(workers: usize, paused: bool) -> tokio::runtime::Runtime {
    if paused {
        // virtual time: the clock auto-advances whenever every task is idle
        tokio::runtime::Builder::new_current_thread()
            .enable_all()
            .start_paused(true)
            .build()
            .unwrap()
    } else if workers == 0 {
        tokio::runtime::Builder::new_current_thread()
            .enable_all()
            .build()
            .unwrap()
    } else {
        tokio::runtime::Builder::new_multi_thread()
            .worker_threads(workers)
            .enable_all()
            .build()
            .unwrap()
    }
}

/// canonical text of what the property constrains in a summary: realised PnL per instrument and the
/// final balance per asset
fn summary_text(s: &BacktestSummary<Daily>) -> String {
    let pnl = s
        .trading_summary
        .instruments
        .values()
        .map(|t| fmt_dec(t.pnl))
        .collect::<Vec<_>>()
        .join(",");
    let bal = s
        .trading_summary
        .assets
        .values()
        .map(|t| match &t.balance_end {
            Some(b) => fmt_dec(b.total),
            None => "none".into(),
        })
        .collect::<Vec<_>>()
        .join(",");
    format!("pnl[{pnl}] bal[{bal}]")
}

/// the figures of a summary that depend on the risk-free return: Sharpe / Sortino / Calmar ratio per instrument
fn ratios_text(s: &BacktestSummary<Daily>) -> String {
    s.trading_summary
        .instruments
        .values()
        .map(|t| format!("{}/{}/{}", t.sharpe_ratio.value, t.sortino_ratio.value, t.calmar_ratio.value))
        .collect::<Vec<_>>()
        .join(",")
}

/// Replays a feed observed by a backtest's engine (market ids + account events, in the observed
/// order) synchronously through a fresh real Engine built from the same shared arguments, and
/// returns the summary text and final positions.
fn replay_feed(s: &Setup, sink: &Sink, rfr: Decimal) -> (String, Vec<String>, Vec<String>, String) {
    let constant = args_constant(s);
    let replay_sink = Arc::new(Mutex::new(Sink::default()));
    // the strategy's requests go to a channel nobody serves: only the engine-side state matters
    let (execution_txs, _rxs): (MultiExchangeTxMap, Vec<_>) = {
        let (tx, rx) = barter_integration::channel::mpsc_unbounded();
        (
            MultiExchangeTxMap::from_iter(
                s.instruments.exchanges().iter().map(|e| (e.value, TRADED.contains(&e.value).then(|| tx.clone()))),
            ),
            vec![rx],
        )
    };
    let mut engine = Engine::new(
        HistoricalClock::new(time_ms(0)),
        constant.engine_state.clone(),
        execution_txs,
        PlanStrategy::new(vec![], replay_sink),
        DefaultRiskManager::<State>::default(),
    );
    let mut acc = sink.account.iter();
    for rec in &sink.log {
        let event: EngineEvent<DataKind> = match rec {
            Rec::M(id) => EngineEvent::Market(s.events[*id as usize].clone()),
            Rec::R(e) => EngineEvent::Market(MarketStreamEvent::Reconnecting(exchange_of(*e))),
            Rec::A(tag) if tag == "acc-reconnecting" => {
                EngineEvent::Account(AccountStreamEvent::Reconnecting(EXCHANGE))
            }
            Rec::A(_) => EngineEvent::Account(AccountStreamEvent::Item(
                acc.next().expect("one raw account event per tag").clone(),
            )),
        };
        let _ = engine.process(event);
    }
    let summary = BacktestSummary {
        id: "replay".into(),
        risk_free_return: rfr,
        trading_summary: engine
            .trading_summary_generator(rfr)
            .generate(Daily),
    };
    (
        summary_text(&summary),
        snapshot_positions(&engine.state),
        snapshot_balances(&engine.state),
        ratios_text(&summary),
    )
}

/// `acct b 1` (after `cfg`): every account event the engine processed is one of THIS backtest's own execution side -
/// each initial snapshot is that of a configured traded exchange (its assets, its configured balances), every fill is the
/// fill of one of the strategy's own requests (instrument, side, quantity, price), and no affordable request (quantity
/// below 5000: the balances never run out) came back as failed. Which of them were processed before `Shutdown` is the
/// scheduler's (known finding); that none is foreign or misrouted is not.
fn account_events_own(s: &Setup, sink: &Sink) -> bool {
    let balances = initial_balances(&s.instruments);
    let mut expected_snaps: Vec<Vec<String>> = TRADED[..s.cfg.x]
        .iter()
        .map(|e| {
            let mut v: Vec<String> = s.instruments.assets().iter().zip(balances.iter())
                .filter(|(a, _)| a.value.exchange == *e)
                .map(|(a, (_, amount))| format!("{}={}", a.key.index(), fmt_dec(*amount)))
                .collect();
            v.sort();
            v
        })
        .collect();
    // requests not yet matched by a fill: `i:s:q@p`
    let mut open: Vec<String> = sink.reqs.iter().map(|r| r.split_once(':').map(|(_, rest)| rest.to_string()).unwrap_or_default()).collect();
    for tag in account_tags(&sink.log) {
        if let Some(body) = tag.strip_prefix("snap[").and_then(|t| t.strip_suffix(']')) {
            let mut v: Vec<String> = body.split(',').filter(|t| !t.is_empty()).map(|t| t.to_string()).collect();
            v.sort();
            match expected_snaps.iter().position(|e| *e == v) {
                Some(i) => {
                    expected_snaps.swap_remove(i);
                }
                None => return false,
            }
        } else if let Some(body) = tag.strip_prefix("trade[").and_then(|t| t.strip_suffix(']')) {
            match open.iter().position(|r| r == body) {
                Some(i) => {
                    open.swap_remove(i);
                }
                None => return false,
            }
        } else if let Some(body) = tag.strip_prefix("ord[c").and_then(|t| t.strip_suffix(']')) {
            let Some((n, state)) = body.split_once(':') else { return false };
            let Some(req) = n.parse::<usize>().ok().and_then(|n| sink.reqs.get(n)) else { return false };
            let qty: u64 = req.split('@').next().and_then(|r| r.rsplit(':').next()).and_then(|q| q.parse().ok()).unwrap_or(0);
            if state != "filled" && state != "active" && qty < 5000 {
                return false;
            }
        } else if tag == "acc-reconnecting" || tag.starts_with("cancel[") {
            return false;
        }
    }
    true
}

/// Are the single-asset balance notices of a run's feed those its OWN execution side sends for its OWN requests?
/// The mock exchange works a backtest's requests off in request order, debits the quote asset of a funded buy
/// (`q * p`, fees are 0 here) or the base asset of a funded sell (`q`) and announces that asset's new total: the
/// legitimate `bal[asset=total]` tags are therefore a function of the request list. A balance moved by ANOTHER
/// backtest's fill (a shared ledger) is not among them.
fn balance_events_own(s: &Setup, sink: &Sink) -> bool {
    let mut totals: Vec<Decimal> = initial_balances(&s.instruments).into_iter().map(|(_, a)| a).collect();
    let mut legit: Vec<String> = Vec::new();
    for r in &sink.reqs {
        // `t:i:s:q@p`
        let Some((_, rest)) = r.split_once(':') else { return false };
        let Some((head, price)) = rest.split_once('@') else { return false };
        let parts: Vec<&str> = head.split(':').collect();
        if parts.len() != 3 {
            return false;
        }
        let (Ok(i), Ok(q), Ok(p)) = (parts[0].parse::<usize>(), parts[2].parse::<Decimal>(), price.parse::<Decimal>()) else { return false };
        let Some(inst) = s.instruments.instruments().get(i) else { return false };
        let (asset, cost) = if parts[1] == "B" { (inst.value.underlying.quote.index(), q * p) } else { (inst.value.underlying.base.index(), q) };
        let Some(total) = totals.get_mut(asset) else { return false };
        if *total >= cost {
            *total -= cost;
            legit.push(format!("bal[{}={}]", asset, fmt_dec(*total)));
        }
    }
    for tag in account_tags(&sink.log) {
        if tag.starts_with("bal[") {
            match legit.iter().position(|t| *t == tag) {
                Some(i) => {
                    legit.swap_remove(i);
                }
                None => return false,
            }
        }
    }
    true
}

fn ids(v: &[u32]) -> String {
    v.iter().map(|x| x.to_string()).collect::<Vec<_>>().join(" ")
}

/// the market stream events of a log: item ids and `R` markers, in order
fn market_ids(log: &[Rec]) -> Vec<String> {
    log.iter()
        .filter_map(|r| match r {
            Rec::M(i) => Some(i.to_string()),
            Rec::R(0) => Some("R".to_string()),
            Rec::R(e) => Some(format!("R{e}")),
            Rec::A(_) => None,
        })
        .collect()
}

fn account_tags(log: &[Rec]) -> Vec<String> {
    log.iter()
        .filter_map(|r| match r {
            Rec::A(t) => Some(t.clone()),
            _ => None,
        })
        .collect()
}

/// the market stream events of a log (Items and markers), in order
fn market_recs(log: &[Rec]) -> Vec<Rec> {
    log.iter().filter(|r| !matches!(r, Rec::A(_))).cloned().collect()
}

/// One event of a `longdata n k rp ro pm tm` dataset: a function of its position alone (the Lean driver's
/// `Backtest.genEv` is the same formula).
fn long_event(pos: usize, k: usize, rp: usize, ro: usize, pm: usize, tm: usize, tracked: (usize, usize), x: usize) -> MarketStreamEvent<InstrumentIndex, DataKind> {
    if rp > 0 && pos % rp == ro {
        // the exchanges of the dataset: the traded one (if it has an instrument), then U1 .. Ux; markers take turns
        let first = if tracked.0 < k { 0 } else { 1 };
        let n_exchanges = tracked.1 + 1 - first;
        return MarketStreamEvent::Reconnecting(exchange_of((first + (pos / rp) % n_exchanges) as u8));
    }
    let inst = (pos + pos / 3) % k;
    let price = 50 + 50 * inst + pos % pm;
    let te = time_ms((1 + pos * tm) as i64);
    MarketStreamEvent::Item(MarketEvent {
        time_exchange: te,
        time_received: te,
        exchange: inst_exchange(inst, k, tracked, x),
        instrument: InstrumentIndex(inst),
        kind: DataKind::Trade(PublicTrade {
            id: pos.to_string(),
            price: price as f64,
            amount: 1.0,
            side: if pos % 3 == 1 { Side::Sell } else { Side::Buy },
        }),
    })
}

/// `lseen` digest of the market stream an engine processed, relative to the dataset (see the header).
fn long_seen_digest(events: &[MarketStreamEvent<InstrumentIndex, DataKind>], log: &[Rec], h: u64) -> String {
    let n = events.len();
    let is_marker = |pos: usize| pos < n && matches!(events[pos], MarketStreamEvent::Reconnecting(_));
    let (mut cnt, mut items, mut markers) = (0usize, 0usize, 0usize);
    let (mut expect, mut dups, mut skipped) = (0usize, 0usize, 0usize);
    let mut first_bad: Option<usize> = None;
    for rec in log {
        let tok: Option<usize> = match rec {
            Rec::M(id) => Some(*id as usize),
            Rec::R(_) => None,
            Rec::A(_) => continue,
        };
        // the dataset's element at this index of the stream
        let same = cnt < n && (if is_marker(cnt) { tok.is_none() } else { tok == Some(cnt) });
        if !same && first_bad.is_none() {
            first_bad = Some(cnt);
        }
        match tok {
            Some(id) => {
                items += 1;
                if id >= expect {
                    skipped += id - expect;
                    expect = id + 1;
                } else {
                    dups += 1;
                }
            }
            None => {
                markers += 1;
                if is_marker(expect) {
                    expect += 1;
                } else {
                    dups += 1;
                }
            }
        }
        cnt += 1;
    }
    if first_bad.is_none() && cnt < n {
        first_bad = Some(cnt);
    }
    let last = if expect == 0 { "-".to_string() } else { (expect - 1).to_string() };
    if expect < n {
        skipped += n - expect;
    }
    format!(
        "n={cnt} items={items} R={markers} order={} dups={dups} skipped={skipped} last={last} h={h}",
        first_bad.map(|i| i.to_string()).unwrap_or_else(|| "ok".into())
    )
}

struct RunResult {
    sinks: Vec<Sink>,
    summaries: Vec<String>,
    /// `BacktestSummary::id` of each returned summary, in the order returned
    ids: Vec<String>,
    /// `BacktestSummary::risk_free_return` and the ratios computed with it
    rfrs: Vec<Decimal>,
    ratios: Vec<String>,
}

type Constant = Arc<BacktestArgsConstant<PacedData, Daily, State>>;

fn run_concurrent(s: &Setup, bs: &[usize], workers: usize) -> RunResult {
    run_concurrent_with(s, bs, workers, None)
}

/// `shared`: the `Arc`'d constant arguments of an earlier call, used again (`cfg .. u` bit 0)
fn run_concurrent_with(s: &Setup, bs: &[usize], workers: usize, shared: Option<&Constant>) -> RunResult {
    let constant = match shared {
        Some(c) => Arc::clone(c),
        None => args_constant(s),
    };
    let single_through_batch = s.cfg.u & 2 != 0;
    let sinks: Vec<Arc<Mutex<Sink>>> = bs.iter().map(|_| Arc::new(Mutex::new(Sink::default()))).collect();
    let dynamics: Vec<_> = bs
        .iter()
        .zip(&sinks)
        .map(|(b, sink)| dynamic(s, *b, Arc::clone(sink)))
        .collect();
    let rt = runtime(workers, s.gap_ms.is_some());
    let multi = rt
        .block_on(async move {
            if dynamics.len() == 1 && !single_through_batch {
                // the single-backtest entry point
                let d = dynamics.into_iter().next().unwrap();
                backtest(constant, d).await.map(|s| vec![s])
            } else {
                run_backtests(constant, dynamics).await.map(|m| m.summaries)
            }
        })
        .expect("backtest failed");
    rt.shutdown_background();
    RunResult {
        sinks: sinks.iter().map(|s| s.lock().unwrap().clone()).collect(),
        summaries: multi.iter().map(summary_text).collect(),
        ids: multi.iter().map(|m| m.id.to_string()).collect(),
        rfrs: multi.iter().map(|m| m.risk_free_return).collect(),
        ratios: multi.iter().map(ratios_text).collect(),
    }
}

fn parse_plan(tok: &[String]) -> Vec<PlanItem> {
    if tok.len() == 1 && tok[0] == "-" {
        return vec![];
    }
    let mut plan: Vec<PlanItem> = tok
        .iter()
        .map(|t| {
            let p: Vec<&str> = t.split(':').collect();
            assert_eq!(p.len(), 4, "plan item t:i:s:q");
            PlanItem {
                trigger: p[0].parse().unwrap(),
                inst: p[1].parse().unwrap(),
                side: match p[2] {
                    "B" => Side::Buy,
                    "S" => Side::Sell,
                    o => panic!("bad side {o}"),
                },
                qty: parse_dec(p[3]),
                text: t.clone(),
            }
        })
        .collect();
    plan.sort_by_key(|p| p.trigger);
    plan
}

fn run() {
    let verbose = std::env::var("C20_VERBOSE").is_ok();
    run_cases(|case, lines| {
        let mut setup: Option<Setup> = None;
        let mut tracked: (usize, usize) = (0, 0);
        let mut cfg = Cfg::default();
        // `cfg .. u` bit 0: the constant arguments every call of the case shares (built at the first `run`)
        let mut shared: Option<Constant> = None;
        for op in &case.ops {
            lines.push("@".into());
            match op[0].as_str() {
                "cfg" => {
                    // (after `tracked`, before the dataset op) the set-up shape of the backtests
                    setup = None;
                    shared = None;
                    let v: Vec<usize> = op[1..].iter().filter_map(|t| t.parse().ok()).collect();
                    if op.len() != 5 || v.len() != 4 || v[0] < 1 || v[0] > TRADED.len() || v[1] > 1 || v[2] > 2 || v[3] > 3 {
                        cfg = Cfg::default();
                        lines.push("bad-op".into());
                        continue;
                    }
                    cfg = Cfg { on: true, x: v[0], rev: v[1] == 1, r: v[2] as u8, u: v[3] as u8 };
                    lines.push(format!("cfg {} {} {} {}", v[0], v[1], v[2], v[3]));
                }
                "tracked" => {
                    setup = None;
                    shared = None;
                    cfg = Cfg::default();
                    let v: Vec<usize> = op[1..].iter().filter_map(|t| t.parse().ok()).collect();
                    if op.len() != 3 || v.len() != 2 || v[0] < 1 || v[1] < 1 || v[1] > v[0] || v[1] > UNTRADED.len() {
                        tracked = (0, 0);
                        lines.push("bad-op".into());
                        continue;
                    }
                    tracked = (v[0], v[1]);
                    lines.push(format!("tracked {} {}", v[0], v[1]));
                }
                "data" | "data_slow" => {
                    let slow = op[0] == "data_slow";
                    let gap_ms: Option<u64> = slow.then(|| op[1].parse().unwrap());
                    let op = if slow { &op[1..] } else { &op[..] };
                    let k: usize = op[1].parse().unwrap();
                    let latency_ms: u64 = 0;
                    // `tracked t x` needs t <= k; a marker must name an exchange of the dataset
                    let marker_no = |t: &str| -> Option<u8> {
                        match t {
                            "R" => Some(0),
                            "R1" => Some(1),
                            "R2" => Some(2),
                            _ => None,
                        }
                    };
                    shared = None;
                    if tracked.0 > k
                        || (cfg.on && cfg.x > k - tracked.0)
                        || op[2..].iter().filter_map(|t| marker_no(t)).any(|e| if e == 0 { tracked.0 == k && k > 0 } else { e as usize > tracked.1 })
                    {
                        setup = None;
                        lines.push("bad-op".into());
                        continue;
                    }
                    let instruments = build_instruments(k, tracked, cfg.x);
                    let events: Vec<_> = op[2..]
                        .iter()
                        .enumerate()
                        .map(|(pos, t)| {
                            if let Some(e) = marker_no(t) {
                                return MarketStreamEvent::Reconnecting(exchange_of(e));
                            }
                            // `i:p` (exchange time = position in the dataset) or `i:p@t`: an explicit
                            // exchange time in ms, which need not increase along the dataset (recordings
                            // ordered by time received, late trades): the dataset order is what counts
                            let (t, at) = match t.split_once('@') {
                                Some((t, at)) => (t, Some(at.parse::<i64>().expect("time"))),
                                None => (t.as_str(), None),
                            };
                            let (i, p) = t.split_once(':').expect("i:p or R");
                            // `i:p:K`: the KIND of the Item (every variant of `DataKind` is a legal dataset element):
                            // `s` trade, sell side; `z` trade of amount 0; `l` OrderBookL1; `b` / `u` order book
                            // snapshot / update; `c` candle; `q` liquidation. All carry the position and the price
                            let (p, kind) = match p.split_once(':') {
                                Some((p, kind)) => (p, kind),
                                None => (p, "t"),
                            };
                            let i: usize = i.parse().unwrap();
                            assert!(i < k, "instrument out of range");
                            let p: u32 = p.parse().unwrap();
                            let te = time_ms(at.unwrap_or(pos as i64 + 1));
                            let book = || OrderBook::new(pos as u64, Some(te), [Level::new(Decimal::from(p), Decimal::from(pos as u64))], [Level::new(Decimal::from(p + 1), Decimal::ONE)]);
                            let kind = match kind {
                                "t" | "s" | "z" => DataKind::Trade(PublicTrade {
                                    id: pos.to_string(),
                                    price: p as f64,
                                    amount: if kind == "z" { 0.0 } else { 1.0 },
                                    side: if kind == "s" { Side::Sell } else { Side::Buy },
                                }),
                                "l" => DataKind::OrderBookL1(OrderBookL1 {
                                    last_update_time: te,
                                    best_bid: Some(Level::new(Decimal::from(p), Decimal::from(pos as u64))),
                                    best_ask: None,
                                }),
                                "b" => DataKind::OrderBook(OrderBookEvent::Snapshot(book())),
                                "u" => DataKind::OrderBook(OrderBookEvent::Update(book())),
                                "c" => DataKind::Candle(Candle {
                                    close_time: te,
                                    open: p as f64,
                                    high: p as f64 + 1.0,
                                    low: 0.0,
                                    close: p as f64,
                                    volume: 0.0,
                                    trade_count: pos as u64,
                                }),
                                "q" => DataKind::Liquidation(Liquidation {
                                    side: Side::Sell,
                                    price: p as f64,
                                    quantity: pos as f64,
                                    time: te,
                                }),
                                other => panic!("bad kind {other}"),
                            };
                            MarketStreamEvent::Item(MarketEvent {
                                time_exchange: te,
                                time_received: te,
                                exchange: inst_exchange(i, k, tracked, cfg.x),
                                instrument: InstrumentIndex(i),
                                kind,
                            })
                        })
                        .collect();
                    lines.push(format!("data {} {}", k, events.len()));
                    setup = Some(Setup {
                        instruments,
                        n_events: events.len(),
                        events: Arc::new(events),
                        plans: vec![],
                        latency_ms,
                        gap_ms,
                        long: false,
                        tracked,
                        cfg,
                    });
                }
                "longdata" => {
                    assert_eq!(op.len(), 7, "longdata n k rp ro pm tm");
                    let v: Vec<usize> = op[1..].iter().map(|t| t.parse().expect("number")).collect();
                    let (n, k, rp, ro, pm, tm) = (v[0], v[1], v[2], v[3], v[4], v[5]);
                    assert!(n >= 1 && k >= 1 && pm >= 1 && (rp == 0 || ro < rp), "longdata parameters");
                    shared = None;
                    if tracked.0 > k || (cfg.on && cfg.x > k - tracked.0) {
                        setup = None;
                        lines.push("bad-op".into());
                        continue;
                    }
                    let events: Vec<_> = (0..n).map(|pos| long_event(pos, k, rp, ro, pm, tm, tracked, cfg.x)).collect();
                    lines.push(format!("longdata {} {}", k, events.len()));
                    setup = Some(Setup {
                        instruments: build_instruments(k, tracked, cfg.x),
                        n_events: events.len(),
                        events: Arc::new(events),
                        plans: vec![],
                        latency_ms: 0,
                        gap_ms: None,
                        long: true,
                        tracked,
                        cfg,
                    });
                }
                "strat" => {
                    let s = setup.as_mut().expect("data first");
                    let plan = parse_plan(&op[1..]);
                    // a request for an instrument of an exchange without execution link is another error path of the
                    // engine (not this property): such a plan is refused by harness and drivers alike
                    let n_traded = s.instruments.instruments().len() - s.tracked.0;
                    if s.tracked.0 > 0 && plan.iter().any(|item| item.inst >= n_traded) {
                        lines.push("bad-op".into());
                        continue;
                    }
                    s.plans.push(plan);
                    lines.push(format!("strat {}", s.plans.len() - 1));
                }
                // a large parameter sweep: `n` backtests through one `run_backtests` call; observed in
                // aggregate (one summary per request, in request order; every engine saw the whole dataset)
                "sweep" => {
                    let s = setup.as_ref().expect("data first");
                    assert!(!s.plans.is_empty(), "strat first");
                    let n: usize = op[1].parse().unwrap();
                    let w: usize = op[2].parse().unwrap();
                    let bs: Vec<usize> = (0..n).collect();
                    let conc = run_concurrent(s, &bs, w);
                    lines.push(format!("sweep_n {}", conc.summaries.len()));
                    let in_order = conc.ids.len() == n && conc.ids.iter().enumerate().all(|(b, id)| *id == format!("b{b}"));
                    lines.push(format!("sweep_ids {}", in_order as u8));
                    let whole: Vec<String> = s
                        .events
                        .iter()
                        .enumerate()
                        .map(|(pos, e)| match e {
                            MarketStreamEvent::Item(_) => pos.to_string(),
                            MarketStreamEvent::Reconnecting(e) if *e == EXCHANGE => "R".to_string(),
                            MarketStreamEvent::Reconnecting(e) => format!("R{}", exchange_no(*e)),
                        })
                        .collect();
                    let all_seen = conc.sinks.iter().all(|k| market_ids(&k.log) == whole);
                    lines.push(format!("sweep_seen {}", all_seen as u8));
                }
                "run" => {
                    let s = setup.as_ref().expect("data first");
                    if s.plans.is_empty() {
                        // no (accepted) `strat` yet: refused like the drivers do
                        lines.push("bad-op".into());
                        continue;
                    }
                    let n: usize = op[1].parse().unwrap();
                    let w: usize = op[2].parse().unwrap();
                    let bs: Vec<usize> = (0..n).collect();
                    // the real constructor refuses a dataset without any Item (market_data.rs:62-70)
                    if std::panic::catch_unwind(|| MarketDataInMemory::new(Arc::clone(&s.events))).is_err() {
                        lines.push("panic".into());
                        continue;
                    }
                    if s.cfg.u & 1 != 0 && shared.is_none() {
                        shared = Some(args_constant(s));
                    }
                    let shared = shared.as_ref().filter(|_| s.cfg.u & 1 != 0);
                    let conc = run_concurrent_with(s, &bs, w, shared);
                    for b in 0..n {
                        let sink = &conc.sinks[b];
                        let seen = market_recs(&sink.log);
                        if s.long {
                            // a long dataset: digests instead of id lists
                            lines.push(format!("lseen {b} {}", long_seen_digest(&s.events, &sink.log, sink.h)));
                            // an engine that never consulted its strategy has an empty sink: one line per instrument anyway
                            for j in 0..s.instruments.instruments().len() {
                                let v: &[u32] = sink.inst.get(j).map(|v| v.as_slice()).unwrap_or(&[]);
                                let h = v.iter().fold(0u64, |h, id| mix(h, *id as u64));
                                let px = sink.px.get(j).copied().flatten();
                                lines.push(format!("linst {b} {j} n={} h={h} px={}", v.len(), fmt_opt_dec(px)));
                            }
                            lines.push(format!("lreqs {b} {}", sink.reqs.join(" ")));
                            if s.tracked.0 > 0 {
                                // disconnect notices per exchange: traded, U1 .. Ux
                                let counts: Vec<String> = (0..=s.tracked.1 as u8)
                                    .map(|e| sink.log.iter().filter(|r| **r == Rec::R(e)).count().to_string())
                                    .collect();
                                lines.push(format!("lmark {b} {}", counts.join(" ")));
                            }
                        } else {
                            lines.push(format!("seen {b} {}", market_ids(&sink.log).join(" ")));
                            for (j, v) in sink.inst.iter().enumerate() {
                                lines.push(format!("inst {b} {j} {}", ids(v)));
                            }
                            lines.push(format!("reqs {b} {}", sink.reqs.join(" ")));
                        }
                        // summary is a function of this engine's own feed
                        let (rs, rpos, rbal, rratios) = replay_feed(s, sink, rfr_of(s.cfg, b));
                        // ... and of THIS backtest's dynamic arguments: its id, its risk-free return and the ratios computed with it
                        let own = rs == conc.summaries[b] && rpos == sink.positions && rbal == sink.balances
                            && conc.ids[b] == id_of(s.cfg, b) && conc.rfrs[b] == rfr_of(s.cfg, b) && rratios == conc.ratios[b];
                        if !own && verbose {
                            lines.push(format!("# own b={b}: summary {} | replay {rs}; ratios {} | replay {rratios}; id {} rfr {}", conc.summaries[b], conc.ratios[b], conc.ids[b], conc.rfrs[b]));
                        }
                        lines.push(format!("own {b} {}", own as u8));
                        if s.cfg.on {
                            lines.push(format!("acct {b} {}", account_events_own(s, sink) as u8));
                        }
                        // alone: on the same kind of runtime, on a current-thread and on a 4-worker
                        // runtime (the property quantifies over thread counts and interleavings)
                        let mut shapes = vec![w, 0, 4];
                        shapes.dedup();
                        if s.gap_ms.is_some() {
                            // every runtime of a paced case is the paused current-thread one
                            shapes = vec![0];
                        }
                        let mut all_same = true;
                        // a difference is EXPLAINED by the known finding (account events that reach the feed after
                        // Shutdown are dropped) iff the market side is identical and the account events one run
                        // processed are among those the other processed; anything else is printed as `X`
                        let mut explained = true;
                        let mut last = None;
                        for shape in shapes {
                            let alone = run_concurrent_with(s, &[b], shape, shared);
                            let a = &alone.sinks[0];
                            let same_seen = market_recs(&a.log) == seen && a.inst == sink.inst && a.reqs == sink.reqs && a.h == sink.h;
                            // fills / final positions / balances / realised PnL as the engine reports them
                            let same_sum = alone.summaries[0] == conc.summaries[b]
                                && a.positions == sink.positions
                                && a.balances == sink.balances;
                            if !(same_seen && same_sum) {
                                let (x, y) = (account_tags(&sink.log), account_tags(&a.log));
                                // several fills may be processed before Shutdown, and the order in which the responses
                                // of one fill (order snapshot / balance / trade) reach the feed is the scheduler's (the
                                // model's account forwarder delivers pending account events in ANY order): the account
                                // events of the run that processed fewer must be AMONG those of the other run. (A plain
                                // prefix test was flaky under load: [snap, bal] vs [snap, ord, bal, trade].) An account
                                // event the other run never saw - e.g. a fill of another backtest's order - stays `X`
                                let related = {
                                    let (short, long) = if x.len() <= y.len() { (&x, &y) } else { (&y, &x) };
                                    let mut rest: Vec<&String> = long.iter().collect();
                                    short.iter().all(|t| match rest.iter().position(|u| *u == t) {
                                        Some(i) => {
                                            rest.swap_remove(i);
                                            true
                                        }
                                        None => false,
                                    })
                                };
                                // ... or, when BOTH runs were cut at different points inside one fill's three responses
                                // (neither set contains the other: seen under load on long datasets), every account event
                                // of either run must be one its OWN execution side sends for its OWN requests, balances
                                // with the amounts its own fills leave (`account_events_own`, `balance_events_own`)
                                // (debug knob: C20_NO_RELATED=1 judges by ownership alone - used to validate `own_both` itself)
                                let related = related && std::env::var_os("C20_NO_RELATED").is_none();
                                let own_both = || {
                                    account_events_own(s, sink) && balance_events_own(s, sink) && account_events_own(s, a) && balance_events_own(s, a)
                                };
                                if !same_seen || !(related || own_both()) {
                                    explained = false;
                                }
                            }
                            if !(same_seen && same_sum) && all_same {
                                all_same = false;
                                last = Some(format!(
                                    "# differs b={b} concurrent({n} on {w} workers): pos={:?} {} account-events-seen={:?} | alone({shape} workers): pos={:?} {} account-events-seen={:?}",
                                    sink.positions, conc.summaries[b], account_tags(&sink.log),
                                    a.positions, alone.summaries[0], account_tags(&a.log)
                                ));
                            }
                            if verbose {
                                lines.push(format!("# alone({shape}) b={b} feed={:?} pos={:?} bal={:?} sum={}", a.log, a.positions, a.balances, alone.summaries[0]));
                            }
                        }
                        lines.push(format!("alone {b} {}", if all_same { "1" } else if explained { "0" } else { "X" }));
                        if let Some(note) = last {
                            lines.push(note);
                        }
                        if verbose {
                            lines.push(format!("# conc  b={b} feed={:?} pos={:?} bal={:?} sum={}", sink.log, sink.positions, sink.balances, conc.summaries[b]));
                        }
                    }
                    let _ = s.n_events;
                }
                other => panic!("bad op {other}"),
            }
        }
    });
}

fn gen_case(out: &mut Out, rng: &mut Rng, id: &str, len: usize, runs: &[(usize, usize)], gap_ms: Option<u64>) {
    out.case(id);
    let k = rng.range(1, 3) as usize;
    // few distinct prices per instrument, so that requests collide on price
    let base: Vec<i64> = (0..k).map(|j| 50 + 50 * j as i64).collect();
    // `len` Items; Reconnecting markers: in half of the cases 1-3 at the very beginning (before the
    // first Item, whose timestamp initialises the clock), in a third some in the middle, in a third
    // 1-2 at the very end
    let mut toks: Vec<String> = Vec::new();
    if rng.chance(50) {
        for _ in 0..rng.range(1, 3) {
            toks.push("R".into());
        }
    }
    let mid_pct = if rng.chance(33) { *rng.pick(&[2u64, 10, 30]) } else { 0 };
    // a third of the unpaced cases: exchange times that do not follow the dataset order (some older than the
    // first Item, which seeds the clock; equal times); such cases use passive strategies only (the price a
    // strategy reads is the C09 register, which is about exchange time, not dataset order)
    let odd_times = gap_ms.is_none() && rng.chance(33);
    for pos in 0..len {
        let i = rng.below(k as u64) as usize;
        let p = base[i] + rng.range(0, 3);
        if odd_times {
            let cands = [rng.range(0, 999), 1000, rng.range(1001, 2000), rng.range(0, 2000)];
            let t = if pos == 0 { 1000 } else { *rng.pick(&cands) };
            toks.push(format!("{i}:{p}@{t}"));
        } else {
            toks.push(format!("{i}:{p}"));
        }
        if pos + 1 < len && mid_pct > 0 && rng.chance(mid_pct) {
            toks.push("R".into());
            if rng.chance(20) {
                toks.push("R".into());
            }
        }
    }
    if rng.chance(33) {
        for _ in 0..rng.range(1, 2) {
            toks.push("R".into());
        }
    }
    match gap_ms {
        None => out.line(format!("data {k} {}", toks.join(" "))),
        Some(gap) => out.line(format!("data_slow {gap} {k} {}", toks.join(" "))),
    }
    let n_strats = rng.range(1, 3);
    for s in 0..n_strats {
        // the first parameterisation of every other case is passive (the repo's own example)
        if odd_times || (s == 0 && rng.chance(50)) || rng.chance(20) {
            out.line("strat -");
            continue;
        }
        let items = rng.range(1, 4);
        let mut line = String::from("strat");
        for _ in 0..items {
            // triggers (count of Items processed) collide, sit at the very start, in the middle and
            // on the last Item
            let trigger = match rng.below(4) {
                0 => 1,
                1 => len as i64,
                _ => rng.range(1, len as i64),
            };
            let i = rng.below(k as u64);
            let side = if rng.chance(70) { "B" } else { "S" };
            // mostly affordable, sometimes beyond the balance (rejected by the exchange)
            let qty = if rng.chance(10) { 5000 } else { rng.range(1, 3) };
            line.push_str(&format!(" {trigger}:{i}:{side}:{qty}"));
        }
        out.line(line);
    }
    for (n, w) in runs {
        out.line(format!("run {n} {w}"));
    }
}

/// Input-domain family (cases `x<n>`, own PRNG stream): small datasets whose Items are of EVERY `DataKind` (trade buy /
/// sell / amount 0, L1, order book snapshot / update, candle, liquidation), exchange times 0 / negative (before the engine
/// start and the initial balance time) / all equal / decreasing together with TRADING strategies, plan quantities that fit
/// the balances exactly or exceed them by one (base 100; quote 100000 = 2000 @ 50 = 1000 @ 100, 1961 @ 51 is too much),
/// every eighth case an EMPTY dataset (`MarketDataInMemory::new` panics), every eighth a `run 0 w` (no backtest at all)
fn gen_dom_case(out: &mut Out, rng: &mut Rng, id: &str, c: usize, runs: &[(usize, usize)]) {
    out.case(id);
    let k = rng.range(1, 3) as usize;
    let len = if c % 8 == 5 { 0 } else { rng.range(1, 14) as usize };
    let time_mode = rng.below(4); // 0 = dataset order, 1 = all equal, 2 = zero / negative / decreasing, 3 = mixed
    let mut toks: Vec<String> = Vec::new();
    if rng.chance(30) {
        toks.push("R".into());
    }
    for pos in 0..len {
        let i = rng.below(k as u64) as usize;
        let p = 50 + 50 * i as i64 + rng.range(0, 2);
        let kind = *rng.pick(&["", "", ":s", ":z", ":l", ":b", ":u", ":c", ":q"]);
        let at = match time_mode {
            0 => String::new(),
            1 => "@7".to_string(),
            2 => format!("@{}", *rng.pick(&[0i64, 0, -5, -2000, -(pos as i64), 3])),
            _ => format!("@{}", *rng.pick(&[0i64, -5, 7, 7, 1000, pos as i64])),
        };
        toks.push(format!("{i}:{p}{kind}{at}"));
        if pos + 1 < len && rng.chance(15) {
            toks.push("R".into());
        }
    }
    if len > 0 && rng.chance(25) {
        toks.push("R".into());
    }
    out.line(format!("data {k} {}", toks.join(" ")).trim_end().to_string());
    let n_strats = rng.range(1, 3);
    for s in 0..n_strats {
        if s == 0 && rng.chance(25) {
            out.line("strat -");
            continue;
        }
        let mut line = String::from("strat");
        for _ in 0..rng.range(1, 4) {
            let trigger = match rng.below(3) {
                0 => 1,
                1 => len.max(1) as i64,
                _ => rng.range(1, len.max(1) as i64),
            };
            let i = rng.below(k as u64);
            let (side, qty) = *rng.pick(&[("B", 1i64), ("S", 1), ("S", 100), ("S", 101), ("S", 99), ("B", 2000), ("B", 2001), ("B", 1960), ("B", 1961), ("B", 1000), ("B", 1001), ("S", 5000)]);
            line.push_str(&format!(" {trigger}:{i}:{side}:{qty}"));
        }
        out.line(line);
    }
    for (n, w) in runs {
        out.line(format!("run {n} {w}"));
    }
    if c % 8 == 2 {
        out.line(format!("run 0 {}", *rng.pick(&[0usize, 4])));
    }
}

/// Input-domain long datasets (cases `LX<n>`): the `longdata` parameters the long family never draws - ONE instrument,
/// `tm = 0` (every Item carries the same exchange time), `pm = 1` (one price per instrument), every other element a marker
/// (`rp = 2`, starting with a marker or with an Item), and `rp = 1` (markers only: `MarketDataInMemory::new` panics)
fn gen_long_dom_case(out: &mut Out, rng: &mut Rng, c: usize, runs: &[(usize, usize)]) {
    let n = *rng.pick(&[3usize, 257, 2049, 4097]);
    out.case(format!("LX{c}_{n}"));
    let (k, rp, ro, pm, tm): (usize, usize, usize, usize, usize) = match c % 6 {
        0 => (rng.range(2, 3) as usize, 0, 0, 7, 0),
        1 => (1, 0, 0, 13, 1),
        2 => (2, 2, 0, 7, 3),
        3 => (3, 2, 1, 1, 0),
        4 => (1, 7, 3, 1, 0),
        _ => (2, 1, 0, 7, 1),
    };
    out.line(format!("longdata {n} {k} {rp} {ro} {pm} {tm}"));
    let items = (0..n).filter(|pos| !(rp > 0 && pos % rp == ro)).count() as i64;
    let mut line = String::from("strat");
    for _ in 0..rng.range(2, 5) {
        let trigger = match rng.below(4) {
            0 => 1,
            1 => items.max(1),
            _ => rng.range(1, items.max(1)),
        };
        let side = if rng.chance(60) { "B" } else { "S" };
        line.push_str(&format!(" {trigger}:{}:{side}:{}", rng.below(k as u64), rng.range(1, 3)));
    }
    out.line(line);
    if rng.chance(50) {
        out.line("strat -");
    }
    for (m, w) in runs {
        out.line(format!("run {m} {w}"));
    }
}

/// dataset lengths around and beyond powers of two and typical buffer / block sizes
const LONG_LENS: [usize; 13] = [1, 2, 1023, 1024, 1025, 4095, 4097, 8191, 8192, 8193, 16385, 20000, 65537];

/// A LONG dataset (`longdata`, formula-defined, digests observed): `n` stream events over 2-3 instruments,
/// markers none / every 7th / 64th / 1000th / on the multiples of 4096 (position 0 included) / just before
/// the multiples of 1024; 1-2 strategy parameterisations whose triggers sit on the first and last Item, in the
/// middle and right around the block boundaries 1024 / 4096 / 8192 / 16384 / 65536, so that an event fed
/// twice (or dropped) there shifts the Item count and with it the price the later requests read.
fn gen_long_case(out: &mut Out, rng: &mut Rng, id: &str, n: usize, runs: &[(usize, usize)]) {
    out.case(id);
    let k = rng.range(2, 3) as usize;
    let (rp, ro): (usize, usize) = if n <= 2 {
        *rng.pick(&[(0, 0), (2, 1)])
    } else {
        match rng.below(6) {
            0 => (0, 0),
            1 => (7, rng.below(7) as usize),
            2 => (64, rng.below(64) as usize),
            3 => (1000, rng.below(1000) as usize),
            4 => (4096, 0),
            _ => (1024, 1023),
        }
    };
    let pm = *rng.pick(&[7usize, 13, 97]);
    let tm = *rng.pick(&[1usize, 3, 1000]);
    out.line(format!("longdata {n} {k} {rp} {ro} {pm} {tm}"));
    let items = (0..n).filter(|pos| !(rp > 0 && pos % rp == ro)).count() as i64;
    let n_strats = rng.range(1, 2);
    for s in 0..n_strats {
        if s == 0 && n_strats == 2 && rng.chance(50) {
            out.line("strat -");
            continue;
        }
        let n_items = rng.range(3, 6);
        let mut line = String::from("strat");
        for _ in 0..n_items {
            let near: Vec<i64> = [1024i64, 4096, 8192, 16384, 65536].iter().copied().filter(|b| *b < n as i64).collect();
            // a few triggers lie beyond the last Item (never due)
            let beyond = if rng.chance(10) { 5 } else { 0 };
            let trigger = match rng.below(6) {
                0 => 1,
                1 => items,
                2 => items / 2 + 1,
                3 | 4 if !near.is_empty() => *rng.pick(&near) + rng.range(-2, 3),
                _ => rng.range(1, items.max(1) + beyond),
            }
            .max(1);
            let i = rng.below(k as u64);
            let side = if rng.chance(70) { "B" } else { "S" };
            let qty = if rng.chance(10) { 5000 } else { rng.range(1, 3) };
            line.push_str(&format!(" {trigger}:{i}:{side}:{qty}"));
        }
        out.line(line);
    }
    for (m, w) in runs {
        out.line(format!("run {m} {w}"));
    }
}

/// TRACKED-BUT-NOT-TRADED exchanges (cases `T<n>`: `data` / `data_slow`, `TL<n>`: `longdata`; own PRNG stream): `tracked t x`
/// puts the last 1-2 of the 2-4 instruments on 1-2 exchanges for which the backtest has NO `ExecutionConfig`; every fifth
/// case tracks ALL instruments (empty `executions` list, passive strategies only). The dataset mixes Items of traded and
/// tracked instruments and markers of every exchange (`R`, `R1`, `R2`), always at least one Item of a tracked instrument
/// and one marker of an untraded exchange; plans trade traded instruments only, their triggers count the Items of ALL
/// instruments (a signal from an exchange one does not trade on).
fn gen_tracked_case(out: &mut Out, rng: &mut Rng, id: &str, c: usize, runs: &[(usize, usize)], long_n: Option<usize>) {
    out.case(id);
    let all_tracked = c % 5 == 4;
    let k = if all_tracked { rng.range(1, 3) } else { rng.range(2, 4) } as usize;
    let t = if all_tracked { k } else { rng.range(1, 2.min(k as i64 - 1)) as usize };
    let x = rng.range(1, t.min(2) as i64) as usize;
    out.line(format!("tracked {t} {x}"));
    let n_items: i64;
    match long_n {
        Some(n) => {
            let (rp, ro) = *rng.pick(&[(7usize, 3usize), (64, 0), (64, 17), (1000, 999), (5, 4)]);
            let pm = *rng.pick(&[7usize, 13, 97]);
            let tm = *rng.pick(&[1usize, 3]);
            out.line(format!("longdata {n} {k} {rp} {ro} {pm} {tm}"));
            n_items = (0..n).filter(|pos| pos % rp != ro).count() as i64;
        }
        None => {
            let paced = c % 6 == 3;
            let len = if paced { rng.range(3, 10) } else if c % 3 == 2 { rng.range(200, 600) } else { rng.range(3, 40) } as usize;
            n_items = len as i64;
            let mut markers: Vec<String> = (1..=x).map(|e| format!("R{e}")).collect();
            if t < k {
                markers.push("R".into());
            }
            let forced_item = rng.below(len as u64) as usize;
            let forced_marker = rng.below(len as u64) as usize;
            let mut toks: Vec<String> = Vec::new();
            if rng.chance(40) {
                toks.push(rng.pick(&markers).clone());
            }
            for pos in 0..len {
                // half of the Items belong to tracked instruments
                let i = if pos == forced_item || rng.chance(50) { k - 1 - rng.below(t as u64) as usize } else { rng.below(k as u64) as usize };
                toks.push(format!("{i}:{}", 50 + 50 * i as i64 + rng.range(0, 3)));
                if pos == forced_marker {
                    toks.push(format!("R{}", rng.range(1, x as i64)));
                } else if rng.chance(if len > 100 { 3 } else { 20 }) {
                    toks.push(rng.pick(&markers).clone());
                }
            }
            if rng.chance(30) {
                toks.push(rng.pick(&markers).clone());
            }
            match paced {
                false => out.line(format!("data {k} {}", toks.join(" "))),
                true => out.line(format!("data_slow {} {k} {}", *rng.pick(&[0u64, 100, 3000]), toks.join(" "))),
            }
        }
    }
    let n_strats = rng.range(1, 3);
    for s in 0..n_strats {
        if all_tracked || (s == 0 && rng.chance(40)) {
            out.line("strat -");
            continue;
        }
        let mut line = String::from("strat");
        for _ in 0..rng.range(1, 4) {
            let trigger = match rng.below(4) {
                0 => 1,
                1 => n_items,
                _ => rng.range(1, n_items.max(1)),
            };
            let i = rng.below((k - t) as u64);
            let side = if rng.chance(70) { "B" } else { "S" };
            line.push_str(&format!(" {trigger}:{i}:{side}:{}", rng.range(1, 3)));
        }
        out.line(line);
    }
    for (m, w) in runs {
        out.line(format!("run {m} {w}"));
    }
}

/// SET-UP SHAPES (cases `G<n>` / `GL<n>`, own PRNG stream): `cfg x o r u` - 1-3 TRADED exchanges with one mock link each
/// (2-4 instruments spread over them, an exchange with two instruments when k - t > x), the `executions` list in exchange
/// order or reversed, per-backtest risk-free returns (0.05 / 0 / -0.02) and repeated ids, ONE `Arc` of constant arguments
/// for every call of the case, a single backtest through `run_backtests`; a third of the cases also `tracked 1 1` (several
/// traded + one tracked exchange). Plans trade instruments of EVERY traded exchange, early (so that fills are processed)
/// and on the last Item.
fn gen_cfg_case(out: &mut Out, rng: &mut Rng, id: &str, c: usize, runs: &[(usize, usize)], long_n: Option<usize>) {
    out.case(id);
    let t = if c % 3 == 2 { 1usize } else { 0 };
    let k = rng.range(2, 4) as usize;
    let nt = k - t;
    // mostly several traded exchanges; x = 1 keeps the other dimensions (r, u) apart from it
    let x = if c % 4 == 3 { 1 } else { rng.range(2, 3.min(nt.max(2)) as i64) as usize }.min(nt);
    let o = rng.below(2);
    let r = rng.below(3);
    let u = rng.below(4);
    if t > 0 {
        out.line(format!("tracked {t} 1"));
    }
    out.line(format!("cfg {x} {o} {r} {u}"));
    let n_items: i64;
    match long_n {
        Some(n) => {
            let (rp, ro) = *rng.pick(&[(0usize, 0usize), (7, 3), (64, 17)]);
            out.line(format!("longdata {n} {k} {rp} {ro} {} {}", *rng.pick(&[7usize, 13]), *rng.pick(&[1usize, 3])));
            n_items = (0..n).filter(|pos| !(rp > 0 && pos % rp == ro)).count() as i64;
        }
        None => {
            let len = if c % 3 == 1 { rng.range(200, 600) } else { rng.range(3, 40) } as usize;
            n_items = len as i64;
            let mut markers: Vec<&str> = Vec::new();
            if nt > 0 {
                markers.push("R");
            }
            if t > 0 {
                markers.push("R1");
            }
            let mut toks: Vec<String> = Vec::new();
            if rng.chance(30) {
                toks.push(rng.pick(&markers).to_string());
            }
            for pos in 0..len {
                // the first k Items give every instrument a price
                let i = if pos < k { pos } else { rng.below(k as u64) as usize };
                toks.push(format!("{i}:{}", 50 + 50 * i as i64 + rng.range(0, 3)));
                if rng.chance(if len > 100 { 2 } else { 10 }) {
                    toks.push(rng.pick(&markers).to_string());
                }
            }
            out.line(format!("data {k} {}", toks.join(" ")));
        }
    }
    let n_strats = rng.range(1, 3);
    for s in 0..n_strats {
        if s == 1 && rng.chance(50) {
            out.line("strat -");
            continue;
        }
        let mut line = String::from("strat");
        let items = rng.range(2, 4);
        for it in 0..items {
            let trigger = match rng.below(4) {
                0 => 1,
                1 => n_items,
                _ => rng.range(1, n_items.min(8)),
            };
            // the first two items: the last and the first traded instrument (= the last and the first traded exchange)
            let i = match it {
                0 => nt - 1,
                1 => 0,
                _ => rng.below(nt as u64) as usize,
            };
            let side = if rng.chance(70) { "B" } else { "S" };
            let qty = if rng.chance(8) { 5000 } else { rng.range(1, 3) };
            line.push_str(&format!(" {trigger}:{i}:{side}:{qty}"));
        }
        out.line(line);
    }
    for (m, w) in runs {
        out.line(format!("run {m} {w}"));
    }
}

fn generate(seed: u64, n_cases: usize, tier: &str) {
    let mut out = Out::new();
    let mut rng = Rng::new(seed);
    let thorough = tier == "thorough";
    // (concurrent backtests, worker threads; 0 = current-thread runtime)
    let shapes: &[(usize, usize)] = if thorough {
        &[(1, 0), (1, 1), (2, 1), (2, 4), (8, 1), (8, 4), (8, 8), (32, 4), (32, 8), (2, 0), (8, 0)]
    } else {
        &[(1, 0), (1, 1), (2, 1), (2, 4), (8, 1), (8, 4), (8, 8), (2, 0)]
    };
    if thorough {
        // sweeps beyond 2^16 requests, on a multi-thread and on a current-thread runtime
        for (name, n, w) in [("sweep_70000_mt", 70_000usize, 8usize), ("sweep_66000_ct", 66_000, 0)] {
            out.case(name.to_string());
            out.line("data 2 0:50 1:70 R 0:51 1:71");
            out.line("strat -");
            out.line("strat 1:0:B:1 3:1:S:1");
            out.line(format!("sweep {n} {w}"));
        }
    }
    for c in 0..n_cases {
        if c % 4 == 3 {
            // a paced data source (own BacktestMarketData, tokio-time gaps, paused runtime): 3-12 Items
            // (+ markers), total virtual duration from 0 to well beyond any plausible timeout (36 s+)
            let len = rng.range(3, 12) as usize;
            let gap = *rng.pick(&[0u64, 100, 700, 700, 3000, 3000]);
            let runs = [(*rng.pick(&[1usize, 2, 8]), 0usize), (*rng.pick(&[1usize, 2]), 0usize)];
            gen_case(&mut out, &mut rng, &format!("r{}", c + 1), len, &runs, Some(gap));
            continue;
        }
        // sizes: mostly small (collisions, every trigger position), regularly a dataset long enough
        // for execution responses to race the market forwarder and the Shutdown
        let len = match rng.below(10) {
            0..=4 => rng.range(1, 12) as usize,
            5..=6 => rng.range(13, 60) as usize,
            7..=8 => rng.range(200, 800) as usize,
            _ => rng.range(1000, if thorough { 4000 } else { 2000 }) as usize,
        };
        let n_runs = if thorough { 3 } else { 2 };
        let mut runs = Vec::new();
        for _ in 0..n_runs {
            runs.push(*rng.pick(shapes));
        }
        // every case compares at least one genuinely concurrent multi-thread run
        if !runs.iter().any(|(n, w)| *n >= 2 && *w >= 2) {
            runs.push(if thorough && c % 4 == 0 { (32, 8) } else { (8, 4) });
        }
        gen_case(&mut out, &mut rng, &format!("r{}", c + 1), len, &runs, None);
    }
    // long datasets (own PRNG stream, so the cases above do not depend on them): every length of LONG_LENS in
    // the thorough tier; 8193, 20000 and one more length in the quick tier. Each alone (`run 1 w`) and with
    // 2-4 concurrent backtests over the same shared data, on a current-thread and on multi-thread runtimes
    if n_cases > 0 {
        let mut lrng = Rng::new(seed ^ 0x4c4f_4e47);
        let lens: Vec<usize> = if thorough {
            LONG_LENS.to_vec()
        } else {
            let extra = *lrng.pick(&[1usize, 2, 1023, 1024, 1025, 4095, 4097, 8191, 8192, 16385, 65537]);
            vec![8193, 20000, extra]
        };
        for n in lens {
            let mut runs = vec![
                (1usize, *lrng.pick(&[0usize, 1, 4])),
                (lrng.range(2, 4) as usize, *lrng.pick(&[1usize, 4, 8])),
            ];
            if thorough || lrng.chance(30) {
                runs.push((lrng.range(2, 4) as usize, 0));
            }
            gen_long_case(&mut out, &mut lrng, &format!("L{n}"), n, &runs);
        }
    }
    // input-domain families (own PRNG streams, so every case above stays as it is)
    if n_cases > 0 {
        let mut xrng = Rng::new(seed ^ 0x444f_4d58);
        let n_x = (n_cases / 5).max(1);
        for c in 0..n_x {
            let runs = [*xrng.pick(shapes), *xrng.pick(&[(2usize, 4usize), (8, 4), (2, 1), (3, 0)])];
            gen_dom_case(&mut out, &mut xrng, &format!("x{}", c + 1), c + (seed as usize % 8), &runs);
        }
        let n_lx = if thorough { 12 } else { 2 };
        for c in 0..n_lx {
            let runs = [(1usize, *xrng.pick(&[0usize, 4])), (xrng.range(2, 3) as usize, *xrng.pick(&[1usize, 4]))];
            gen_long_dom_case(&mut out, &mut xrng, c + (seed as usize % 6) * (!thorough) as usize, &runs);
        }
    }
    // tracked-but-not-traded exchanges (own PRNG stream): short / paced and long datasets, alone and concurrent
    if n_cases > 0 {
        let mut trng = Rng::new(seed ^ 0x5452_4b44);
        let (n_short, n_long) = if thorough { (20, 6) } else { (5, 2) };
        let start = (seed as usize % 30) * (!thorough) as usize;
        for c in 0..n_short {
            let mut runs = vec![
                (1usize, *trng.pick(&[0usize, 1, 4])),
                (*trng.pick(&[2usize, 3, 4, 8]), *trng.pick(&[1usize, 4, 8])),
            ];
            if trng.chance(30) {
                runs.push((2, 0));
            }
            gen_tracked_case(&mut out, &mut trng, &format!("T{}", c + 1), start + c, &runs, None);
        }
        for c in 0..n_long {
            let n = *trng.pick(&[257usize, 4097, 8193, 20000]);
            let runs = [(1usize, *trng.pick(&[0usize, 4])), (trng.range(2, 4) as usize, *trng.pick(&[1usize, 4, 8]))];
            gen_tracked_case(&mut out, &mut trng, &format!("TL{}_{n}", c + 1), start + n_short + c, &runs, Some(n));
        }
    }
    // set-up shapes (own PRNG stream): several traded exchanges, order of `executions`, risk-free returns / ids, shared Arc
    if n_cases > 0 {
        let mut grng = Rng::new(seed ^ 0x4346_4732);
        let (n_short, n_long) = if thorough { (24, 6) } else { (6, 2) };
        let start = (seed as usize % 12) * (!thorough) as usize;
        for c in 0..n_short {
            let mut runs = vec![
                (1usize, *grng.pick(&[0usize, 1, 4])),
                (*grng.pick(&[2usize, 3, 4, 8]), *grng.pick(&[1usize, 4, 8])),
            ];
            if grng.chance(40) {
                runs.push((*grng.pick(&[2usize, 3]), 0));
            }
            gen_cfg_case(&mut out, &mut grng, &format!("G{}", c + 1), start + c, &runs, None);
        }
        for c in 0..n_long {
            let n = *grng.pick(&[257usize, 4097, 8193]);
            let runs = [(1usize, *grng.pick(&[0usize, 4])), (grng.range(2, 4) as usize, *grng.pick(&[1usize, 4, 8]))];
            gen_cfg_case(&mut out, &mut grng, &format!("GL{}_{n}", c + 1), start + n_short + c, &runs, Some(n));
        }
    }
    out.flush();
}

fn main() {
    let a = args();
    match a.cmd.as_str() {
        "gen" => generate(a.seed, a.n, &a.tier),
        "run" => run(),
        _ => {
            eprintln!("usage: c20 gen <seed> <n> <tier> | run < cases");
            std::process::exit(2)
        }
    }
}
