//! C13D — the ARM BODIES of `DynamicStreams::init` (barter-data/src/streams/builder/dynamic/mod.rs:126-546):
//! which connector type and which kind type each arm constructs, with which instruments, under which policy.
//!
//! The REAL `DynamicStreams::init(batches)` is awaited on a tokio runtime. There is no network in the sandbox,
//! so no arm can connect — but the repository's own code logs through `tracing` BEFORE it touches the network:
//!
//!   * `init_market_stream` (barter-data/src/streams/consumer.rs:64) `info!(%exchange, subscriptions = %..,
//!     ?policy, ?stream_key, "MarketStream with auto reconnect initialising")` — `exchange` is `Exchange::ID`
//!     of the connector TYPE the arm constructed;
//!   * `WebSocketSubscriber::subscribe` (barter-data/src/subscriber/mod.rs:73) `debug!(%exchange, %url,
//!     ?subscriptions, "subscribing to WebSocket")` — `Exchange::ID`, `Exchange::url()`, and the `Debug` of the
//!     `Vec<Subscription<Connector, Instrument, Kind>>` as handed over (connector struct incl. its server
//!     marker type, every instrument, the kind type);
//!   * `connect` (barter-integration/src/protocol/websocket.rs:142) `debug!(?request, ..)` — the `Url` dialled.
//!
//! A harness-local `tracing::Subscriber` (installed in THIS process only, `set_global_default`) records the
//! fields of every event. All three events of every arm are emitted synchronously in the first poll of the arm's
//! future; `try_join_all` polls every future of every batch once, in order, unless one of them fails during that
//! pass — the harness holds the name lookups back until the first poll of `init` has returned (see `drive`), then
//! the first lookup fails and `init` returns `Err(DataError::Socket("WebSocket error: .."))`, reported as
//! `res network`.
//!
//! Ops (tokens as in c13v.rs: exchange = declaration position 0..41, sub kind 0..5, instrument
//! `base/quote/kind`, subscription `exchange,instrument,kind`, batches separated by `|`):
//!   `init B | B | ..`
//! Observations, in event order: per `init_market_stream` call `ims <id> <initial> <mult> <max> <stream key>
//! <display of the subscriptions>`, per subscribe `conn <id> <kind> c<connector type> <url> <n> <instrument>..`,
//! per connect `req <url>`; then `calls <n>`, the initialised subscriptions `isub <id>,<instrument>,<kind>`
//! in the byte order of these lines, and `res ok <streams per family> | network | connected | err` (+ `msg <Display of the DataError>`).
use barter_data::{
    error::DataError,
    exchange::{
        binance::{futures::BinanceFuturesUsd, spot::BinanceSpot},
        bitfinex::Bitfinex,
        bitmex::Bitmex,
        bybit::{futures::BybitPerpetualsUsd, spot::BybitSpot},
        coinbase::Coinbase,
        gateio::{
            future::{GateioFuturesBtc, GateioFuturesUsd},
            option::GateioOptions,
            perpetual::{GateioPerpetualsBtc, GateioPerpetualsUsd},
            spot::GateioSpot,
        },
        kraken::Kraken,
        okx::Okx,
    },
    streams::builder::dynamic::{DynamicStreams, validate_batches},
    subscription::{SubKind, Subscription, exchange_supports_instrument_kind_sub_kind},
};
use barter_instrument::{
    Keyed,
    exchange::ExchangeId,
    instrument::{
        InstrumentIndex,
        kind::option::{OptionExercise, OptionKind},
        market_data::{
            MarketDataInstrument,
            kind::{MarketDataFutureContract, MarketDataInstrumentKind, MarketDataOptionContract},
        },
    },
};
use chrono::{DateTime, TimeZone, Utc};
use rust_decimal::Decimal;
use std::{collections::HashMap, future::Future, pin::Pin, sync::Mutex, time::Duration};
use tracing::{
    Event, Metadata,
    field::{Field, Visit},
    span,
};
use vh::*;

// ------------------------------------------------------------------------------------------------ enums

/// Every `ExchangeId`, in declaration order (`install` checks `ALL[i] as usize == i`).
const ALL: [ExchangeId; 42] = [
    ExchangeId::Other,
    ExchangeId::Simulated,
    ExchangeId::Mock,
    ExchangeId::BinanceFuturesCoin,
    ExchangeId::BinanceFuturesUsd,
    ExchangeId::BinanceOptions,
    ExchangeId::BinancePortfolioMargin,
    ExchangeId::BinanceSpot,
    ExchangeId::BinanceUs,
    ExchangeId::Bitazza,
    ExchangeId::Bitfinex,
    ExchangeId::Bitflyer,
    ExchangeId::Bitget,
    ExchangeId::Bitmart,
    ExchangeId::BitmartFuturesUsd,
    ExchangeId::Bitmex,
    ExchangeId::Bitso,
    ExchangeId::Bitstamp,
    ExchangeId::Bitvavo,
    ExchangeId::Bithumb,
    ExchangeId::BybitPerpetualsUsd,
    ExchangeId::BybitSpot,
    ExchangeId::Cexio,
    ExchangeId::Coinbase,
    ExchangeId::CoinbaseInternational,
    ExchangeId::Cryptocom,
    ExchangeId::Deribit,
    ExchangeId::GateioFuturesBtc,
    ExchangeId::GateioFuturesUsd,
    ExchangeId::GateioOptions,
    ExchangeId::GateioPerpetualsBtc,
    ExchangeId::GateioPerpetualsUsd,
    ExchangeId::GateioSpot,
    ExchangeId::Gemini,
    ExchangeId::Hitbtc,
    ExchangeId::Htx,
    ExchangeId::Kraken,
    ExchangeId::Kucoin,
    ExchangeId::Liquid,
    ExchangeId::Mexc,
    ExchangeId::Okx,
    ExchangeId::Poloniex,
];

const KINDS: [SubKind; 6] = [
    SubKind::PublicTrades,
    SubKind::OrderBooksL1,
    SubKind::OrderBooksL2,
    SubKind::OrderBooksL3,
    SubKind::Liquidations,
    SubKind::Candles,
];

/// `Debug` of the six kind TYPES (unit structs `PublicTrades`, ..), in the order of `SubKind`
const KIND_TYPE_DEBUG: [&str; 6] = [
    "PublicTrades",
    "OrderBooksL1",
    "OrderBooksL2",
    "OrderBooksL3",
    "Liquidations",
    "Candles",
];

/// `Debug` of a default value of the 15 connector types, in the order of the Lean `Connectors.Exch`
/// (`Binance { server: PhantomData<..BinanceServerSpot> }`, `Kraken`, ..): two connector types never share it
fn connector_debug() -> Vec<String> {
    vec![
        format!("{:?}", BinanceSpot::default()),
        format!("{:?}", BinanceFuturesUsd::default()),
        format!("{:?}", Bitfinex),
        format!("{:?}", Bitmex),
        format!("{:?}", BybitSpot::default()),
        format!("{:?}", BybitPerpetualsUsd::default()),
        format!("{:?}", Coinbase),
        format!("{:?}", GateioSpot::default()),
        format!("{:?}", GateioFuturesUsd::default()),
        format!("{:?}", GateioFuturesBtc::default()),
        format!("{:?}", GateioPerpetualsUsd::default()),
        format!("{:?}", GateioPerpetualsBtc::default()),
        format!("{:?}", GateioOptions::default()),
        format!("{:?}", Kraken),
        format!("{:?}", Okx),
    ]
}

// ------------------------------------------------------------------------------------------------ tokens (as c13v.rs)

type Inst = MarketDataInstrument;
type DSub = Subscription<ExchangeId, Inst, SubKind>;
/// the keyed instrument type of `index_market_data_subscription_batches` (op `initk`, token `<key>~<instrument>`)
type KInst = Keyed<InstrumentIndex, MarketDataInstrument>;
type KSub = Subscription<ExchangeId, KInst, SubKind>;

/// An instrument type `DynamicStreams::init` is driven with: its token and THE call under observation
/// (the `where` clause of `init` is instantiated per type, so the call is written once per type).
trait DInst: barter_data::instrument::InstrumentData + Ord + std::fmt::Debug + Clone + 'static {
    fn tok(&self) -> String;
    fn init(
        batches: Vec<Vec<Subscription<ExchangeId, Self, SubKind>>>,
    ) -> Pin<Box<dyn Future<Output = Result<[usize; 4], DataError>>>>;
}

impl DInst for Inst {
    fn tok(&self) -> String {
        inst_tok(self)
    }
    fn init(batches: Vec<Vec<DSub>>) -> Pin<Box<dyn Future<Output = Result<[usize; 4], DataError>>>> {
        Box::pin(async move {
            // THE function under observation
            let ds = DynamicStreams::<Inst>::init::<_, _, DSub, Inst>(batches).await?;
            Ok([ds.trades.len(), ds.l1s.len(), ds.l2s.len(), ds.liquidations.len()])
        })
    }
}

impl DInst for KInst {
    fn tok(&self) -> String {
        format!("{}~{}", self.key.index(), inst_tok(&self.value))
    }
    fn init(batches: Vec<Vec<KSub>>) -> Pin<Box<dyn Future<Output = Result<[usize; 4], DataError>>>> {
        Box::pin(async move {
            // THE function under observation, instantiated with `Keyed<InstrumentIndex, MarketDataInstrument>`
            let ds = DynamicStreams::<InstrumentIndex>::init::<_, _, KSub, KInst>(batches).await?;
            Ok([ds.trades.len(), ds.l1s.len(), ds.l2s.len(), ds.liquidations.len()])
        })
    }
}

fn time(ms: i64) -> DateTime<Utc> {
    Utc.timestamp_millis_opt(ms).unwrap()
}

/// decimal digits only (what `String.toNat?` of the Lean driver accepts)
fn nat(s: &str) -> Option<usize> {
    if s.is_empty() || !s.bytes().all(|b| b.is_ascii_digit()) {
        return None;
    }
    s.parse().ok()
}

fn parse_ik(t: &str) -> Option<MarketDataInstrumentKind> {
    match t.as_bytes().first()? {
        b's' if t.len() == 1 => Some(MarketDataInstrumentKind::Spot),
        b'p' if t.len() == 1 => Some(MarketDataInstrumentKind::Perpetual),
        b'f' => Some(MarketDataInstrumentKind::Future(MarketDataFutureContract {
            expiry: time(nat(&t[1..])? as i64),
        })),
        b'o' => {
            let f: Vec<usize> = t[1..].split('.').map(nat).collect::<Option<Vec<_>>>()?;
            if f.len() != 4 || f[0] > 1 || f[1] > 2 {
                return None;
            }
            Some(MarketDataInstrumentKind::Option(MarketDataOptionContract {
                kind: [OptionKind::Call, OptionKind::Put][f[0]],
                exercise: [
                    OptionExercise::American,
                    OptionExercise::Bermudan,
                    OptionExercise::European,
                ][f[1]],
                expiry: time(f[2] as i64),
                strike: Decimal::from(f[3] as i64),
            }))
        }
        _ => None,
    }
}

fn ik_tok(k: &MarketDataInstrumentKind) -> String {
    match k {
        MarketDataInstrumentKind::Spot => "s".into(),
        MarketDataInstrumentKind::Perpetual => "p".into(),
        MarketDataInstrumentKind::Future(c) => format!("f{}", c.expiry.timestamp_millis()),
        MarketDataInstrumentKind::Option(c) => format!(
            "o{}.{}.{}.{}",
            match c.kind {
                OptionKind::Call => 0,
                OptionKind::Put => 1,
            },
            match c.exercise {
                OptionExercise::American => 0,
                OptionExercise::Bermudan => 1,
                OptionExercise::European => 2,
            },
            c.expiry.timestamp_millis(),
            c.strike
        ),
    }
}

fn asset_name(n: usize) -> String {
    format!("a{n:03}")
}

fn parse_inst(t: &str) -> Option<Inst> {
    let p: Vec<&str> = t.split('/').collect();
    if p.len() != 3 {
        return None;
    }
    Some(MarketDataInstrument::new(
        asset_name(nat(p[0])?),
        asset_name(nat(p[1])?),
        parse_ik(p[2])?,
    ))
}

fn inst_tok(i: &Inst) -> String {
    let un = |s: &str| -> usize { s[1..].parse().expect("asset name") };
    format!("{}/{}/{}", un(i.base.as_ref()), un(i.quote.as_ref()), ik_tok(&i.kind))
}

fn parse_sub(t: &str) -> Option<DSub> {
    let p: Vec<&str> = t.split(',').collect();
    if p.len() != 3 {
        return None;
    }
    Some(Subscription::new(
        *ALL.get(nat(p[0])?)?,
        parse_inst(p[1])?,
        *KINDS.get(nat(p[2])?)?,
    ))
}

/// `exchange,<key>~<instrument>,kind`
fn parse_ksub(t: &str) -> Option<KSub> {
    let p: Vec<&str> = t.split(',').collect();
    if p.len() != 3 {
        return None;
    }
    let (key, inst) = p[1].split_once('~')?;
    Some(Subscription::new(
        *ALL.get(nat(p[0])?)?,
        Keyed::new(InstrumentIndex(nat(key)?), parse_inst(inst)?),
        *KINDS.get(nat(p[2])?)?,
    ))
}

/// `B | B | ...` -> batches (no token at all: no batch)
fn parse_batches_with<S>(toks: &[String], parse: fn(&str) -> Option<S>) -> Option<Vec<Vec<S>>> {
    let mut out = vec![];
    if toks.is_empty() {
        return Some(out);
    }
    for part in toks.split(|t| t == "|") {
        out.push(part.iter().map(|t| parse(t)).collect::<Option<Vec<_>>>()?);
    }
    Some(out)
}

fn parse_batches(toks: &[String]) -> Option<Vec<Vec<DSub>>> {
    parse_batches_with(toks, parse_sub)
}

// ------------------------------------------------------------------------------------------------ the recorder

#[derive(Debug, Clone)]
struct Ev {
    target: String,
    fields: Vec<(String, String)>,
}

impl Ev {
    fn get(&self, name: &str) -> Option<&str> {
        self.fields.iter().find(|(k, _)| k == name).map(|(_, v)| v.as_str())
    }
}

static EVENTS: Mutex<Vec<Ev>> = Mutex::new(Vec::new());

/// Records every event's fields (each through its `Debug`; `%x` fields arrive as `DisplayValue`, whose `Debug`
/// is the `Display`). Spans are not used by the code under observation.
struct Recorder;

struct FieldVisitor(Vec<(String, String)>);

impl Visit for FieldVisitor {
    fn record_debug(&mut self, f: &Field, v: &dyn std::fmt::Debug) {
        self.0.push((f.name().to_string(), format!("{v:?}")));
    }
}

impl tracing::Subscriber for Recorder {
    fn enabled(&self, _: &Metadata<'_>) -> bool {
        true
    }
    fn new_span(&self, _: &span::Attributes<'_>) -> span::Id {
        span::Id::from_u64(1)
    }
    fn record(&self, _: &span::Id, _: &span::Record<'_>) {}
    fn record_follows_from(&self, _: &span::Id, _: &span::Id) {}
    fn event(&self, e: &Event<'_>) {
        let mut v = FieldVisitor(vec![]);
        e.record(&mut v);
        EVENTS.lock().unwrap().push(Ev {
            target: e.metadata().target().to_string(),
            fields: v.0,
        });
    }
    fn enter(&self, _: &span::Id) {}
    fn exit(&self, _: &span::Id) {}
}

// ------------------------------------------------------------------------------------------------ reading the fields

/// splits at top-level `, ` (outside every bracket pair)
fn split_top(s: &str) -> Vec<String> {
    let cs: Vec<char> = s.chars().collect();
    let mut out = vec![];
    let mut cur = String::new();
    let mut depth = 0i32;
    let mut i = 0;
    while i < cs.len() {
        let c = cs[i];
        match c {
            '(' | '[' | '{' | '<' => depth += 1,
            ')' | ']' | '}' | '>' => depth -= 1,
            _ => {}
        }
        if c == ',' && depth == 0 && i + 1 < cs.len() && cs[i + 1] == ' ' {
            out.push(std::mem::take(&mut cur));
            i += 2;
            continue;
        }
        cur.push(c);
        i += 1;
    }
    if !cur.is_empty() {
        out.push(cur);
    }
    out
}

fn between<'a>(s: &'a str, pre: &str, post: &str) -> Option<&'a str> {
    let a = s.find(pre)? + pre.len();
    let b = s[a..].find(post)? + a;
    Some(&s[a..b])
}

/// `Debug` of `[Subscription { exchange: X, instrument: I, kind: K }, ..]` -> the `(X, I, K)` texts
fn read_subscriptions(s: &str) -> Option<Vec<(String, String, String)>> {
    let inner = s.strip_prefix('[')?.strip_suffix(']')?;
    let mut out = vec![];
    for el in split_top(inner) {
        let body = el.strip_prefix("Subscription { ")?.strip_suffix(" }")?;
        let f = split_top(body);
        if f.len() != 3 {
            return None;
        }
        out.push((
            f[0].strip_prefix("exchange: ")?.to_string(),
            f[1].strip_prefix("instrument: ")?.to_string(),
            f[2].strip_prefix("kind: ")?.to_string(),
        ));
    }
    Some(out)
}

/// `Debug` of a `url::Url` -> `scheme://host[:port]path`
fn read_url_debug(s: &str) -> Option<String> {
    let scheme = between(s, "scheme: \"", "\"")?;
    let host = between(s, "host: Some(Domain(\"", "\"))")?;
    let port = match between(s, "port: Some(", ")") {
        Some(p) => format!(":{p}"),
        None => String::new(),
    };
    let path = between(s, "path: \"", "\"")?;
    if between(s, "query: ", ",")? != "None" {
        return None;
    }
    Some(format!("{scheme}://{host}{port}{path}"))
}

fn exchange_no(display: &str) -> String {
    ALL.iter()
        .position(|e| e.to_string() == display)
        .map(|n| n.to_string())
        .unwrap_or_else(|| format!("?{}", display.replace(' ', "_")))
}

fn tokenise(s: &str) -> String {
    if s.is_empty() { "-".into() } else { s.replace(' ', "") }
}

const MSG_IMS: &str = "MarketStream with auto reconnect initialising";
const MSG_SUB: &str = "subscribing to WebSocket";
const MSG_REQ: &str = "attempting to establish WebSocket connection";

// ------------------------------------------------------------------------------------------------ one `init`

enum Res {
    Ok([usize; 4]),
    Connected,
    Network,
    Err(String),
}

/// awaits the REAL `DynamicStreams::init` and returns the recorded events and the outcome.
///
/// Scheduling of the environment (not of the code under observation): a connection attempt starts with a name
/// lookup on tokio's blocking pool. Here the lookup fails within a fraction of a millisecond, and if it failed
/// while `try_join_all` is still in its FIRST pass over the arm futures, the arms behind it would never be
/// started (seen under machine load: 3 of 21 arms). The runtime therefore has ONE blocking thread, and a gate
/// task occupies it until the first poll of `init` has returned: every arm future has then been polled once —
/// has logged what it constructed and queued its lookup — before any lookup can run.
fn drive<I: DInst>(rt: &tokio::runtime::Runtime, batches: Vec<Vec<Subscription<ExchangeId, I, SubKind>>>) -> (Vec<Ev>, Res, bool) {
    EVENTS.lock().unwrap().clear();
    let mut timed_out = false;
    let res = rt.block_on(async {
        let (open_gate, gate) = std::sync::mpsc::channel::<()>();
        let gate_task = tokio::task::spawn_blocking(move || {
            let _ = gate.recv();
        });
        // THE function under observation (`DInst::init`: `DynamicStreams::init` at the instrument type `I`)
        let mut fut = I::init(batches);
        let first = futures::poll!(fut.as_mut());
        drop(open_gate);
        let _ = gate_task.await;
        let out = match first {
            std::task::Poll::Ready(out) => Ok(out),
            // offline the first lookup fails at once; the guard only matters where a resolver hangs
            std::task::Poll::Pending => tokio::time::timeout(Duration::from_secs(5), fut).await,
        };
        match out {
            Err(_) => {
                timed_out = true;
                Res::Network
            }
            Ok(Ok(n)) => {
                if EVENTS.lock().unwrap().iter().any(|e| e.get("message") == Some(MSG_IMS)) {
                    Res::Connected
                } else {
                    Res::Ok(n)
                }
            }
            Ok(Err(DataError::Socket(s))) if s.starts_with("WebSocket error: ") => Res::Network,
            Ok(Err(e)) => Res::Err(e.to_string()),
        }
    });
    let evs = std::mem::take(&mut *EVENTS.lock().unwrap());
    (evs, res, timed_out)
}

struct Tables {
    connectors: Vec<String>,
}

fn observe<I: DInst>(
    rt: &tokio::runtime::Runtime,
    tables: &Tables,
    batches: Vec<Vec<Subscription<ExchangeId, I, SubKind>>>,
    lines: &mut Vec<String>,
) {
    // the instruments of this op, by their `Debug` text
    let mut by_debug: HashMap<String, I> = HashMap::new();
    for s in batches.iter().flatten() {
        by_debug.insert(format!("{:?}", s.instrument), s.instrument.clone());
    }
    // `sort_unstable_by_key` reorders equal keys from 21 elements on: then the order inside a group is not
    // compared (instruments sorted, display suppressed), as in c13v.rs
    let long = match validate_batches::<_, _, Subscription<ExchangeId, I, SubKind>, I>(batches.clone()) {
        Ok(vs) => vs.iter().any(|b| b.len() > 20),
        Err(_) => false,
    };

    let (evs, res, timed_out) = drive(rt, batches);

    let mut calls = 0usize;
    // (id, instrument, kind) of every subscription handed to a subscriber
    let mut isubs: Vec<(String, Option<I>, String)> = vec![];
    for ev in &evs {
        match ev.get("message") {
            Some(MSG_IMS) if ev.target == "barter_data::streams::consumer" => {
                calls += 1;
                let id = exchange_no(ev.get("exchange").unwrap_or("?"));
                let pol = ev.get("policy").unwrap_or("");
                let p = |name: &str, end: &str| between(pol, name, end).unwrap_or("?").to_string();
                let disp = if long { "-".to_string() } else { tokenise(ev.get("subscriptions").unwrap_or("?")) };
                lines.push(format!(
                    "ims {id} {} {} {} {} {disp}",
                    p("backoff_ms_initial: ", ","),
                    p("backoff_multiplier: ", ","),
                    p("backoff_ms_max: ", " }"),
                    tokenise(ev.get("stream_key").unwrap_or("?")),
                ));
            }
            Some(MSG_SUB) if ev.target == "barter_data::subscriber" => {
                let id = exchange_no(ev.get("exchange").unwrap_or("?"));
                let url = tokenise(ev.get("url").unwrap_or("?"));
                match ev.get("subscriptions").and_then(read_subscriptions) {
                    None => lines.push(format!("conn {id} ? ? {url} unreadable")),
                    Some(subs) => {
                        let uniq = |xs: Vec<String>| -> String {
                            let mut u = xs.clone();
                            u.dedup();
                            if u.len() == 1 { u[0].clone() } else { format!("?{}", xs.join("+")) }
                        };
                        let conn = uniq(
                            subs.iter()
                                .map(|(x, _, _)| match tables.connectors.iter().position(|c| c == x) {
                                    Some(n) => format!("c{n}"),
                                    None => format!("?{}", tokenise(x)),
                                })
                                .collect(),
                        );
                        let kind = uniq(
                            subs.iter()
                                .map(|(_, _, k)| match KIND_TYPE_DEBUG.iter().position(|c| c == k) {
                                    Some(n) => n.to_string(),
                                    None => format!("?{}", tokenise(k)),
                                })
                                .collect(),
                        );
                        let mut insts: Vec<Option<I>> = subs.iter().map(|(_, i, _)| by_debug.get(i).cloned()).collect();
                        if long {
                            insts.sort();
                        }
                        let toks: Vec<String> = insts
                            .iter()
                            .map(|i| i.as_ref().map(I::tok).unwrap_or_else(|| "?".into()))
                            .collect();
                        lines.push(
                            format!("conn {id} {kind} {conn} {url} {} {}", subs.len(), toks.join(" "))
                                .trim_end()
                                .to_string(),
                        );
                        for i in insts {
                            isubs.push((id.clone(), i, kind.clone()));
                        }
                    }
                }
            }
            Some(MSG_REQ) if ev.target == "barter_integration::protocol::websocket" => {
                let url = ev.get("request").and_then(read_url_debug).unwrap_or_else(|| "?".into());
                lines.push(format!("req {url}"));
            }
            _ => {}
        }
    }
    lines.push(format!("calls {calls}"));
    // the initialised subscriptions as a multiset: printed in the byte order of the printed lines — a canonical
    // order of the HARNESS, independent of any `Ord` of the code under test (the specification says nothing about
    // order; until the sub-check review the lines were sorted with the derived `Ord` of `MarketDataInstrument`,
    // which made the oracle depend on how asset names compare)
    let mut isub_lines: Vec<String> = isubs
        .iter()
        .map(|(id, i, k)| format!("isub {id},{},{k}", i.as_ref().map(I::tok).unwrap_or_else(|| "?".into())))
        .collect();
    isub_lines.sort();
    lines.extend(isub_lines);
    match res {
        Res::Ok(n) => lines.push(format!("res ok {} {} {} {}", n[0], n[1], n[2], n[3])),
        Res::Connected => lines.push("res connected".into()),
        Res::Network => lines.push("res network".into()),
        Res::Err(m) => {
            lines.push("res err".into());
            lines.push(format!("msg {m}"));
        }
    }
    if timed_out {
        lines.push("# init did not return within 5 s (resolver hangs?)".into());
    }
}

fn runtime() -> tokio::runtime::Runtime {
    tokio::runtime::Builder::new_current_thread()
        .enable_all()
        .max_blocking_threads(1)
        .build()
        .unwrap()
}

fn install() -> Tables {
    for (i, e) in ALL.iter().enumerate() {
        assert_eq!(*e as usize, i, "ExchangeId declaration order");
    }
    tracing::subscriber::set_global_default(Recorder).expect("no other tracing subscriber in this process");
    let connectors = connector_debug();
    for (i, a) in connectors.iter().enumerate() {
        for b in &connectors[i + 1..] {
            assert_ne!(a, b, "two connector types with one Debug text");
        }
    }
    Tables { connectors }
}

fn run() {
    let tables = install();
    let rt = runtime();
    run_cases(|case, lines| {
        for op in &case.ops {
            lines.push("@".into());
            match op[0].as_str() {
                "init" => match parse_batches(&op[1..]) {
                    Some(batches) => observe(&rt, &tables, batches, lines),
                    None => lines.push("bad-op".into()),
                },
                // the same function at the instrument type `Keyed<InstrumentIndex, MarketDataInstrument>`
                "initk" => match parse_batches_with(&op[1..], parse_ksub) {
                    Some(batches) => observe(&rt, &tables, batches, lines),
                    None => lines.push("bad-op".into()),
                },
                _ => lines.push("bad-op".into()),
            }
        }
    });
}

/// exit 0: the observation point works here (an arm logs, the connection attempt fails at once);
/// exit 3: it does not (the connection succeeds, or hangs, or nothing is logged) -> proof obligations only
fn probe_env() {
    let tables = install();
    let rt = runtime();
    let t0 = std::time::Instant::now();
    let sub = parse_sub("7,0/1/s,0").unwrap();
    let mut lines = vec![];
    observe(&rt, &tables, vec![vec![sub]], &mut lines);
    let ok = lines.iter().any(|l| l.starts_with("ims 7 "))
        && lines.iter().any(|l| l.starts_with("conn 7 0 c0 "))
        && lines.iter().any(|l| l.starts_with("req wss://"))
        && lines.iter().any(|l| l == "res network")
        && t0.elapsed() < Duration::from_secs(2);
    if ok {
        println!("tracing observation point available; connection attempts fail at once ({:?})", t0.elapsed());
    } else {
        println!(
            "DynamicStreams::init cannot be observed here (needs: no network, a resolver that fails at once): {}",
            lines.join(" ; ")
        );
        std::process::exit(3);
    }
}

// ------------------------------------------------------------------------------------------------ generator

const EXPIRIES: [i64; 3] = [1735689600000, 1743120000000, 1766707200000];

/// the 15 exchange ids with a connector, Gateio's six listed twice (same-family confusions are the point)
const CONNECTED: [usize; 21] = [7, 4, 10, 15, 21, 20, 23, 32, 28, 27, 31, 30, 29, 36, 40, 28, 27, 31, 30, 29, 32];

const CLASS_TOKS: [&str; 4] = ["s", "p", "f1743120000000", "o1.2.1743120000000.30000"];

fn gen_ik_of_class(rng: &mut Rng, class: usize) -> String {
    match class {
        0 => "s".into(),
        1 => "p".into(),
        2 => format!("f{}", rng.pick(&EXPIRIES)),
        _ => format!(
            "o{}.{}.{}.{}",
            rng.below(2),
            rng.below(3),
            rng.pick(&EXPIRIES),
            rng.pick(&[30000u64, 50000, 50001])
        ),
    }
}

/// the supported `(exchange, kind, instrument kind class)` triples, from the REAL table
fn supported_triples() -> Vec<(usize, usize, usize)> {
    let mut v = vec![];
    for e in 0..42 {
        for k in 0..6 {
            for (c, t) in CLASS_TOKS.iter().enumerate() {
                if exchange_supports_instrument_kind_sub_kind(&ALL[e], &parse_ik(t).unwrap(), KINDS[k]) {
                    v.push((e, k, c));
                }
            }
        }
    }
    v
}

/// one group: 1..=max subscriptions of one supported (exchange, kind), few distinct instruments
fn gen_group(rng: &mut Rng, sup: &[(usize, usize, usize)], nb: u64, max: i64) -> Vec<String> {
    let e = *rng.pick(&CONNECTED);
    let cands: Vec<&(usize, usize, usize)> = sup.iter().filter(|t| t.0 == e).collect();
    let (e, k, _) = **rng.pick(&cands);
    let classes: Vec<usize> = sup.iter().filter(|t| t.0 == e && t.1 == k).map(|t| t.2).collect();
    let n = rng.range(1, max);
    (0..n)
        .map(|_| {
            let c = *rng.pick(&classes);
            format!("{e},{}/{}/{},{k}", rng.below(nb), rng.below(2), gen_ik_of_class(rng, c))
        })
        .collect()
}

fn gen_any_sub(rng: &mut Rng, nb: u64) -> String {
    let c = rng.below(4) as usize;
    format!("{},{}/{}/{},{}", rng.below(42), rng.below(nb), rng.below(2), gen_ik_of_class(rng, c), rng.below(6))
}

fn shuffle(rng: &mut Rng, v: &mut [String]) {
    for i in (1..v.len()).rev() {
        let j = rng.below(i as u64 + 1) as usize;
        v.swap(i, j);
    }
}

fn gen_batch(rng: &mut Rng, sup: &[(usize, usize, usize)], nb: u64, groups: i64, per_group: i64) -> Vec<String> {
    let mut v: Vec<String> = vec![];
    for _ in 0..rng.range(0, groups) {
        v.extend(gen_group(rng, sup, nb, per_group));
    }
    // verbatim repeats
    let reps = if v.is_empty() { 0 } else { rng.range(0, 2) };
    for _ in 0..reps {
        let d = rng.pick(&v).clone();
        v.push(d);
    }
    shuffle(rng, &mut v);
    v
}

fn join_batches(bs: &[Vec<String>]) -> String {
    format!("init {}", bs.iter().map(|b| b.join(" ")).collect::<Vec<_>>().join(" | "))
        .trim_end()
        .to_string()
}

fn generate(seed: u64, n_cases: usize, tier: &str) {
    let mut out = Out::new();
    let mut rng = Rng::new(seed);
    let thorough = tier == "thorough";
    let sup = supported_triples();

    // fixed: every (exchange, sub kind) of the 42 x 6 table alone, under every instrument kind class
    // (thorough) / under the classes the table supports, or spot (quick): first as one case per subscription
    // (so that a failure has a one-line replay), then as one case
    let mut sweep: Vec<String> = vec![];
    for e in 0..42 {
        for k in 0..6 {
            for (c, t) in CLASS_TOKS.iter().enumerate() {
                let supported = sup.contains(&(e, k, c));
                if thorough || supported || (c == 0 && !sup.iter().any(|x| x.0 == e && x.1 == k)) {
                    sweep.push(format!("init {e},3/1/{t},{k}"));
                }
            }
        }
    }
    for (i, l) in sweep.iter().enumerate() {
        out.case(format!("s{i}"));
        out.line(l);
    }
    out.case("sweep");
    for l in &sweep {
        out.line(l);
    }
    // fixed: every arm at once — one batch holding two instruments for every supported (exchange, kind), the
    // same as one batch per pair, and the same again with every subscription repeated
    let mut everything: Vec<Vec<String>> = vec![];
    for e in 0..42 {
        for k in 0..6 {
            if let Some(t) = sup.iter().find(|x| x.0 == e && x.1 == k) {
                let ik = CLASS_TOKS[t.2];
                everything.push(vec![format!("{e},5/1/{ik},{k}"), format!("{e},2/0/{ik},{k}")]);
            }
        }
    }
    out.case("every-arm");
    out.line(join_batches(&[everything.concat()]));
    out.line(join_batches(&everything));
    let mut twice = everything.concat();
    twice.extend(everything.concat());
    out.line(join_batches(&[twice]));
    out.line("init");
    out.line("init |");

    for id in 0..n_cases {
        out.case(format!("r{id}"));
        let nb = *rng.pick(&[2u64, 3, 6]);
        let n_ops = rng.range(1, 3);
        for _ in 0..n_ops {
            let r = rng.below(100);
            let big = rng.chance(if thorough { 10 } else { 4 });
            let n_batches = if r < 4 { 0 } else { rng.range(1, 4) };
            let mut batches: Vec<Vec<String>> = (0..n_batches)
                .map(|_| {
                    if big {
                        // more than 20 validated subscriptions: the unstable sort reorders equal keys
                        gen_batch(&mut rng, &sup, 40, 3, 25)
                    } else {
                        gen_batch(&mut rng, &sup, nb, 5, 4)
                    }
                })
                .collect();
            // the same key in several batches: separate connections
            if batches.len() >= 2 && rng.chance(35) {
                let d = batches[0].clone();
                let take = rng.range(0, d.len() as i64) as usize;
                let last = batches.len() - 1;
                batches[last].extend(d.into_iter().take(take));
            }
            // the malformed stream: unsupported (exchange, kind, instrument kind) combinations somewhere
            if rng.chance(15) && !batches.is_empty() {
                for _ in 0..rng.range(1, 2) {
                    let b = rng.below(batches.len() as u64) as usize;
                    let s = gen_any_sub(&mut rng, nb);
                    let at = rng.range(0, batches[b].len() as i64) as usize;
                    batches[b].insert(at, s);
                }
            }
            out.line(join_batches(&batches));
        }
    }
    generate_keyed(seed, n_cases / 5, thorough, &sup, &mut out);
    out.flush();
}

/// `e,i,k` -> `e,<key>~i,k`
fn with_key(sub: &str, key: u64) -> String {
    let p: Vec<&str> = sub.split(',').collect();
    format!("{},{}~{},{}", p[0], key, p[1], p[2])
}

/// CONFIGURATION-SHAPE family (separately seeded, ids `cfgk<n>`; the cases above are unchanged by it): the SAME
/// `DynamicStreams::init`, instantiated with the keyed instrument type the engine's indexed streams are built from
/// (`Keyed<InstrumentIndex, MarketDataInstrument>`, op `initk`). Batches as in the random family; the keys are
/// either a proper index (one key per distinct (exchange, instrument) of the op, numbered in a shuffled order
/// from an offset: key order != subscription order != instrument order) or drawn from a pool of 1 / 2 / 4 keys,
/// so that ONE instrument occurs under SEVERAL keys (two subscriptions, both initialised) and SEVERAL
/// instruments share ONE key (likewise: the key is the caller's business, `dedup` compares whole subscriptions).
fn generate_keyed(seed: u64, n: usize, thorough: bool, sup: &[(usize, usize, usize)], out: &mut Out) {
    let mut rng = Rng::new(seed ^ 0xC13D_0CF6);
    // fixed: every arm at once under keys that run AGAINST the instrument order
    let mut everything: Vec<String> = vec![];
    let mut key = 100u64;
    for e in 0..42 {
        for k in 0..6 {
            if let Some(t) = sup.iter().find(|x| x.0 == e && x.1 == k) {
                let ik = CLASS_TOKS[t.2];
                everything.push(format!("{e},{}~2/0/{ik},{k}", key));
                everything.push(format!("{e},{}~5/1/{ik},{k}", key - 1));
                key -= 2;
            }
        }
    }
    out.case("cfgk-every-arm");
    out.line(format!("initk {}", everything.join(" ")));
    out.line("initk");
    out.line("initk |");
    for id in 0..n {
        out.case(format!("cfgk{id}"));
        let nb = *rng.pick(&[2u64, 3, 6]);
        for _ in 0..rng.range(1, 2) {
            let big = rng.chance(if thorough { 8 } else { 3 });
            let n_batches = rng.range(1, 3);
            let mut batches: Vec<Vec<String>> = (0..n_batches)
                .map(|_| if big { gen_batch(&mut rng, sup, 40, 3, 25) } else { gen_batch(&mut rng, sup, nb, 4, 4) })
                .collect();
            if batches.len() >= 2 && rng.chance(35) {
                let d = batches[0].clone();
                let take = rng.range(0, d.len() as i64) as usize;
                let last = batches.len() - 1;
                batches[last].extend(d.into_iter().take(take));
            }
            if rng.chance(12) {
                let b = rng.below(batches.len() as u64) as usize;
                let s = gen_any_sub(&mut rng, nb);
                let at = rng.range(0, batches[b].len() as i64) as usize;
                batches[b].insert(at, s);
            }
            let keyed: Vec<Vec<String>> = if rng.chance(45) {
                // a proper index over the distinct (exchange, instrument) of the op, in a shuffled order
                let mut distinct: Vec<String> = vec![];
                for s in batches.iter().flatten() {
                    let p: Vec<&str> = s.split(',').collect();
                    let ei = format!("{},{}", p[0], p[1]);
                    if !distinct.contains(&ei) {
                        distinct.push(ei);
                    }
                }
                shuffle(&mut rng, &mut distinct);
                let offset = *rng.pick(&[0u64, 0, 7, 1000]);
                batches
                    .iter()
                    .map(|b| {
                        b.iter()
                            .map(|s| {
                                let p: Vec<&str> = s.split(',').collect();
                                let ei = format!("{},{}", p[0], p[1]);
                                with_key(s, offset + distinct.iter().position(|d| *d == ei).unwrap() as u64)
                            })
                            .collect()
                    })
                    .collect()
            } else {
                let pool = *rng.pick(&[1u64, 2, 2, 4]);
                batches.iter().map(|b| b.iter().map(|s| with_key(s, rng.below(pool))).collect()).collect()
            };
            out.line(format!("initk {}", keyed.iter().map(|b| b.join(" ")).collect::<Vec<_>>().join(" | ")).trim_end().to_string());
        }
    }
}

fn main() {
    let a = args();
    match a.cmd.as_str() {
        "gen" => generate(a.seed, a.n, &a.tier),
        "run" => run(),
        "probe-env" => probe_env(),
        _ => {
            eprintln!("usage: c13d gen <seed> <n> <tier> | run < cases | probe-env");
            std::process::exit(2)
        }
    }
}
