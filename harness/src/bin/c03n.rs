//! C03N — `NoneOneOrMany` / `OneOrMany` and their use in audits and action outputs.
//! Ops: see `lean/BarterModel/Driver/C03N.lean`. Every op calls the real functions of
//! barter-integration/src/collection/{none_one_or_many,one_or_many}.rs, barter/src/engine/audit/mod.rs,
//! barter/src/engine/action/{mod,send_requests,generate_algo_orders}.rs; `eng` drives the real
//! `Engine::process` (exchange 0 healthy link, exchanges 1 and 2 closed links).
use barter::{
    engine::{
        EngineOutput, Processor, UpdateFromAccountOutput, UpdateFromMarketOutput,
        action::{
            ActionOutput,
            generate_algo_orders::GenerateAlgoOrdersOutput,
            send_requests::{SendCancelsAndOpensOutput, SendRequestsOutput},
        },
        audit::{EngineAudit, ProcessAudit},
        error::{EngineError, RecoverableEngineError, UnrecoverableEngineError},
        state::position::PositionExited,
    },
    risk::RiskRefused,
};
use barter_execution::{
    order::{
        OrderEvent, OrderKey, OrderKind, TimeInForce,
        id::{ClientOrderId, StrategyId},
        request::{OrderRequestCancel, OrderRequestOpen, RequestCancel, RequestOpen},
    },
    trade::AssetFees,
};
use barter_instrument::{Side, asset::QuoteAsset, exchange::ExchangeIndex, instrument::InstrumentIndex};
use barter_integration::{
    FeedEnded, Terminal,
    collection::{none_one_or_many::NoneOneOrMany, one_or_many::OneOrMany},
};
use rust_decimal::Decimal;
use std::borrow::{Borrow, BorrowMut};
use vh::{
    engine_proto::{Built2, build_event, init_world, parse_reqs},
    engine_util::*,
    *,
};

type N = NoneOneOrMany<i64>;
type O = OneOrMany<i64>;

#[derive(Debug, Clone, PartialEq)]
struct Ev(bool);
impl Terminal for Ev {
    fn is_terminal(&self) -> bool {
        self.0
    }
}
type EO = EngineOutput<i64, i64>;
type PA = ProcessAudit<Ev, EO>;

fn ints(v: &[i64]) -> String {
    v.iter().map(|x| x.to_string()).collect::<Vec<_>>().join(" ")
}
fn line(key: &str, rest: String) -> String {
    if rest.is_empty() { key.to_string() } else { format!("{key} {rest}") }
}
fn b(x: bool) -> &'static str {
    if x { "1" } else { "0" }
}
fn parse_ints(t: &[String]) -> Vec<i64> {
    t.iter().map(|x| x.parse().expect("int")).collect()
}

/// the literal variant, through `Deserialize`
fn raw_n(t: &[String]) -> N {
    let json = match t[0].as_str() {
        "none" => "\"None\"".to_string(),
        "one" => format!("{{\"One\":{}}}", t[1]),
        "many" => format!("{{\"Many\":[{}]}}", t[1..].join(",")),
        other => panic!("bad raw {other}"),
    };
    serde_json::from_str(&json).expect("deserialize NoneOneOrMany")
}
fn raw_o(t: &[String]) -> O {
    let json = match t[0].as_str() {
        "one" => format!("{{\"One\":{}}}", t[1]),
        "many" => format!("{{\"Many\":[{}]}}", t[1..].join(",")),
        other => panic!("bad raw {other}"),
    };
    serde_json::from_str(&json).expect("deserialize OneOrMany")
}

fn n_shape<T>(n: &NoneOneOrMany<T>) -> &'static str {
    match n {
        NoneOneOrMany::None => "none",
        NoneOneOrMany::One(_) => "one",
        NoneOneOrMany::Many(_) => "many",
    }
}
fn o_shape<T>(o: &OneOrMany<T>) -> &'static str {
    match o {
        OneOrMany::One(_) => "one",
        OneOrMany::Many(_) => "many",
    }
}
fn opt_shape<T>(o: &Option<OneOrMany<T>>) -> &'static str {
    match o {
        None => "none",
        Some(v) => o_shape(v),
    }
}
fn sorted(mut v: Vec<i64>) -> Vec<i64> {
    v.sort();
    v
}

fn obs_n(n: &N, lines: &mut Vec<String>) {
    lines.push(line("shape", n_shape(n).into()));
    lines.push(line("len", n.len().to_string()));
    lines.push(line("flags", format!("{} {} {} {}", b(n.is_empty()), b(n.is_none()), b(n.is_one()), b(n.is_many()))));
    lines.push(line("vec", ints(&n.clone().into_vec())));
    lines.push(line("iter", ints(&n.iter().copied().collect::<Vec<_>>())));
    lines.push(line("into", ints(&n.clone().into_iter().collect::<Vec<_>>())));
    let as_ref: &[i64] = n.as_ref();
    let borrowed: &[i64] = n.borrow();
    let by_ref: Vec<i64> = (&*n).into_iter().copied().collect();
    if as_ref != borrowed || as_ref != by_ref.as_slice() {
        lines.push("asref-borrow-mismatch".into());
    }
    lines.push(line("asref", ints(as_ref)));
    lines.push(line("bag", ints(&sorted(as_ref.to_vec()))));
    let json = serde_json::to_string(n).unwrap();
    if serde_json::from_str::<N>(&json).unwrap() != *n {
        lines.push("serde-roundtrip-mismatch".into());
    }
    lines.push(line("json", json));
    let into_opt = n.clone().into_option();
    let from_nom: Option<O> = Option::from(n.clone());
    lines.push(line("intoopt", opt_shape(&into_opt).into()));
    lines.push(line("fromnom", opt_shape(&from_nom).into()));
    lines.push(line("optvec", match into_opt {
        None => "-".into(),
        Some(v) => ints(&v.into_vec()),
    }));
}

fn obs_o(o: &O, lines: &mut Vec<String>) {
    lines.push(line("oshape", o_shape(o).into()));
    lines.push(line("olen", o.len().to_string()));
    lines.push(line("oflags", format!("{} {}", b(o.is_one()), b(o.is_many()))));
    lines.push(line("ovec", ints(&o.clone().into_vec())));
    lines.push(line("oiter", ints(&o.iter().copied().collect::<Vec<_>>())));
    lines.push(line("ointo", ints(&o.clone().into_iter().collect::<Vec<_>>())));
    let as_ref: &[i64] = o.as_ref();
    let borrowed: &[i64] = o.borrow();
    let by_ref: Vec<i64> = (&*o).into_iter().copied().collect();
    if as_ref != borrowed || as_ref != by_ref.as_slice() {
        lines.push("asref-borrow-mismatch".into());
    }
    lines.push(line("oref", ints(as_ref)));
    lines.push(line("obag", ints(&sorted(as_ref.to_vec()))));
    let json = serde_json::to_string(o).unwrap();
    if serde_json::from_str::<O>(&json).unwrap() != *o {
        lines.push("serde-roundtrip-mismatch".into());
    }
    lines.push(line("ojson", json));
}

fn ord(o: std::cmp::Ordering) -> &'static str {
    match o {
        std::cmp::Ordering::Less => "lt",
        std::cmp::Ordering::Equal => "eq",
        std::cmp::Ordering::Greater => "gt",
    }
}

fn px(d: i64) -> PositionExited<QuoteAsset, InstrumentIndex> {
    PositionExited {
        instrument: InstrumentIndex(0),
        side: Side::Buy,
        price_entry_average: Decimal::ONE,
        quantity_abs_max: Decimal::ONE,
        pnl_realised: Decimal::from(d),
        fees_enter: AssetFees::quote_fees(Decimal::ZERO),
        fees_exit: AssetFees::quote_fees(Decimal::ZERO),
        time_enter: t0(),
        time_exit: t0(),
        trades: vec![],
    }
}

fn parse_out(s: &str) -> EO {
    let (k, d) = s.split_once(':').expect("out");
    let d: i64 = d.parse().expect("out payload");
    match k {
        "td" => EngineOutput::OnTradingDisabled(d),
        "ad" => EngineOutput::AccountDisconnect(d),
        "md" => EngineOutput::MarketDisconnect(d),
        "px" => EngineOutput::PositionExit(px(d)),
        other => panic!("bad out {other}"),
    }
}
fn fmt_out<A: std::fmt::Display, B: std::fmt::Display>(o: &EngineOutput<A, B>) -> String {
    match o {
        EngineOutput::Commanded(_) => "cmd".into(),
        EngineOutput::OnTradingDisabled(d) => format!("td:{d}"),
        EngineOutput::AccountDisconnect(d) => format!("ad:{d}"),
        EngineOutput::PositionExit(p) => format!("px:{}", p.pnl_realised),
        EngineOutput::MarketDisconnect(d) => format!("md:{d}"),
        EngineOutput::AlgoOrders(_) => "algo".into(),
    }
}
fn custom(ids: &[i64]) -> Vec<UnrecoverableEngineError> {
    ids.iter().map(|i| UnrecoverableEngineError::Custom(i.to_string())).collect()
}
fn err_id(e: &UnrecoverableEngineError) -> String {
    match e {
        UnrecoverableEngineError::Custom(s) => s.clone(),
        UnrecoverableEngineError::ExecutionChannelTerminated(s) => s.clone(),
        UnrecoverableEngineError::IndexError(e) => format!("index:{e:?}").replace(' ', "_"),
    }
}
fn pt(t: &str) -> bool {
    match t {
        "0" => false,
        "1" => true,
        other => panic!("bad bool {other}"),
    }
}

fn obs_a(a: &PA, lines: &mut Vec<String>) {
    let mut outs = vec![n_shape(&a.outputs).to_string()];
    outs.extend(a.outputs.iter().map(fmt_out));
    lines.push(format!("outputs {}", outs.join(" ")));
    let ids: Vec<String> = a.errors.iter().map(err_id).collect();
    let mut errs = vec![n_shape(&a.errors).to_string()];
    errs.extend(ids.iter().cloned());
    lines.push(format!("errors {}", errs.join(" ")));
    lines.push(format!("nerr {}", a.errors.len()));
    lines.push(line("errbag", ints(&sorted(ids.iter().map(|s| s.parse().unwrap()).collect()))));
    lines.push(format!("terminal {}", b(a.is_terminal())));
    lines.push(format!("eterminal {}", b(EngineAudit::Process(a.clone()).is_terminal())));
}

fn key(cid: i64) -> OrderKey<ExchangeIndex, InstrumentIndex> {
    OrderKey {
        exchange: ExchangeIndex(0),
        instrument: InstrumentIndex(0),
        strategy: StrategyId::new("verif"),
        cid: ClientOrderId::new(cid.to_string()),
    }
}
fn cancel(cid: i64) -> OrderRequestCancel<ExchangeIndex, InstrumentIndex> {
    OrderEvent { key: key(cid), state: RequestCancel { id: None } }
}
fn open(cid: i64) -> OrderRequestOpen<ExchangeIndex, InstrumentIndex> {
    OrderEvent {
        key: key(cid),
        state: RequestOpen {
            side: Side::Buy,
            price: Decimal::ONE,
            quantity: Decimal::ONE,
            kind: OrderKind::Market,
            time_in_force: TimeInForce::ImmediateOrCancel,
        },
    }
}

/// the tail of `send_requests` (send_requests.rs:72) over scripted per-request results
fn send_out<K: Clone>(
    toks: &[String],
    mk: impl Fn(i64) -> OrderEvent<K, ExchangeIndex, InstrumentIndex>,
) -> SendRequestsOutput<K, ExchangeIndex, InstrumentIndex> {
    let mut sent = vec![];
    let mut errors = vec![];
    for t in toks {
        let id: i64 = t[1..].parse().expect("result id");
        match &t[..1] {
            "s" => sent.push(mk(id)),
            "r" => errors.push((
                mk(id),
                EngineError::Recoverable(RecoverableEngineError::ExecutionChannelUnhealthy(id.to_string())),
            )),
            "u" => errors.push((
                mk(id),
                EngineError::Unrecoverable(UnrecoverableEngineError::ExecutionChannelTerminated(id.to_string())),
            )),
            other => panic!("bad result {other}"),
        }
    }
    SendRequestsOutput::new(NoneOneOrMany::from(sent), NoneOneOrMany::from(errors))
}

fn obs_unrec(u: &NoneOneOrMany<UnrecoverableEngineError>, lines: &mut Vec<String>) {
    let ids: Vec<String> = u.iter().map(err_id).collect();
    let mut v = vec![n_shape(u).to_string()];
    v.extend(ids.iter().cloned());
    lines.push(format!("unrec {}", v.join(" ")));
    lines.push(format!("nunrec {}", u.len()));
    lines.push(line("unrecbag", ints(&sorted(ids.iter().map(|s| s.parse().unwrap()).collect()))));
}
fn obs_act_unrec(u: &Option<OneOrMany<UnrecoverableEngineError>>, lines: &mut Vec<String>) {
    let mut v = vec![opt_shape(u).to_string()];
    if let Some(u) = u {
        v.extend(u.iter().map(err_id));
    }
    lines.push(format!("actunrec {}", v.join(" ")));
}
fn obs_so<K>(s: &SendRequestsOutput<K, ExchangeIndex, InstrumentIndex>, lines: &mut Vec<String>) {
    let mut v = vec![n_shape(&s.sent).to_string()];
    v.extend(s.sent.iter().map(|r| r.key.cid.0.to_string()));
    lines.push(format!("sent {}", v.join(" ")));
    let mut v = vec![n_shape(&s.errors).to_string()];
    v.extend(s.errors.iter().map(|(_, e)| match e {
        EngineError::Recoverable(RecoverableEngineError::ExecutionChannelUnhealthy(s)) => format!("r{s}"),
        EngineError::Unrecoverable(e) => format!("u{}", err_id(e)),
    }));
    lines.push(format!("errs {}", v.join(" ")));
    lines.push(format!("empty {}", b(s.is_empty())));
    obs_unrec(&s.unrecoverable_errors(), lines);
}

fn split_slash(toks: &[String]) -> Vec<Vec<String>> {
    toks.split(|t| t == "/").map(|g| g.to_vec()).collect()
}

/// one call of the real `Engine::process`
fn eng(toks: &[String], lines: &mut Vec<String>) {
    let init: Vec<String> = [toks[0].as_str(), "L", "HCC", "I", "0,0,3", "1,0,3", "2,0,3"]
        .iter()
        .map(|s| s.to_string())
        .collect();
    let mut w = init_world(&init);
    let groups = split_slash(&toks[2..]);
    assert_eq!(groups.len(), 3, "eng needs three request groups");
    // ex:cid -> engine protocol request tokens (instrument label = exchange label)
    let req = |kind: &str, t: &String| {
        let (ex, cid) = t.split_once(':').expect("req");
        if kind == "c" { format!("c:{ex}:{ex}:{cid}") } else { format!("o:{ex}:{ex}:{cid}:B:100:1") }
    };
    let ev_toks: Vec<String> = match toks[1].as_str() {
        "shutdown" => vec!["shutdown".into()],
        "cmdc" => std::iter::once("cmd_cancel".to_string()).chain(groups[0].iter().map(|t| req("c", t))).collect(),
        "cmdo" => std::iter::once("cmd_open".to_string()).chain(groups[0].iter().map(|t| req("o", t))).collect(),
        "ts_on" => vec!["trading".into(), "on".into()],
        "ts_off" => vec!["trading".into(), "off".into()],
        "mkt" => vec!["other".into(), "acc".into(), "0".into()],
        "mktre" => vec!["other".into(), "mktre".into(), "0".into()],
        "accre" => vec!["other".into(), "accre".into(), "0".into()],
        other => panic!("bad eng event {other}"),
    };
    let algo_c = parse_reqs(&w, &groups[1].iter().map(|t| req("c", t)).collect::<Vec<_>>()).0;
    let algo_o = parse_reqs(&w, &groups[2].iter().map(|t| req("o", t)).collect::<Vec<_>>()).1;
    let event = match build_event(&mut w, &ev_toks) {
        Built2::Event(e, _) => e,
        _ => panic!("event not built"),
    };
    w.built.engine.strategy.script.borrow_mut().push_back((algo_c, algo_o));
    let audit = w.built.engine.process(event);
    let terminal = audit.is_terminal();
    let EngineAudit::Process(p) = audit else {
        lines.push("feedended".into());
        return;
    };
    // label of the exchange an `ExecutionChannelTerminated` error names
    let label = |e: &UnrecoverableEngineError| -> String {
        let s = err_id(e);
        match s.strip_prefix("ExchangeIndex(").and_then(|r| r.split_once(')')) {
            Some((idx, _)) => {
                let idx: usize = idx.parse().unwrap();
                w.ex_idx.iter().position(|x| *x == idx).unwrap().to_string()
            }
            None => s.replace(' ', "_"),
        }
    };
    let mut outs = vec![n_shape(&p.outputs).to_string()];
    outs.extend(p.outputs.iter().map(|o| match o {
        EngineOutput::Commanded(_) => "cmd".to_string(),
        EngineOutput::OnTradingDisabled(()) => "td:0".into(),
        EngineOutput::AccountDisconnect(()) => "ad:0".into(),
        EngineOutput::MarketDisconnect(()) => "md:0".into(),
        EngineOutput::PositionExit(_) => "px:0".into(),
        EngineOutput::AlgoOrders(_) => "algo".into(),
    }));
    lines.push(format!("outputs {}", outs.join(" ")));
    let ids: Vec<String> = p.errors.iter().map(label).collect();
    let mut errs = vec![n_shape(&p.errors).to_string()];
    errs.extend(ids.iter().cloned());
    lines.push(format!("errors {}", errs.join(" ")));
    lines.push(format!("nerr {}", p.errors.len()));
    let mut bag = ids.clone();
    bag.sort();
    lines.push(line("errbag", bag.join(" ")));
    lines.push(format!("terminal {}", b(terminal)));
}

fn run() {
    run_cases(|case, lines| {
        let mut n: N = N::default();
        let mut o: O = OneOrMany::One(0);
        let mut a: PA = PA::with_event(Ev(false));
        for op in case.ops.iter() {
            lines.push("@".into());
            let name = op[0].as_str();
            let rest = &op[1..];
            match name {
                // ---------------------------------------------------------------- NoneOneOrMany
                "n.has" => {
                    let x: i64 = rest[0].parse().unwrap();
                    lines.push(format!("has {}", b(n.contains(&x))));
                }
                "n.cmp" => {
                    let v = raw_n(rest);
                    if (n == v) != (n.partial_cmp(&v) == Some(std::cmp::Ordering::Equal)) {
                        lines.push("eq-ord-mismatch".into());
                    }
                    lines.push(format!("eq {}", b(n == v)));
                    lines.push(format!("ord {}", ord(n.cmp(&v))));
                }
                "n.raw" | "n.vec" | "n.iter" | "n.opt" | "n.default" | "n.ext" | "n.extn" | "n.map" | "n.mut" => {
                    n = match name {
                        "n.raw" => raw_n(rest),
                        "n.vec" => N::from(parse_ints(rest)),
                        "n.iter" => parse_ints(rest).into_iter().collect::<N>(),
                        "n.opt" => N::from(rest.first().map(|x| x.parse::<i64>().unwrap())),
                        "n.default" => N::default(),
                        "n.ext" => n.extend(parse_ints(rest)),
                        "n.extn" => n.extend(raw_n(rest)),
                        "n.map" => {
                            let k: i64 = rest[0].parse().unwrap();
                            n.map(|x| x + k)
                        }
                        _ => {
                            let k: i64 = rest[0].parse().unwrap();
                            if k % 2 == 0 {
                                for x in &mut n {
                                    *x += k;
                                }
                            } else {
                                let s: &mut [i64] = n.borrow_mut();
                                for x in s.iter_mut() {
                                    *x += k;
                                }
                            }
                            n
                        }
                    };
                    obs_n(&n, lines);
                }
                // ---------------------------------------------------------------- OneOrMany
                "o.has" => {
                    let x: i64 = rest[0].parse().unwrap();
                    lines.push(format!("ohas {}", b(o.contains(&x))));
                }
                "o.cmp" => {
                    let v = raw_o(rest);
                    if (o == v) != (o.partial_cmp(&v) == Some(std::cmp::Ordering::Equal)) {
                        lines.push("eq-ord-mismatch".into());
                    }
                    lines.push(format!("oeq {}", b(o == v)));
                    lines.push(format!("oord {}", ord(o.cmp(&v))));
                }
                "o.fromn" => {
                    match n.clone().into_option() {
                        Some(v) => {
                            o = v;
                            lines.push("took 1".into());
                        }
                        None => lines.push("took 0".into()),
                    }
                    obs_o(&o, lines);
                }
                "o.vec" => {
                    let items = parse_ints(rest);
                    match std::panic::catch_unwind(|| O::from(items)) {
                        Ok(v) => {
                            o = v;
                            obs_o(&o, lines);
                        }
                        Err(_) => lines.push("panic".into()),
                    }
                }
                "o.raw" | "o.item" | "o.default" | "o.iter" | "o.ext" | "o.exto" | "o.map" | "o.mut" => {
                    o = match name {
                        "o.raw" => raw_o(rest),
                        "o.item" => O::from(rest[0].parse::<i64>().unwrap()),
                        "o.default" => O::default(),
                        "o.iter" => parse_ints(rest).into_iter().collect::<O>(),
                        "o.ext" => o.extend(parse_ints(rest)),
                        "o.exto" => o.extend(raw_o(rest)),
                        "o.map" => {
                            let k: i64 = rest[0].parse().unwrap();
                            o.map(|x| x + k)
                        }
                        _ => {
                            let k: i64 = rest[0].parse().unwrap();
                            if k % 2 == 0 {
                                for x in &mut o {
                                    *x += k;
                                }
                            } else {
                                let s: &mut [i64] = o.borrow_mut();
                                for x in s.iter_mut() {
                                    *x += k;
                                }
                            }
                            o
                        }
                    };
                    obs_o(&o, lines);
                }
                // ---------------------------------------------------------------- audit records
                "a.feedended" => {
                    let fe: EngineAudit<Ev, EO> = EngineAudit::from(FeedEnded);
                    lines.push(format!("fe_terminal {}", b(fe.is_terminal())));
                }
                "a.event" | "a.out" | "a.oe" | "a.ts" | "a.acc" | "a.mkt" | "a.addout" | "a.adderr" | "a.wpe" => {
                    a = match name {
                        "a.event" => match EngineAudit::<Ev, EO>::process(Ev(pt(&rest[0]))) {
                            EngineAudit::Process(p) => p,
                            _ => unreachable!(),
                        },
                        "a.out" => match EngineAudit::<Ev, EO>::process_with_output(Ev(pt(&rest[0])), parse_out(&rest[1])) {
                            EngineAudit::Process(p) => p,
                            _ => unreachable!(),
                        },
                        "a.oe" => match EngineAudit::<Ev, EO>::process_with_output_and_errs(
                            Ev(pt(&rest[0])),
                            custom(&parse_ints(&rest[2..])),
                            parse_out(&rest[1]),
                        ) {
                            EngineAudit::Process(p) => p,
                            _ => unreachable!(),
                        },
                        "a.ts" => PA::with_trading_state_update(Ev(pt(&rest[0])), rest.get(1).map(|d| d.parse::<i64>().unwrap())),
                        "a.acc" => {
                            let d: i64 = rest[2].parse().unwrap();
                            let out: UpdateFromAccountOutput<i64> = match rest[1].as_str() {
                                "0" => UpdateFromAccountOutput::None,
                                "1" => UpdateFromAccountOutput::OnDisconnect(d),
                                "2" => UpdateFromAccountOutput::PositionExit(px(d)),
                                other => panic!("bad account kind {other}"),
                            };
                            PA::with_account_update(Ev(pt(&rest[0])), out)
                        }
                        "a.mkt" => {
                            let out: UpdateFromMarketOutput<i64> = match rest.get(1) {
                                None => UpdateFromMarketOutput::None,
                                Some(d) => UpdateFromMarketOutput::OnDisconnect(d.parse().unwrap()),
                            };
                            PA::with_market_update(Ev(pt(&rest[0])), out)
                        }
                        "a.addout" => a.add_output(parse_out(&rest[0])),
                        "a.adderr" => a.add_errors(custom(&parse_ints(rest))),
                        _ => match EngineAudit::with_process_and_err(a, custom(&parse_ints(rest))) {
                            EngineAudit::Process(p) => p,
                            _ => unreachable!(),
                        },
                    };
                    obs_a(&a, lines);
                }
                // ---------------------------------------------------------------- action outputs
                "act.c" => {
                    let so = send_out(rest, cancel);
                    obs_so(&so, lines);
                    let act: ActionOutput = ActionOutput::CancelOrders(so);
                    obs_act_unrec(&act.unrecoverable_errors(), lines);
                }
                "act.o" => {
                    let so = send_out(rest, open);
                    obs_so(&so, lines);
                    let act: ActionOutput = ActionOutput::OpenOrders(so);
                    obs_act_unrec(&act.unrecoverable_errors(), lines);
                }
                "act.x" => {
                    let g = split_slash(rest);
                    assert_eq!(g.len(), 2);
                    let x = SendCancelsAndOpensOutput::new(send_out(&g[0], cancel), send_out(&g[1], open));
                    lines.push(format!("empty {}", b(x.is_empty())));
                    obs_unrec(&x.unrecoverable_errors(), lines);
                    let act: ActionOutput = ActionOutput::ClosePositions(x);
                    obs_act_unrec(&act.unrecoverable_errors(), lines);
                }
                "act.g" => {
                    let g = split_slash(rest);
                    assert_eq!(g.len(), 3);
                    let rc: i64 = g[2][0].parse().unwrap();
                    let ro: i64 = g[2][1].parse().unwrap();
                    let out = GenerateAlgoOrdersOutput::new(
                        send_out(&g[0], cancel),
                        send_out(&g[1], open),
                        (0..rc).map(|i| RiskRefused::new(cancel(i), "refused")).collect(),
                        (0..ro).map(|i| RiskRefused::new(open(i), "refused")).collect(),
                    );
                    lines.push(format!("empty {}", b(out.is_empty())));
                    obs_unrec(&out.cancels_and_opens.unrecoverable_errors(), lines);
                    lines.push(format!("gunrec {}", opt_shape(&out.unrecoverable_errors())));
                    let act: ActionOutput = ActionOutput::GenerateAlgoOrders(out);
                    obs_act_unrec(&act.unrecoverable_errors(), lines);
                }
                "eng" => eng(rest, lines),
                other => panic!("bad op {other}"),
            }
        }
    });
}

// ------------------------------------------------------------------------------------ generators

fn small_list(rng: &mut Rng, max: u64) -> Vec<i64> {
    // lengths biased to the boundaries 0, 1, 2
    let len = match rng.below(100) {
        0..=19 => 0,
        20..=44 => 1,
        45..=69 => 2,
        _ => rng.range(3, max as i64) as u64,
    };
    (0..len).map(|_| rng.range(0, 3)).collect()
}
fn toks(v: &[i64]) -> String {
    v.iter().map(|x| x.to_string()).collect::<Vec<_>>().join(" ")
}
fn raw_of(rng: &mut Rng, allow_none: bool) -> String {
    match rng.below(if allow_none { 3 } else { 2 }) {
        2 => "none".into(),
        0 => format!("one {}", rng.range(0, 3)),
        _ => format!("many {}", toks(&small_list(rng, 4))).trim_end().to_string(),
    }
}
fn out_tok(rng: &mut Rng) -> String {
    format!("{}:{}", rng.pick(&["td", "ad", "px", "md"]), rng.range(0, 3))
}
fn results(rng: &mut Rng, next: &mut i64, unrec_pct: u64) -> String {
    let len = match rng.below(100) {
        0..=19 => 0,
        20..=44 => 1,
        45..=69 => 2,
        _ => rng.range(3, 5),
    };
    (0..len)
        .map(|_| {
            *next += 1;
            let k = if rng.chance(unrec_pct) { "u" } else if rng.chance(30) { "r" } else { "s" };
            format!("{k}{next}")
        })
        .collect::<Vec<_>>()
        .join(" ")
}
fn reqs(rng: &mut Rng, next: &mut u64, dead_pct: u64) -> String {
    let len = match rng.below(100) {
        0..=29 => 0,
        30..=54 => 1,
        55..=79 => 2,
        _ => 3,
    };
    (0..len)
        .map(|_| {
            *next += 1;
            let ex = if rng.chance(dead_pct) { 1 + rng.below(2) } else { 0 };
            let cid = if rng.chance(15) { 5000 + *next } else { *next };
            format!("{ex}:{cid}")
        })
        .collect::<Vec<_>>()
        .join(" ")
}

fn gen_op(rng: &mut Rng, family: u64) -> String {
    let l = |s: String| s.trim_end().to_string();
    match family {
        0 => match rng.below(100) {
            0..=7 => l(format!("n.raw {}", raw_of(rng, true))),
            8..=15 => l(format!("n.vec {}", toks(&small_list(rng, 4)))),
            16..=23 => l(format!("n.iter {}", toks(&small_list(rng, 4)))),
            24..=27 => if rng.chance(50) { "n.opt".into() } else { format!("n.opt {}", rng.range(0, 3)) },
            28..=29 => "n.default".into(),
            30..=59 => l(format!("n.ext {}", toks(&small_list(rng, 4)))),
            60..=69 => l(format!("n.extn {}", raw_of(rng, true))),
            70..=75 => format!("n.map {}", rng.range(-1, 2)),
            76..=81 => format!("n.mut {}", rng.range(-1, 2)),
            82..=89 => format!("n.has {}", rng.range(0, 3)),
            _ => l(format!("n.cmp {}", raw_of(rng, true))),
        },
        1 => match rng.below(100) {
            0..=7 => l(format!("o.raw {}", raw_of(rng, false))),
            8..=13 => format!("o.item {}", rng.range(0, 3)),
            14..=15 => "o.default".into(),
            16..=23 => l(format!("o.vec {}", toks(&small_list(rng, 4)))),
            24..=31 => l(format!("o.iter {}", toks(&small_list(rng, 4)))),
            32..=59 => l(format!("o.ext {}", toks(&small_list(rng, 4)))),
            60..=67 => l(format!("o.exto {}", raw_of(rng, false))),
            68..=72 => format!("o.map {}", rng.range(-1, 2)),
            73..=77 => format!("o.mut {}", rng.range(-1, 2)),
            78..=83 => "o.fromn".into(),
            84..=91 => format!("o.has {}", rng.range(0, 3)),
            _ => l(format!("o.cmp {}", raw_of(rng, false))),
        },
        2 => match rng.below(100) {
            0..=5 => format!("a.event {}", rng.below(2)),
            6..=13 => format!("a.out {} {}", rng.below(2), out_tok(rng)),
            14..=21 => l(format!("a.oe {} {} {}", rng.below(2), out_tok(rng), toks(&small_list(rng, 4)))),
            22..=27 => if rng.chance(50) { format!("a.ts {}", rng.below(2)) } else { format!("a.ts {} {}", rng.below(2), rng.range(0, 3)) },
            28..=33 => format!("a.acc {} {} {}", rng.below(2), rng.below(3), rng.range(0, 3)),
            34..=39 => if rng.chance(50) { format!("a.mkt {}", rng.below(2)) } else { format!("a.mkt {} {}", rng.below(2), rng.range(0, 3)) },
            40..=59 => format!("a.addout {}", out_tok(rng)),
            60..=84 => l(format!("a.adderr {}", toks(&small_list(rng, 4)))),
            85..=96 => l(format!("a.wpe {}", toks(&small_list(rng, 4)))),
            _ => "a.feedended".into(),
        },
        3 => {
            let mut next = 0i64;
            let pct = *rng.pick(&[0u64, 30, 60]);
            match rng.below(4) {
                0 => l(format!("act.c {}", results(rng, &mut next, pct))),
                1 => l(format!("act.o {}", results(rng, &mut next, pct))),
                2 => {
                    let c = results(rng, &mut next, pct);
                    let o = results(rng, &mut next, pct);
                    format!("act.x {c} / {o}").replace("  ", " ").trim_end().to_string()
                }
                _ => {
                    let c = results(rng, &mut next, pct);
                    let o = results(rng, &mut next, pct);
                    format!("act.g {c} / {o} / {} {}", rng.below(3), rng.below(3)).replace("  ", " ")
                }
            }
        }
        _ => {
            let mut next = 0u64;
            let pct = *rng.pick(&[0u64, 40, 80]);
            let onoff = if rng.chance(70) { "on" } else { "off" };
            let ev = *rng.pick(&["shutdown", "cmdc", "cmdo", "ts_on", "ts_off", "mkt", "mktre", "accre"]);
            let g0 = if ev == "cmdc" || ev == "cmdo" { reqs(rng, &mut next, pct) } else { String::new() };
            let g1 = reqs(rng, &mut next, pct);
            let g2 = reqs(rng, &mut next, pct);
            format!("eng {onoff} {ev} {g0} / {g1} / {g2}").replace("  ", " ").trim_end().to_string()
        }
    }
}

/// every list over {1,2} of length <= `max`
fn all_lists(max: usize) -> Vec<Vec<i64>> {
    let mut out: Vec<Vec<i64>> = vec![vec![]];
    let mut frontier: Vec<Vec<i64>> = vec![vec![]];
    for _ in 0..max {
        let mut next = vec![];
        for l in &frontier {
            for x in [1i64, 2] {
                let mut l2 = l.clone();
                l2.push(x);
                next.push(l2);
            }
        }
        out.extend(next.iter().cloned());
        frontier = next;
    }
    out
}

fn generate(seed: u64, n_cases: usize, tier: &str) {
    let mut out = Out::new();
    let mut rng = Rng::new(seed);
    let mut id = 0usize;
    if tier == "thorough" {
        // exhaustive small scope: every start value (every variant, lists over {1,2} of length <= 3) extended
        // by every list of length <= 3, then queried; same for OneOrMany and for the audit's errors
        let lists = all_lists(3);
        let mut starts_n: Vec<String> = vec!["n.raw none".into(), "n.raw one 1".into(), "n.raw one 2".into()];
        starts_n.extend(lists.iter().map(|l| format!("n.raw many {}", toks(l)).trim_end().to_string()));
        for s in &starts_n {
            for e in &lists {
                id += 1;
                out.case(format!("xn{id}"));
                out.line(s);
                out.line(format!("n.ext {}", toks(e)).trim_end());
                out.line("n.has 1");
                out.line("n.cmp many 1 2");
                out.line("o.fromn");
            }
        }
        let mut starts_o: Vec<String> = vec!["o.raw one 1".into(), "o.raw one 2".into()];
        starts_o.extend(lists.iter().map(|l| format!("o.raw many {}", toks(l)).trim_end().to_string()));
        for s in &starts_o {
            for e in &lists {
                id += 1;
                out.case(format!("xo{id}"));
                out.line(s);
                out.line(format!("o.ext {}", toks(e)).trim_end());
                out.line("o.has 1");
                out.line("o.cmp many 1 2");
            }
        }
        for l in &lists {
            id += 1;
            out.case(format!("xv{id}"));
            out.line(format!("n.vec {}", toks(l)).trim_end());
            out.line(format!("n.iter {}", toks(l)).trim_end());
            out.line(format!("o.vec {}", toks(l)).trim_end());
            out.line(format!("o.iter {}", toks(l)).trim_end());
        }
        for e0 in &lists {
            for e1 in &lists {
                id += 1;
                out.case(format!("xa{id}"));
                out.line(format!("a.oe 0 td:0 {}", toks(e0)).trim_end());
                out.line(format!("a.adderr {}", toks(e1)).trim_end());
                out.line("a.addout md:1");
                out.line("a.addout ad:2");
            }
        }
        // cancels-and-opens: every pattern of sent / recoverable / unrecoverable of length <= 3 on both sides
        let kinds = ["s", "r", "u"];
        let mut pats: Vec<Vec<&str>> = vec![vec![]];
        let mut frontier: Vec<Vec<&str>> = vec![vec![]];
        for _ in 0..3 {
            let mut next = vec![];
            for p in &frontier {
                for k in kinds {
                    let mut p2 = p.clone();
                    p2.push(k);
                    next.push(p2);
                }
            }
            pats.extend(next.iter().cloned());
            frontier = next;
        }
        for c in &pats {
            for o in &pats {
                id += 1;
                out.case(format!("xx{id}"));
                let cs: Vec<String> = c.iter().enumerate().map(|(i, k)| format!("{k}{}", i + 1)).collect();
                let os: Vec<String> = o.iter().enumerate().map(|(i, k)| format!("{k}{}", i + 4)).collect();
                out.line(format!("act.x {} / {}", cs.join(" "), os.join(" ")).replace("  ", " ").trim_end());
                out.line(format!("act.g {} / {} / 0 0", cs.join(" "), os.join(" ")).replace("  ", " "));
            }
        }
    }
    let max_len = if tier == "thorough" { 30 } else { 16 };
    for _ in 0..n_cases {
        id += 1;
        out.case(format!("r{id}"));
        let len = rng.range(2, max_len);
        // a case concentrates on one or two families so that registers build up history
        let f1 = rng.below(5);
        let f2 = rng.below(5);
        let mut engs = 0;
        for _ in 0..len {
            let mut f = if rng.chance(70) { f1 } else { f2 };
            if f == 4 {
                // each `eng` builds a real engine: at most three per case
                engs += 1;
                if engs > 3 {
                    f = rng.below(4);
                }
            }
            out.line(gen_op(&mut rng, f));
        }
    }
    out.flush();
}

fn main() {
    let a = args();
    match a.cmd.as_str() {
        "gen" => generate(a.seed, a.n, &a.tier),
        "run" => run(),
        _ => {
            eprintln!("usage: c03n gen <seed> <n> <tier> | run < cases");
            std::process::exit(2)
        }
    }
}
