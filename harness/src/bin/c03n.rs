//! C03N — `NoneOneOrMany` / `OneOrMany` and their use in audits and action outputs.
//! Ops: see `lean/BarterModel/Driver/C03N.lean`. Every op calls the real functions of
//! barter-integration/src/collection/{none_one_or_many,one_or_many}.rs, barter/src/engine/audit/mod.rs,
//! barter/src/engine/action/{mod,send_requests,generate_algo_orders}.rs; `eng` drives the real
//! `Engine::process` (exchange 0 healthy link, exchanges 1 and 2 closed links).
use barter::{
    EngineEvent,
    engine::{
        Engine, EngineOutput, Processor, UpdateFromAccountOutput, UpdateFromMarketOutput,
        action::{
            ActionOutput,
            generate_algo_orders::GenerateAlgoOrdersOutput,
            send_requests::{SendCancelsAndOpensOutput, SendRequestsOutput},
        },
        audit::{EngineAudit, ProcessAudit},
        clock::HistoricalClock,
        command::Command,
        error::{EngineError, RecoverableEngineError, UnrecoverableEngineError},
        execution_tx::MultiExchangeTxMap,
        state::{
            EngineState,
            global::DefaultGlobalData,
            instrument::{data::DefaultInstrumentMarketData, filter::InstrumentFilter},
            position::PositionExited,
            trading::TradingState,
        },
    },
    execution::{AccountStreamEvent, request::ExecutionRequest},
    risk::RiskRefused,
    strategy::{
        algo::AlgoStrategy, close_positions::ClosePositionsStrategy, on_disconnect::OnDisconnectStrategy,
        on_trading_disabled::OnTradingDisabled,
    },
};
use barter_data::streams::consumer::MarketStreamEvent;
use barter_execution::{
    AccountEvent, AccountEventKind,
    order::{
        Order, OrderEvent, OrderKey, OrderKind, TimeInForce,
        id::{ClientOrderId, OrderId, StrategyId},
        request::{OrderRequestCancel, OrderRequestOpen, RequestCancel, RequestOpen},
        state::{Open, OrderState},
    },
    trade::AssetFees,
};
use barter_instrument::{
    Side, Underlying,
    asset::{AssetIndex, QuoteAsset},
    exchange::{ExchangeId, ExchangeIndex},
    index::IndexedInstruments,
    instrument::{Instrument, InstrumentIndex},
};
use barter_integration::{
    FeedEnded, Terminal,
    channel::{UnboundedRx, mpsc_unbounded},
    collection::{none_one_or_many::NoneOneOrMany, one_or_many::OneOrMany},
    snapshot::Snapshot,
};
use rust_decimal::Decimal;
use std::{
    borrow::{Borrow, BorrowMut},
    cell::RefCell,
};
use vh::{engine_util::*, *};

type N = NoneOneOrMany<i64>;
type O = OneOrMany<i64>;

#[derive(Debug, Clone, PartialEq)]
struct Ev(bool);
impl Terminal for Ev {
    fn is_terminal(&self) -> bool {
        self.0
    }
}
type EO = EngineOutput<i64, i64>;
type PA = ProcessAudit<Ev, EO>;

fn ints(v: &[i64]) -> String {
    v.iter().map(|x| x.to_string()).collect::<Vec<_>>().join(" ")
}
fn line(key: &str, rest: String) -> String {
    if rest.is_empty() { key.to_string() } else { format!("{key} {rest}") }
}
fn b(x: bool) -> &'static str {
    if x { "1" } else { "0" }
}
fn parse_ints(t: &[String]) -> Vec<i64> {
    t.iter().map(|x| x.parse().expect("int")).collect()
}

/// the literal variant, through `Deserialize`
fn raw_n(t: &[String]) -> N {
    let json = match t[0].as_str() {
        "none" => "\"None\"".to_string(),
        "one" => format!("{{\"One\":{}}}", t[1]),
        "many" => format!("{{\"Many\":[{}]}}", t[1..].join(",")),
        other => panic!("bad raw {other}"),
    };
    serde_json::from_str(&json).expect("deserialize NoneOneOrMany")
}
fn raw_o(t: &[String]) -> O {
    let json = match t[0].as_str() {
        "one" => format!("{{\"One\":{}}}", t[1]),
        "many" => format!("{{\"Many\":[{}]}}", t[1..].join(",")),
        other => panic!("bad raw {other}"),
    };
    serde_json::from_str(&json).expect("deserialize OneOrMany")
}

fn n_shape<T>(n: &NoneOneOrMany<T>) -> &'static str {
    match n {
        NoneOneOrMany::None => "none",
        NoneOneOrMany::One(_) => "one",
        NoneOneOrMany::Many(_) => "many",
    }
}
fn o_shape<T>(o: &OneOrMany<T>) -> &'static str {
    match o {
        OneOrMany::One(_) => "one",
        OneOrMany::Many(_) => "many",
    }
}
fn opt_shape<T>(o: &Option<OneOrMany<T>>) -> &'static str {
    match o {
        None => "none",
        Some(v) => o_shape(v),
    }
}
fn sorted(mut v: Vec<i64>) -> Vec<i64> {
    v.sort();
    v
}

fn obs_n(n: &N, lines: &mut Vec<String>) {
    lines.push(line("shape", n_shape(n).into()));
    lines.push(line("len", n.len().to_string()));
    lines.push(line("flags", format!("{} {} {} {}", b(n.is_empty()), b(n.is_none()), b(n.is_one()), b(n.is_many()))));
    lines.push(line("vec", ints(&n.clone().into_vec())));
    lines.push(line("iter", ints(&n.iter().copied().collect::<Vec<_>>())));
    lines.push(line("into", ints(&n.clone().into_iter().collect::<Vec<_>>())));
    let as_ref: &[i64] = n.as_ref();
    let borrowed: &[i64] = n.borrow();
    let by_ref: Vec<i64> = (&*n).into_iter().copied().collect();
    if as_ref != borrowed || as_ref != by_ref.as_slice() {
        lines.push("asref-borrow-mismatch".into());
    }
    lines.push(line("asref", ints(as_ref)));
    lines.push(line("bag", ints(&sorted(as_ref.to_vec()))));
    let json = serde_json::to_string(n).unwrap();
    if serde_json::from_str::<N>(&json).unwrap() != *n {
        lines.push("serde-roundtrip-mismatch".into());
    }
    lines.push(line("json", json));
    let into_opt = n.clone().into_option();
    let from_nom: Option<O> = Option::from(n.clone());
    lines.push(line("intoopt", opt_shape(&into_opt).into()));
    lines.push(line("fromnom", opt_shape(&from_nom).into()));
    lines.push(line("optvec", match into_opt {
        None => "-".into(),
        Some(v) => ints(&v.into_vec()),
    }));
}

fn obs_o(o: &O, lines: &mut Vec<String>) {
    lines.push(line("oshape", o_shape(o).into()));
    lines.push(line("olen", o.len().to_string()));
    lines.push(line("oflags", format!("{} {}", b(o.is_one()), b(o.is_many()))));
    lines.push(line("ovec", ints(&o.clone().into_vec())));
    lines.push(line("oiter", ints(&o.iter().copied().collect::<Vec<_>>())));
    lines.push(line("ointo", ints(&o.clone().into_iter().collect::<Vec<_>>())));
    let as_ref: &[i64] = o.as_ref();
    let borrowed: &[i64] = o.borrow();
    let by_ref: Vec<i64> = (&*o).into_iter().copied().collect();
    if as_ref != borrowed || as_ref != by_ref.as_slice() {
        lines.push("asref-borrow-mismatch".into());
    }
    lines.push(line("oref", ints(as_ref)));
    lines.push(line("obag", ints(&sorted(as_ref.to_vec()))));
    let json = serde_json::to_string(o).unwrap();
    if serde_json::from_str::<O>(&json).unwrap() != *o {
        lines.push("serde-roundtrip-mismatch".into());
    }
    lines.push(line("ojson", json));
}

fn ord(o: std::cmp::Ordering) -> &'static str {
    match o {
        std::cmp::Ordering::Less => "lt",
        std::cmp::Ordering::Equal => "eq",
        std::cmp::Ordering::Greater => "gt",
    }
}

fn px(d: i64) -> PositionExited<QuoteAsset, InstrumentIndex> {
    PositionExited {
        instrument: InstrumentIndex(0),
        side: Side::Buy,
        price_entry_average: Decimal::ONE,
        quantity_abs_max: Decimal::ONE,
        pnl_realised: Decimal::from(d),
        fees_enter: AssetFees::quote_fees(Decimal::ZERO),
        fees_exit: AssetFees::quote_fees(Decimal::ZERO),
        time_enter: t0(),
        time_exit: t0(),
        trades: vec![],
    }
}

fn parse_out(s: &str) -> EO {
    let (k, d) = s.split_once(':').expect("out");
    let d: i64 = d.parse().expect("out payload");
    match k {
        "td" => EngineOutput::OnTradingDisabled(d),
        "ad" => EngineOutput::AccountDisconnect(d),
        "md" => EngineOutput::MarketDisconnect(d),
        "px" => EngineOutput::PositionExit(px(d)),
        other => panic!("bad out {other}"),
    }
}
fn fmt_out<A: std::fmt::Display, B: std::fmt::Display>(o: &EngineOutput<A, B>) -> String {
    match o {
        EngineOutput::Commanded(_) => "cmd".into(),
        EngineOutput::OnTradingDisabled(d) => format!("td:{d}"),
        EngineOutput::AccountDisconnect(d) => format!("ad:{d}"),
        EngineOutput::PositionExit(p) => format!("px:{}", p.pnl_realised),
        EngineOutput::MarketDisconnect(d) => format!("md:{d}"),
        EngineOutput::AlgoOrders(_) => "algo".into(),
    }
}
fn custom(ids: &[i64]) -> Vec<UnrecoverableEngineError> {
    ids.iter().map(|i| UnrecoverableEngineError::Custom(i.to_string())).collect()
}
fn err_id(e: &UnrecoverableEngineError) -> String {
    match e {
        UnrecoverableEngineError::Custom(s) => s.clone(),
        UnrecoverableEngineError::ExecutionChannelTerminated(s) => s.clone(),
        UnrecoverableEngineError::IndexError(e) => format!("index:{e:?}").replace(' ', "_"),
    }
}
fn pt(t: &str) -> bool {
    match t {
        "0" => false,
        "1" => true,
        other => panic!("bad bool {other}"),
    }
}

fn obs_a(a: &PA, lines: &mut Vec<String>) {
    let mut outs = vec![n_shape(&a.outputs).to_string()];
    outs.extend(a.outputs.iter().map(fmt_out));
    lines.push(format!("outputs {}", outs.join(" ")));
    let ids: Vec<String> = a.errors.iter().map(err_id).collect();
    let mut errs = vec![n_shape(&a.errors).to_string()];
    errs.extend(ids.iter().cloned());
    lines.push(format!("errors {}", errs.join(" ")));
    lines.push(format!("nerr {}", a.errors.len()));
    lines.push(line("errbag", ints(&sorted(ids.iter().map(|s| s.parse().unwrap()).collect()))));
    lines.push(format!("terminal {}", b(a.is_terminal())));
    lines.push(format!("eterminal {}", b(EngineAudit::Process(a.clone()).is_terminal())));
}

fn key(cid: i64) -> OrderKey<ExchangeIndex, InstrumentIndex> {
    OrderKey {
        exchange: ExchangeIndex(0),
        instrument: InstrumentIndex(0),
        strategy: StrategyId::new("verif"),
        cid: ClientOrderId::new(cid.to_string()),
    }
}
fn cancel(cid: i64) -> OrderRequestCancel<ExchangeIndex, InstrumentIndex> {
    OrderEvent { key: key(cid), state: RequestCancel { id: None } }
}
fn open(cid: i64) -> OrderRequestOpen<ExchangeIndex, InstrumentIndex> {
    OrderEvent {
        key: key(cid),
        state: RequestOpen {
            side: Side::Buy,
            price: Decimal::ONE,
            quantity: Decimal::ONE,
            kind: OrderKind::Market,
            time_in_force: TimeInForce::ImmediateOrCancel,
        },
    }
}

/// the tail of `send_requests` (send_requests.rs:72) over scripted per-request results
fn send_out<K: Clone>(
    toks: &[String],
    mk: impl Fn(i64) -> OrderEvent<K, ExchangeIndex, InstrumentIndex>,
) -> SendRequestsOutput<K, ExchangeIndex, InstrumentIndex> {
    let mut sent = vec![];
    let mut errors = vec![];
    for t in toks {
        let id: i64 = t[1..].parse().expect("result id");
        match &t[..1] {
            "s" => sent.push(mk(id)),
            "r" => errors.push((
                mk(id),
                EngineError::Recoverable(RecoverableEngineError::ExecutionChannelUnhealthy(id.to_string())),
            )),
            "u" => errors.push((
                mk(id),
                EngineError::Unrecoverable(UnrecoverableEngineError::ExecutionChannelTerminated(id.to_string())),
            )),
            other => panic!("bad result {other}"),
        }
    }
    SendRequestsOutput::new(NoneOneOrMany::from(sent), NoneOneOrMany::from(errors))
}

fn obs_unrec(u: &NoneOneOrMany<UnrecoverableEngineError>, lines: &mut Vec<String>) {
    let ids: Vec<String> = u.iter().map(err_id).collect();
    let mut v = vec![n_shape(u).to_string()];
    v.extend(ids.iter().cloned());
    lines.push(format!("unrec {}", v.join(" ")));
    lines.push(format!("nunrec {}", u.len()));
    lines.push(line("unrecbag", ints(&sorted(ids.iter().map(|s| s.parse().unwrap()).collect()))));
}
fn obs_act_unrec(u: &Option<OneOrMany<UnrecoverableEngineError>>, lines: &mut Vec<String>) {
    let mut v = vec![opt_shape(u).to_string()];
    if let Some(u) = u {
        v.extend(u.iter().map(err_id));
    }
    lines.push(format!("actunrec {}", v.join(" ")));
}
fn obs_so<K>(s: &SendRequestsOutput<K, ExchangeIndex, InstrumentIndex>, lines: &mut Vec<String>) {
    let mut v = vec![n_shape(&s.sent).to_string()];
    v.extend(s.sent.iter().map(|r| r.key.cid.0.to_string()));
    lines.push(format!("sent {}", v.join(" ")));
    let mut v = vec![n_shape(&s.errors).to_string()];
    v.extend(s.errors.iter().map(|(_, e)| match e {
        EngineError::Recoverable(RecoverableEngineError::ExecutionChannelUnhealthy(s)) => format!("r{s}"),
        EngineError::Unrecoverable(e) => format!("u{}", err_id(e)),
    }));
    lines.push(format!("errs {}", v.join(" ")));
    lines.push(format!("empty {}", b(s.is_empty())));
    obs_unrec(&s.unrecoverable_errors(), lines);
}

fn split_slash(toks: &[String]) -> Vec<Vec<String>> {
    toks.split(|t| t == "/").map(|g| g.to_vec()).collect()
}

type ReqC = OrderRequestCancel<ExchangeIndex, InstrumentIndex>;
type ReqO = OrderRequestOpen<ExchangeIndex, InstrumentIndex>;

/// Strategy of the `eng` op: BOTH user hooks are scripted - the algo requests of the tick and the
/// requests `close_positions_requests` returns (cancels AND opens; the shared `TestStrategy` of
/// `vh::engine_util` closes with the repository's `close_open_positions_with_market_orders`, which
/// never produces a cancel, so the `cancels.extend(opens)` of a ClosePositions command would not be
/// reachable end to end with it).
#[derive(Debug, Default)]
struct EngStrategy {
    algo: RefCell<Option<(Vec<ReqC>, Vec<ReqO>)>>,
    close: RefCell<(Vec<ReqC>, Vec<ReqO>)>,
}
type EngEngine = Engine<HistoricalClock, State, Txs, EngStrategy, TestRisk>;

impl AlgoStrategy for EngStrategy {
    type State = State;
    fn generate_algo_orders(
        &self,
        _: &Self::State,
    ) -> (impl IntoIterator<Item = ReqC>, impl IntoIterator<Item = ReqO>) {
        self.algo.borrow_mut().take().unwrap_or_default()
    }
}
impl ClosePositionsStrategy for EngStrategy {
    type State = State;
    fn close_positions_requests<'a>(
        &'a self,
        _: &'a Self::State,
        _: &'a InstrumentFilter<ExchangeIndex, AssetIndex, InstrumentIndex>,
    ) -> (impl IntoIterator<Item = ReqC> + 'a, impl IntoIterator<Item = ReqO> + 'a)
    where
        ExchangeIndex: 'a,
        AssetIndex: 'a,
        InstrumentIndex: 'a,
    {
        self.close.borrow().clone()
    }
}
impl OnDisconnectStrategy<HistoricalClock, State, Txs, TestRisk> for EngStrategy {
    type OnDisconnect = ();
    fn on_disconnect(_: &mut EngEngine, _: ExchangeId) -> Self::OnDisconnect {}
}
impl OnTradingDisabled<HistoricalClock, State, Txs, TestRisk> for EngStrategy {
    type OnTradingDisabled = ();
    fn on_trading_disabled(_: &mut EngEngine) -> Self::OnTradingDisabled {}
}

/// the world of one `eng` op: a real engine over three instruments, instrument `k` on exchange label
/// `k`; exchange 0 has a healthy execution link, exchanges 1 and 2 a closed one
struct EngWorld {
    engine: EngEngine,
    /// exchange label -> ExchangeIndex position
    ex_idx: Vec<usize>,
    /// instrument label -> InstrumentIndex position
    ins_idx: Vec<usize>,
    _rx: Vec<UnboundedRx<ExecutionRequest>>,
}

/// `links[label]`: `H` healthy, `C` closed (receiver dropped), `M` missing (`None` slot); `order`: the order
/// in which the exchange labels are added to `IndexedInstruments` (= their ExchangeIndex order)
fn eng_world_cfg(trading: TradingState, links: [char; 3], order: [usize; 3]) -> EngWorld {
    let mut builder = IndexedInstruments::builder();
    for k in order {
        builder = builder.add_instrument(Instrument::spot(
            EXCHANGES[k],
            format!("i{k}"),
            format!("I{k}"),
            Underlying::new("a0", "a3"),
            None,
        ));
    }
    let instruments = builder.build();
    let state: State =
        EngineState::builder(&instruments, DefaultGlobalData::default(), DefaultInstrumentMarketData::default)
            .time_engine_start(t0())
            .trading_state(trading)
            .build();
    let ex_idx: Vec<usize> = (0..3)
        .map(|l| instruments.exchanges().iter().position(|e| e.value == EXCHANGES[l]).unwrap())
        .collect();
    let ins_idx: Vec<usize> = (0..3)
        .map(|k| {
            state.instruments.0.values()
                .position(|s| s.instrument.name_internal.name().as_str() == format!("i{k}"))
                .unwrap()
        })
        .collect();
    let mut rxs: Vec<UnboundedRx<ExecutionRequest>> = vec![];
    let txs: Vec<(ExchangeId, Option<TestTx>)> = instruments
        .exchanges()
        .iter()
        .map(|exchange| {
            let label = EXCHANGES.iter().position(|e| *e == exchange.value).unwrap();
            match links[label] {
                'H' => {
                    let (tx, rx) = mpsc_unbounded::<ExecutionRequest>();
                    rxs.push(rx);
                    (exchange.value, Some(TestTx::Real(tx)))
                }
                'C' => {
                    let (tx, rx) = mpsc_unbounded::<ExecutionRequest>();
                    drop(rx);
                    (exchange.value, Some(TestTx::Real(tx)))
                }
                _ => (exchange.value, None),
            }
        })
        .collect();
    let engine = Engine::new(
        HistoricalClock::new(t0()),
        state,
        MultiExchangeTxMap::from_iter(txs),
        EngStrategy::default(),
        TestRisk,
    );
    EngWorld { engine, ex_idx, ins_idx, _rx: rxs }
}

/// `ex:cid` -> (exchange label, cid)
fn parse_eng_req(t: &String) -> (usize, String) {
    let (ex, cid) = t.split_once(':').expect("req");
    (ex.parse().expect("exchange label"), cid.to_string())
}
fn eng_key(w: &EngWorld, ex: usize, cid: &str) -> OrderKey<ExchangeIndex, InstrumentIndex> {
    OrderKey {
        exchange: ExchangeIndex(w.ex_idx[ex]),
        instrument: InstrumentIndex(w.ins_idx[ex]),
        strategy: StrategyId::new("verif"),
        cid: ClientOrderId::new(cid),
    }
}
fn eng_cancels(w: &EngWorld, g: &[String]) -> Vec<ReqC> {
    g.iter()
        .map(|t| {
            let (ex, cid) = parse_eng_req(t);
            OrderEvent { key: eng_key(w, ex, &cid), state: RequestCancel { id: None } }
        })
        .collect()
}
fn eng_opens(w: &EngWorld, g: &[String]) -> Vec<ReqO> {
    g.iter()
        .map(|t| {
            let (ex, cid) = parse_eng_req(t);
            OrderEvent {
                key: eng_key(w, ex, &cid),
                state: RequestOpen {
                    side: Side::Buy,
                    price: Decimal::from(100),
                    quantity: Decimal::ONE,
                    kind: OrderKind::Market,
                    time_in_force: TimeInForce::ImmediateOrCancel,
                },
            }
        })
        .collect()
}

/// one call of the real `Engine::process`
///   `eng on|off <ev> [req*] / algoC* / algoO*`                       (every event but `cmdx`)
///   `eng on|off cmdx closeC* / closeO* / algoC* / algoO*`            (`Command::ClosePositions`)
/// `cmdk` = `Command::CancelOrders(InstrumentFilter::None)`: its request group lists the orders the
/// engine tracks as `Open` when the command arrives (put there through order snapshots), sorted by
/// exchange label and pairwise distinct - the engine walks the instruments in index order and the
/// orders of one instrument in hash-map order (all of them on the same exchange, so the audit's errors
/// do not depend on that order).
fn eng(toks: &[String], lines: &mut Vec<String>) {
    eng_with(['H', 'C', 'C'], [0, 1, 2], toks, lines)
}

/// `engl <links> <order> on|off <ev> ...`: the same call on an engine whose three execution links are wired
/// as `<links>` says (three letters by exchange LABEL: `H` healthy, `C` closed, `M` no transmitter) and whose
/// exchanges were added to `IndexedInstruments` in `<order>` (a permutation of `012`: ExchangeIndex k is the
/// label `<order>[k]`). `eng` = `engl HCC 012`. Anything else is `bad-op`.
fn engl(toks: &[String], lines: &mut Vec<String>) {
    if toks.len() < 4 {
        lines.push("bad-op".into());
        return;
    }
    let l: Vec<char> = toks[0].chars().collect();
    let o: Vec<usize> = toks[1].chars().filter_map(|c| c.to_digit(10).map(|d| d as usize)).collect();
    let links_ok = l.len() == 3 && l.iter().all(|c| matches!(c, 'H' | 'C' | 'M'));
    let mut sorted = o.clone();
    sorted.sort();
    let order_ok = toks[1].len() == 3 && sorted == vec![0, 1, 2];
    if !links_ok || !order_ok || !matches!(toks[2].as_str(), "on" | "off") {
        lines.push("bad-op".into());
        return;
    }
    eng_with([l[0], l[1], l[2]], [o[0], o[1], o[2]], &toks[2..], lines)
}

fn eng_with(links: [char; 3], order: [usize; 3], toks: &[String], lines: &mut Vec<String>) {
    let trading = match toks[0].as_str() {
        "on" => TradingState::Enabled,
        "off" => TradingState::Disabled,
        other => panic!("bad trading state {other}"),
    };
    let ev = toks[1].as_str();
    let groups = split_slash(&toks[2..]);
    let n_cmd_groups = if ev == "cmdx" { 2 } else { 1 };
    if groups.len() != n_cmd_groups + 2 {
        lines.push("bad-op".into());
        return;
    }
    let all_reqs: Vec<(usize, String)> = groups.iter().flatten().map(parse_eng_req).collect();
    if all_reqs.iter().any(|(ex, _)| *ex > 2) {
        lines.push("bad-op".into());
        return;
    }
    let takes_reqs = matches!(ev, "cmdc" | "cmdo" | "cmdk" | "cmdx");
    if !takes_reqs && !groups[0].is_empty() {
        lines.push("bad-op".into());
        return;
    }
    if ev == "cmdk" {
        let orders: Vec<(usize, String)> = groups[0].iter().map(parse_eng_req).collect();
        let sorted = orders.windows(2).all(|p| p[0].0 <= p[1].0);
        let distinct = (0..orders.len()).all(|i| (0..i).all(|j| orders[i] != orders[j]));
        if !sorted || !distinct {
            lines.push("bad-op".into());
            return;
        }
    }
    let mut w = eng_world_cfg(trading, links, order);
    let algo_c = eng_cancels(&w, &groups[n_cmd_groups]);
    let algo_o = eng_opens(&w, &groups[n_cmd_groups + 1]);
    let time = time_ms(1);
    let event: EngineEvent<barter_data::event::DataKind> = match ev {
        "shutdown" => EngineEvent::Shutdown(barter::shutdown::Shutdown),
        "cmdc" => EngineEvent::Command(Command::SendCancelRequests(OneOrMany::from_iter(eng_cancels(&w, &groups[0])))),
        "cmdo" => EngineEvent::Command(Command::SendOpenRequests(OneOrMany::from_iter(eng_opens(&w, &groups[0])))),
        "cmdk" => {
            // the engine learns of the open orders the way it does in production: order snapshots
            for (ex, cid) in groups[0].iter().map(parse_eng_req) {
                let snapshot = EngineEvent::Account(AccountStreamEvent::Item(AccountEvent {
                    exchange: ExchangeIndex(w.ex_idx[ex]),
                    kind: AccountEventKind::OrderSnapshot(Snapshot(Order {
                        key: eng_key(&w, ex, &cid),
                        side: Side::Buy,
                        price: Decimal::from(100),
                        quantity: Decimal::ONE,
                        kind: OrderKind::Limit,
                        time_in_force: TimeInForce::GoodUntilCancelled { post_only: false },
                        state: OrderState::active(Open {
                            id: OrderId::new(format!("x{cid}")),
                            time_exchange: time,
                            filled_quantity: Decimal::ZERO,
                        }),
                    })),
                }));
                let pre = w.engine.process(snapshot);
                assert!(!pre.is_terminal(), "order snapshot must not end the run");
            }
            let tracked: usize = w.engine.state.instruments.0.values().map(|s| s.orders.0.len()).sum();
            assert_eq!(tracked, groups[0].len(), "every listed order is tracked");
            EngineEvent::Command(Command::CancelOrders(InstrumentFilter::None))
        }
        "cmdx" => {
            *w.engine.strategy.close.borrow_mut() = (eng_cancels(&w, &groups[0]), eng_opens(&w, &groups[1]));
            EngineEvent::Command(Command::ClosePositions(InstrumentFilter::None))
        }
        "ts_on" => EngineEvent::TradingStateUpdate(TradingState::Enabled),
        "ts_off" => EngineEvent::TradingStateUpdate(TradingState::Disabled),
        // historical op name: an ACCOUNT balance snapshot item (an update without output)
        "mkt" => {
            let asset = w.engine.state.assets.0.keys().position(|k| k.exchange == EXCHANGES[0]).expect("asset");
            EngineEvent::Account(AccountStreamEvent::Item(AccountEvent {
                exchange: ExchangeIndex(w.ex_idx[0]),
                kind: AccountEventKind::BalanceSnapshot(Snapshot(barter_execution::balance::AssetBalance {
                    asset: AssetIndex(asset),
                    balance: barter_execution::balance::Balance::new(Decimal::from(1001), Decimal::from(1001)),
                    time_exchange: time,
                })),
            }))
        }
        "mktre" => EngineEvent::Market(MarketStreamEvent::Reconnecting(EXCHANGES[0])),
        "accre" => EngineEvent::Account(AccountStreamEvent::Reconnecting(EXCHANGES[0])),
        _ => {
            lines.push("bad-op".into());
            return;
        }
    };
    *w.engine.strategy.algo.borrow_mut() = Some((algo_c, algo_o));
    let audit = w.engine.process(event);
    let terminal = audit.is_terminal();
    let EngineAudit::Process(p) = audit else {
        lines.push("feedended".into());
        return;
    };
    // label of the exchange an `ExecutionChannelTerminated` error names
    let label = |e: &UnrecoverableEngineError| -> String {
        let s = match e {
            // a missing link: "failed to find ExecutionTx for ExchangeIndex: ExchangeIndex(k). Available: ..."
            UnrecoverableEngineError::IndexError(barter_instrument::index::error::IndexError::ExchangeIndex(m))
                if m.contains("for ExchangeIndex: ExchangeIndex(") =>
            {
                m.split_once("for ExchangeIndex: ").unwrap().1.to_string()
            }
            _ => err_id(e),
        };
        match s.strip_prefix("ExchangeIndex(").and_then(|r| r.split_once(')')) {
            Some((idx, _)) => {
                let idx: usize = idx.parse().unwrap();
                w.ex_idx.iter().position(|x| *x == idx).unwrap().to_string()
            }
            None => s.replace(' ', "_"),
        }
    };
    let mut outs = vec![n_shape(&p.outputs).to_string()];
    outs.extend(p.outputs.iter().map(|o| match o {
        EngineOutput::Commanded(_) => "cmd".to_string(),
        EngineOutput::OnTradingDisabled(()) => "td:0".into(),
        EngineOutput::AccountDisconnect(()) => "ad:0".into(),
        EngineOutput::MarketDisconnect(()) => "md:0".into(),
        EngineOutput::PositionExit(_) => "px:0".into(),
        EngineOutput::AlgoOrders(_) => "algo".into(),
    }));
    lines.push(format!("outputs {}", outs.join(" ")));
    let ids: Vec<String> = p.errors.iter().map(label).collect();
    let mut errs = vec![n_shape(&p.errors).to_string()];
    errs.extend(ids.iter().cloned());
    lines.push(format!("errors {}", errs.join(" ")));
    lines.push(format!("nerr {}", p.errors.len()));
    let mut bag = ids.clone();
    bag.sort();
    lines.push(line("errbag", bag.join(" ")));
    lines.push(format!("terminal {}", b(terminal)));
}

/// `x + k` for every item, `None` if one of the sums leaves `i64` (then the op is not executed and both
/// sides answer `bad-op`: the closure `|x| x + k` is the harness's, not code under test)
fn shift_ok(items: &[i64], k: i64) -> bool {
    items.iter().all(|x| x.checked_add(k).is_some())
}

fn run() {
    run_cases(|case, lines| {
        let mut n: N = N::default();
        let mut o: O = OneOrMany::One(0);
        let mut a: PA = PA::with_event(Ev(false));
        for op in case.ops.iter() {
            lines.push("@".into());
            let name = op[0].as_str();
            let rest = &op[1..];
            match name {
                // ---------------------------------------------------------------- NoneOneOrMany
                "n.has" => {
                    let x: i64 = rest[0].parse().unwrap();
                    lines.push(format!("has {}", b(n.contains(&x))));
                }
                "n.cmp" => {
                    let v = raw_n(rest);
                    if (n == v) != (n.partial_cmp(&v) == Some(std::cmp::Ordering::Equal)) {
                        lines.push("eq-ord-mismatch".into());
                    }
                    lines.push(format!("eq {}", b(n == v)));
                    lines.push(format!("ord {}", ord(n.cmp(&v))));
                }
                "n.map" | "n.mut" if !shift_ok(n.as_ref(), rest[0].parse().unwrap()) => lines.push("bad-op".into()),
                "o.map" | "o.mut" if !shift_ok(o.as_ref(), rest[0].parse().unwrap()) => lines.push("bad-op".into()),
                "n.raw" | "n.vec" | "n.iter" | "n.opt" | "n.default" | "n.ext" | "n.extn" | "n.map" | "n.mut" => {
                    n = match name {
                        "n.raw" => raw_n(rest),
                        "n.vec" => N::from(parse_ints(rest)),
                        "n.iter" => parse_ints(rest).into_iter().collect::<N>(),
                        "n.opt" => N::from(rest.first().map(|x| x.parse::<i64>().unwrap())),
                        "n.default" => N::default(),
                        "n.ext" => n.extend(parse_ints(rest)),
                        "n.extn" => n.extend(raw_n(rest)),
                        "n.map" => {
                            let k: i64 = rest[0].parse().unwrap();
                            n.map(|x| x + k)
                        }
                        _ => {
                            let k: i64 = rest[0].parse().unwrap();
                            if k % 2 == 0 {
                                for x in &mut n {
                                    *x += k;
                                }
                            } else {
                                let s: &mut [i64] = n.borrow_mut();
                                for x in s.iter_mut() {
                                    *x += k;
                                }
                            }
                            n
                        }
                    };
                    obs_n(&n, lines);
                }
                // ---------------------------------------------------------------- OneOrMany
                "o.has" => {
                    let x: i64 = rest[0].parse().unwrap();
                    lines.push(format!("ohas {}", b(o.contains(&x))));
                }
                "o.cmp" => {
                    let v = raw_o(rest);
                    if (o == v) != (o.partial_cmp(&v) == Some(std::cmp::Ordering::Equal)) {
                        lines.push("eq-ord-mismatch".into());
                    }
                    lines.push(format!("oeq {}", b(o == v)));
                    lines.push(format!("oord {}", ord(o.cmp(&v))));
                }
                "o.fromn" => {
                    match n.clone().into_option() {
                        Some(v) => {
                            o = v;
                            lines.push("took 1".into());
                        }
                        None => lines.push("took 0".into()),
                    }
                    obs_o(&o, lines);
                }
                "o.vec" => {
                    let items = parse_ints(rest);
                    match std::panic::catch_unwind(|| O::from(items)) {
                        Ok(v) => {
                            o = v;
                            obs_o(&o, lines);
                        }
                        Err(_) => lines.push("panic".into()),
                    }
                }
                "o.raw" | "o.item" | "o.default" | "o.iter" | "o.ext" | "o.exto" | "o.map" | "o.mut" => {
                    o = match name {
                        "o.raw" => raw_o(rest),
                        "o.item" => O::from(rest[0].parse::<i64>().unwrap()),
                        "o.default" => O::default(),
                        "o.iter" => parse_ints(rest).into_iter().collect::<O>(),
                        "o.ext" => o.extend(parse_ints(rest)),
                        "o.exto" => o.extend(raw_o(rest)),
                        "o.map" => {
                            let k: i64 = rest[0].parse().unwrap();
                            o.map(|x| x + k)
                        }
                        _ => {
                            let k: i64 = rest[0].parse().unwrap();
                            if k % 2 == 0 {
                                for x in &mut o {
                                    *x += k;
                                }
                            } else {
                                let s: &mut [i64] = o.borrow_mut();
                                for x in s.iter_mut() {
                                    *x += k;
                                }
                            }
                            o
                        }
                    };
                    obs_o(&o, lines);
                }
                // ---------------------------------------------------------------- audit records
                "a.feedended" => {
                    let fe: EngineAudit<Ev, EO> = EngineAudit::from(FeedEnded);
                    lines.push(format!("fe_terminal {}", b(fe.is_terminal())));
                }
                "a.event" | "a.out" | "a.oe" | "a.ts" | "a.acc" | "a.mkt" | "a.addout" | "a.adderr" | "a.wpe" => {
                    a = match name {
                        "a.event" => match EngineAudit::<Ev, EO>::process(Ev(pt(&rest[0]))) {
                            EngineAudit::Process(p) => p,
                            _ => unreachable!(),
                        },
                        "a.out" => match EngineAudit::<Ev, EO>::process_with_output(Ev(pt(&rest[0])), parse_out(&rest[1])) {
                            EngineAudit::Process(p) => p,
                            _ => unreachable!(),
                        },
                        "a.oe" => match EngineAudit::<Ev, EO>::process_with_output_and_errs(
                            Ev(pt(&rest[0])),
                            custom(&parse_ints(&rest[2..])),
                            parse_out(&rest[1]),
                        ) {
                            EngineAudit::Process(p) => p,
                            _ => unreachable!(),
                        },
                        "a.ts" => PA::with_trading_state_update(Ev(pt(&rest[0])), rest.get(1).map(|d| d.parse::<i64>().unwrap())),
                        "a.acc" => {
                            let d: i64 = rest[2].parse().unwrap();
                            let out: UpdateFromAccountOutput<i64> = match rest[1].as_str() {
                                "0" => UpdateFromAccountOutput::None,
                                "1" => UpdateFromAccountOutput::OnDisconnect(d),
                                "2" => UpdateFromAccountOutput::PositionExit(px(d)),
                                other => panic!("bad account kind {other}"),
                            };
                            PA::with_account_update(Ev(pt(&rest[0])), out)
                        }
                        "a.mkt" => {
                            let out: UpdateFromMarketOutput<i64> = match rest.get(1) {
                                None => UpdateFromMarketOutput::None,
                                Some(d) => UpdateFromMarketOutput::OnDisconnect(d.parse().unwrap()),
                            };
                            PA::with_market_update(Ev(pt(&rest[0])), out)
                        }
                        "a.addout" => a.add_output(parse_out(&rest[0])),
                        "a.adderr" => a.add_errors(custom(&parse_ints(rest))),
                        _ => match EngineAudit::with_process_and_err(a, custom(&parse_ints(rest))) {
                            EngineAudit::Process(p) => p,
                            _ => unreachable!(),
                        },
                    };
                    obs_a(&a, lines);
                }
                // ---------------------------------------------------------------- action outputs
                "act.c" => {
                    let so = send_out(rest, cancel);
                    obs_so(&so, lines);
                    let act: ActionOutput = ActionOutput::CancelOrders(so);
                    obs_act_unrec(&act.unrecoverable_errors(), lines);
                }
                "act.o" => {
                    let so = send_out(rest, open);
                    obs_so(&so, lines);
                    let act: ActionOutput = ActionOutput::OpenOrders(so);
                    obs_act_unrec(&act.unrecoverable_errors(), lines);
                }
                "act.x" => {
                    let g = split_slash(rest);
                    assert_eq!(g.len(), 2);
                    let x = SendCancelsAndOpensOutput::new(send_out(&g[0], cancel), send_out(&g[1], open));
                    lines.push(format!("empty {}", b(x.is_empty())));
                    obs_unrec(&x.unrecoverable_errors(), lines);
                    let act: ActionOutput = ActionOutput::ClosePositions(x);
                    obs_act_unrec(&act.unrecoverable_errors(), lines);
                }
                "act.g" => {
                    let g = split_slash(rest);
                    assert_eq!(g.len(), 3);
                    let rc: i64 = g[2][0].parse().unwrap();
                    let ro: i64 = g[2][1].parse().unwrap();
                    let out = GenerateAlgoOrdersOutput::new(
                        send_out(&g[0], cancel),
                        send_out(&g[1], open),
                        (0..rc).map(|i| RiskRefused::new(cancel(i), "refused")).collect(),
                        (0..ro).map(|i| RiskRefused::new(open(i), "refused")).collect(),
                    );
                    lines.push(format!("empty {}", b(out.is_empty())));
                    obs_unrec(&out.cancels_and_opens.unrecoverable_errors(), lines);
                    lines.push(format!("gunrec {}", opt_shape(&out.unrecoverable_errors())));
                    let act: ActionOutput = ActionOutput::GenerateAlgoOrders(out);
                    obs_act_unrec(&act.unrecoverable_errors(), lines);
                }
                "eng" => eng(rest, lines),
                "engl" => engl(rest, lines),
                other => panic!("bad op {other}"),
            }
        }
    });
}

// ------------------------------------------------------------------------------------ generators

fn small_list(rng: &mut Rng, max: u64) -> Vec<i64> {
    // lengths biased to the boundaries 0, 1, 2
    let len = match rng.below(100) {
        0..=19 => 0,
        20..=44 => 1,
        45..=69 => 2,
        _ => rng.range(3, max as i64) as u64,
    };
    (0..len).map(|_| rng.range(0, 3)).collect()
}
fn toks(v: &[i64]) -> String {
    v.iter().map(|x| x.to_string()).collect::<Vec<_>>().join(" ")
}
fn raw_of(rng: &mut Rng, allow_none: bool) -> String {
    match rng.below(if allow_none { 3 } else { 2 }) {
        2 => "none".into(),
        0 => format!("one {}", rng.range(0, 3)),
        _ => format!("many {}", toks(&small_list(rng, 4))).trim_end().to_string(),
    }
}
fn out_tok(rng: &mut Rng) -> String {
    format!("{}:{}", rng.pick(&["td", "ad", "px", "md"]), rng.range(0, 3))
}
fn results(rng: &mut Rng, next: &mut i64, unrec_pct: u64) -> String {
    let len = match rng.below(100) {
        0..=19 => 0,
        20..=44 => 1,
        45..=69 => 2,
        _ => rng.range(3, 5),
    };
    (0..len)
        .map(|_| {
            *next += 1;
            let k = if rng.chance(unrec_pct) { "u" } else if rng.chance(30) { "r" } else { "s" };
            format!("{k}{next}")
        })
        .collect::<Vec<_>>()
        .join(" ")
}
fn reqs(rng: &mut Rng, next: &mut u64, dead_pct: u64) -> String {
    let len = match rng.below(100) {
        0..=29 => 0,
        30..=54 => 1,
        55..=79 => 2,
        _ => 3,
    };
    (0..len)
        .map(|_| {
            *next += 1;
            let ex = if rng.chance(dead_pct) { 1 + rng.below(2) } else { 0 };
            let cid = if rng.chance(15) { 5000 + *next } else { *next };
            format!("{ex}:{cid}")
        })
        .collect::<Vec<_>>()
        .join(" ")
}

fn gen_op(rng: &mut Rng, family: u64) -> String {
    let l = |s: String| s.trim_end().to_string();
    match family {
        0 => match rng.below(100) {
            0..=7 => l(format!("n.raw {}", raw_of(rng, true))),
            8..=15 => l(format!("n.vec {}", toks(&small_list(rng, 4)))),
            16..=23 => l(format!("n.iter {}", toks(&small_list(rng, 4)))),
            24..=27 => if rng.chance(50) { "n.opt".into() } else { format!("n.opt {}", rng.range(0, 3)) },
            28..=29 => "n.default".into(),
            30..=59 => l(format!("n.ext {}", toks(&small_list(rng, 4)))),
            60..=69 => l(format!("n.extn {}", raw_of(rng, true))),
            70..=75 => format!("n.map {}", rng.range(-1, 2)),
            76..=81 => format!("n.mut {}", rng.range(-1, 2)),
            82..=89 => format!("n.has {}", rng.range(0, 3)),
            _ => l(format!("n.cmp {}", raw_of(rng, true))),
        },
        1 => match rng.below(100) {
            0..=7 => l(format!("o.raw {}", raw_of(rng, false))),
            8..=13 => format!("o.item {}", rng.range(0, 3)),
            14..=15 => "o.default".into(),
            16..=23 => l(format!("o.vec {}", toks(&small_list(rng, 4)))),
            24..=31 => l(format!("o.iter {}", toks(&small_list(rng, 4)))),
            32..=59 => l(format!("o.ext {}", toks(&small_list(rng, 4)))),
            60..=67 => l(format!("o.exto {}", raw_of(rng, false))),
            68..=72 => format!("o.map {}", rng.range(-1, 2)),
            73..=77 => format!("o.mut {}", rng.range(-1, 2)),
            78..=83 => "o.fromn".into(),
            84..=91 => format!("o.has {}", rng.range(0, 3)),
            _ => l(format!("o.cmp {}", raw_of(rng, false))),
        },
        2 => match rng.below(100) {
            0..=5 => format!("a.event {}", rng.below(2)),
            6..=13 => format!("a.out {} {}", rng.below(2), out_tok(rng)),
            14..=21 => l(format!("a.oe {} {} {}", rng.below(2), out_tok(rng), toks(&small_list(rng, 4)))),
            22..=27 => if rng.chance(50) { format!("a.ts {}", rng.below(2)) } else { format!("a.ts {} {}", rng.below(2), rng.range(0, 3)) },
            28..=33 => format!("a.acc {} {} {}", rng.below(2), rng.below(3), rng.range(0, 3)),
            34..=39 => if rng.chance(50) { format!("a.mkt {}", rng.below(2)) } else { format!("a.mkt {} {}", rng.below(2), rng.range(0, 3)) },
            40..=59 => format!("a.addout {}", out_tok(rng)),
            60..=84 => l(format!("a.adderr {}", toks(&small_list(rng, 4)))),
            85..=96 => l(format!("a.wpe {}", toks(&small_list(rng, 4)))),
            _ => "a.feedended".into(),
        },
        3 => {
            let mut next = 0i64;
            let pct = *rng.pick(&[0u64, 30, 60]);
            match rng.below(4) {
                0 => l(format!("act.c {}", results(rng, &mut next, pct))),
                1 => l(format!("act.o {}", results(rng, &mut next, pct))),
                2 => {
                    let c = results(rng, &mut next, pct);
                    let o = results(rng, &mut next, pct);
                    format!("act.x {c} / {o}").replace("  ", " ").trim_end().to_string()
                }
                _ => {
                    let c = results(rng, &mut next, pct);
                    let o = results(rng, &mut next, pct);
                    format!("act.g {c} / {o} / {} {}", rng.below(3), rng.below(3)).replace("  ", " ")
                }
            }
        }
        _ => {
            let mut next = 0u64;
            let pct = *rng.pick(&[0u64, 40, 80]);
            let onoff = if rng.chance(70) { "on" } else { "off" };
            // the four commands get half of the weight
            let ev = *rng.pick(&[
                "shutdown", "cmdc", "cmdo", "cmdk", "cmdx", "cmdx", "cmdk", "cmdc", "ts_on", "ts_off", "mkt", "mktre", "accre",
            ]);
            let g0 = match ev {
                "cmdc" | "cmdo" => reqs(rng, &mut next, pct),
                // the tracked orders of a CancelOrders command: sorted by exchange (no risk refusal on this path,
                // a cid >= 5000 is an ordinary cid here)
                "cmdk" => {
                    let mut v: Vec<String> = reqs(rng, &mut next, pct).split(' ').filter(|t| !t.is_empty()).map(String::from).collect();
                    v.sort_by_key(|t| t.split_once(':').unwrap().0.parse::<u64>().unwrap());
                    v.join(" ")
                }
                // ClosePositions: the strategy's cancels / its opens
                "cmdx" => format!("{} / {}", reqs(rng, &mut next, pct), reqs(rng, &mut next, pct)),
                _ => String::new(),
            };
            let g1 = reqs(rng, &mut next, pct);
            let g2 = reqs(rng, &mut next, pct);
            format!("eng {onoff} {ev} {g0} / {g1} / {g2}").replace("  ", " ").trim_end().to_string()
        }
    }
}

/// every list over {1,2} of length <= `max`
fn all_lists(max: usize) -> Vec<Vec<i64>> {
    let mut out: Vec<Vec<i64>> = vec![vec![]];
    let mut frontier: Vec<Vec<i64>> = vec![vec![]];
    for _ in 0..max {
        let mut next = vec![];
        for l in &frontier {
            for x in [1i64, 2] {
                let mut l2 = l.clone();
                l2.push(x);
                next.push(l2);
            }
        }
        out.extend(next.iter().cloned());
        frontier = next;
    }
    out
}

fn generate(seed: u64, n_cases: usize, tier: &str) {
    let mut out = Out::new();
    let mut rng = Rng::new(seed);
    let mut id = 0usize;
    if tier == "thorough" {
        // exhaustive small scope: every start value (every variant, lists over {1,2} of length <= 3) extended
        // by every list of length <= 3, then queried; same for OneOrMany and for the audit's errors
        let lists = all_lists(3);
        let mut starts_n: Vec<String> = vec!["n.raw none".into(), "n.raw one 1".into(), "n.raw one 2".into()];
        starts_n.extend(lists.iter().map(|l| format!("n.raw many {}", toks(l)).trim_end().to_string()));
        for s in &starts_n {
            for e in &lists {
                id += 1;
                out.case(format!("xn{id}"));
                out.line(s);
                out.line(format!("n.ext {}", toks(e)).trim_end());
                out.line("n.has 1");
                out.line("n.cmp many 1 2");
                out.line("o.fromn");
            }
        }
        let mut starts_o: Vec<String> = vec!["o.raw one 1".into(), "o.raw one 2".into()];
        starts_o.extend(lists.iter().map(|l| format!("o.raw many {}", toks(l)).trim_end().to_string()));
        for s in &starts_o {
            for e in &lists {
                id += 1;
                out.case(format!("xo{id}"));
                out.line(s);
                out.line(format!("o.ext {}", toks(e)).trim_end());
                out.line("o.has 1");
                out.line("o.cmp many 1 2");
            }
        }
        for l in &lists {
            id += 1;
            out.case(format!("xv{id}"));
            out.line(format!("n.vec {}", toks(l)).trim_end());
            out.line(format!("n.iter {}", toks(l)).trim_end());
            out.line(format!("o.vec {}", toks(l)).trim_end());
            out.line(format!("o.iter {}", toks(l)).trim_end());
        }
        for e0 in &lists {
            for e1 in &lists {
                id += 1;
                out.case(format!("xa{id}"));
                out.line(format!("a.oe 0 td:0 {}", toks(e0)).trim_end());
                out.line(format!("a.adderr {}", toks(e1)).trim_end());
                out.line("a.addout md:1");
                out.line("a.addout ad:2");
            }
        }
        // cancels-and-opens: every pattern of sent / recoverable / unrecoverable of length <= 3 on both sides
        let kinds = ["s", "r", "u"];
        let mut pats: Vec<Vec<&str>> = vec![vec![]];
        let mut frontier: Vec<Vec<&str>> = vec![vec![]];
        for _ in 0..3 {
            let mut next = vec![];
            for p in &frontier {
                for k in kinds {
                    let mut p2 = p.clone();
                    p2.push(k);
                    next.push(p2);
                }
            }
            pats.extend(next.iter().cloned());
            frontier = next;
        }
        for c in &pats {
            for o in &pats {
                id += 1;
                out.case(format!("xx{id}"));
                let cs: Vec<String> = c.iter().enumerate().map(|(i, k)| format!("{k}{}", i + 1)).collect();
                let os: Vec<String> = o.iter().enumerate().map(|(i, k)| format!("{k}{}", i + 4)).collect();
                out.line(format!("act.x {} / {}", cs.join(" "), os.join(" ")).replace("  ", " ").trim_end());
                out.line(format!("act.g {} / {} / 0 0", cs.join(" "), os.join(" ")).replace("  ", " "));
            }
        }
    }
    if tier == "thorough" {
        // one real Engine::process per pattern of healthy (0) / dead (1, 2) exchanges: one or two cancels x up to
        // three opens, once as the requests of a ClosePositions command (command path) and once as the algo
        // requests of an account-item tick (generation stage) - every instance of the reversing arm of `extend`
        // with items that are / are not all equal
        let mut ex_lists: Vec<Vec<u64>> = vec![vec![]];
        let mut frontier: Vec<Vec<u64>> = vec![vec![]];
        for _ in 0..3 {
            let mut next = vec![];
            for l in &frontier {
                for x in [0u64, 1, 2] {
                    let mut l2 = l.clone();
                    l2.push(x);
                    next.push(l2);
                }
            }
            ex_lists.extend(next.iter().cloned());
            frontier = next;
        }
        let fmt = |l: &Vec<u64>, base: usize| {
            l.iter().enumerate().map(|(i, ex)| format!("{ex}:{}", base + i)).collect::<Vec<_>>().join(" ")
        };
        for c in ex_lists.iter().filter(|l| l.len() <= 2) {
            for o in &ex_lists {
                id += 1;
                out.case(format!("xe{id}"));
                let (cs, os) = (fmt(c, 1), fmt(o, 4));
                out.line(format!("eng on cmdx {cs} / {os} / /").replace("  ", " ").trim_end());
                out.line(format!("eng on mkt / {cs} / {os}").replace("  ", " ").trim_end());
            }
        }
    }
    let max_len = if tier == "thorough" { 30 } else { 16 };
    for _ in 0..n_cases {
        id += 1;
        out.case(format!("r{id}"));
        let len = rng.range(2, max_len);
        // a case concentrates on one or two families so that registers build up history
        let f1 = rng.below(5);
        let f2 = rng.below(5);
        let mut engs = 0;
        for _ in 0..len {
            let mut f = if rng.chance(70) { f1 } else { f2 };
            if f == 4 {
                // each `eng` builds a real engine: at most three per case
                engs += 1;
                if engs > 3 {
                    f = rng.below(4);
                }
            }
            out.line(gen_op(&mut rng, f));
        }
    }
    // input-domain family (`d<id>`, own random stream; the cases above stay as they are): items over the whole
    // i64 domain (negative, i64::MIN / MAX: derived Ord / Eq / serde / contains on them; `map` / `mut` shifts that
    // leave i64 are `bad-op` on both sides), lists of 5-12 items, and `eng` ops with 4-6 requests per list
    let mut drng = Rng::new(seed ^ 0xD0_3A_11_5E_ED);
    for _ in 0..n_cases / 8 {
        id += 1;
        out.case(format!("d{id}"));
        let len = drng.range(2, max_len);
        let fam = drng.below(3);
        let mut engs = 0;
        for _ in 0..len {
            let mut f = if drng.chance(75) { fam } else { drng.below(3) };
            if f == 2 {
                engs += 1;
                if engs > 3 {
                    f = drng.below(2);
                }
            }
            out.line(domain_op(&mut drng, f));
        }
    }
    // configuration-shape family (`cfg<id>`, own random stream; the cases above stay as they are): `eng` fixes the
    // assembly of the engine (exchange 0 healthy at ExchangeIndex 0, exchanges 1 and 2 closed, labels in index
    // order). `engl` varies it: every link pattern over healthy / closed / missing (`None` slot, also BEFORE a
    // linked exchange; all healthy; none healthy), exchange labels added in any order (ExchangeIndex != label).
    let mut crng = Rng::new(seed ^ 0xCF_61_C0_3A_5E_ED);
    for _ in 0..n_cases / 8 {
        id += 1;
        out.case(format!("cfg{id}"));
        for _ in 0..crng.range(1, 3) {
            out.line(cfg_op(&mut crng));
        }
    }
    if tier == "thorough" {
        // every link pattern x every exchange order: a failing-capable ClosePositions command and an algo tick
        // addressing all three exchanges
        for l in 0..27usize {
            let links: String = [l / 9, (l / 3) % 3, l % 3].iter().map(|k| ['H', 'C', 'M'][*k]).collect();
            for order in ["012", "021", "102", "120", "201", "210"] {
                id += 1;
                out.case(format!("cfgx{id}"));
                out.line(format!("engl {links} {order} on cmdx 0:1 2:2 / 1:4 2:5 0:6 / 1:7 / 0:8"));
                out.line(format!("engl {links} {order} on mkt / 2:1 1:2 / 0:4 1:5 2:6"));
                out.line(format!("engl {links} {order} off cmdc 2:1 0:2 1:3 / 0:7 / 1:8"));
            }
        }
    }
    out.flush();
}

/// one `engl` op: random link letters by label, random exchange order, requests over all three exchanges
fn cfg_op(rng: &mut Rng) -> String {
    let links: String = (0..3)
        .map(|_| match rng.below(100) {
            0..=49 => 'H',
            50..=74 => 'C',
            _ => 'M',
        })
        .collect();
    let order = *rng.pick(&["012", "021", "102", "120", "201", "210", "201", "120"]);
    let mut next = 0u64;
    let mut rq = |rng: &mut Rng| -> String {
        let len = rng.below(4);
        (0..len)
            .map(|_| {
                next += 1;
                let cid = if rng.chance(15) { 5000 + next } else { next };
                format!("{}:{cid}", rng.below(3))
            })
            .collect::<Vec<_>>()
            .join(" ")
    };
    let onoff = if rng.chance(70) { "on" } else { "off" };
    let ev = *rng.pick(&["shutdown", "cmdc", "cmdo", "cmdk", "cmdx", "cmdx", "cmdk", "cmdc", "ts_on", "ts_off", "mkt", "mktre", "accre"]);
    let g0 = match ev {
        "cmdc" | "cmdo" => rq(rng),
        "cmdk" => {
            let mut v: Vec<String> = rq(rng).split(' ').filter(|t| !t.is_empty()).map(String::from).collect();
            v.sort_by_key(|t| t.split_once(':').unwrap().0.parse::<u64>().unwrap());
            v.join(" ")
        }
        "cmdx" => format!("{} / {}", rq(rng), rq(rng)),
        _ => String::new(),
    };
    let g1 = rq(rng);
    let g2 = rq(rng);
    format!("engl {links} {order} {onoff} {ev} {g0} / {g1} / {g2}").replace("  ", " ").trim_end().to_string()
}

const D_ITEMS: &[i64] = &[i64::MIN, i64::MIN + 1, -2, -1, 0, 1, 3, i64::MAX - 1, i64::MAX];

fn d_list(rng: &mut Rng) -> Vec<i64> {
    let len = match rng.below(100) {
        0..=14 => 0,
        15..=34 => 1,
        35..=59 => 2,
        60..=79 => 3,
        _ => rng.range(5, 12) as u64,
    };
    (0..len).map(|_| *rng.pick(D_ITEMS)).collect()
}

fn d_raw(rng: &mut Rng, allow_none: bool) -> String {
    match rng.below(if allow_none { 3 } else { 2 }) {
        2 => "none".into(),
        0 => format!("one {}", rng.pick(D_ITEMS)),
        _ => format!("many {}", toks(&d_list(rng))).trim_end().to_string(),
    }
}

fn d_reqs(rng: &mut Rng, next: &mut u64, dead_pct: u64) -> String {
    let len = match rng.below(100) {
        0..=19 => 0,
        20..=39 => 1,
        40..=59 => 2,
        _ => 4 + rng.below(3),
    };
    (0..len)
        .map(|_| {
            *next += 1;
            let ex = if rng.chance(dead_pct) { 1 + rng.below(2) } else { 0 };
            let cid = if rng.chance(15) { 5000 + *next } else { *next };
            format!("{ex}:{cid}")
        })
        .collect::<Vec<_>>()
        .join(" ")
}

fn domain_op(rng: &mut Rng, family: u64) -> String {
    let l = |s: String| s.trim_end().to_string();
    let k = |rng: &mut Rng| *rng.pick(&[-1i64, 1, 2, 0]);
    match family {
        0 => match rng.below(100) {
            0..=11 => l(format!("n.raw {}", d_raw(rng, true))),
            12..=21 => l(format!("n.vec {}", toks(&d_list(rng)))),
            22..=29 => l(format!("n.iter {}", toks(&d_list(rng)))),
            30..=33 => format!("n.opt {}", rng.pick(D_ITEMS)),
            34..=57 => l(format!("n.ext {}", toks(&d_list(rng)))),
            58..=65 => l(format!("n.extn {}", d_raw(rng, true))),
            66..=71 => format!("n.map {}", k(rng)),
            72..=77 => format!("n.mut {}", k(rng)),
            78..=87 => format!("n.has {}", rng.pick(D_ITEMS)),
            _ => l(format!("n.cmp {}", d_raw(rng, true))),
        },
        1 => match rng.below(100) {
            0..=11 => l(format!("o.raw {}", d_raw(rng, false))),
            12..=17 => format!("o.item {}", rng.pick(D_ITEMS)),
            18..=25 => l(format!("o.vec {}", toks(&d_list(rng)))),
            26..=33 => l(format!("o.iter {}", toks(&d_list(rng)))),
            34..=57 => l(format!("o.ext {}", toks(&d_list(rng)))),
            58..=65 => l(format!("o.exto {}", d_raw(rng, false))),
            66..=70 => format!("o.map {}", k(rng)),
            71..=75 => format!("o.mut {}", k(rng)),
            76..=79 => "o.fromn".into(),
            80..=89 => format!("o.has {}", rng.pick(D_ITEMS)),
            _ => l(format!("o.cmp {}", d_raw(rng, false))),
        },
        _ => {
            let mut next = 0u64;
            let pct = *rng.pick(&[0u64, 40, 80]);
            let onoff = if rng.chance(70) { "on" } else { "off" };
            let ev = *rng.pick(&["shutdown", "cmdc", "cmdo", "cmdk", "cmdx", "cmdx", "ts_on", "ts_off", "mkt", "mktre", "accre"]);
            let g0 = match ev {
                "cmdc" | "cmdo" => d_reqs(rng, &mut next, pct),
                "cmdk" => {
                    let mut v: Vec<String> =
                        d_reqs(rng, &mut next, pct).split(' ').filter(|t| !t.is_empty()).map(String::from).collect();
                    v.sort_by_key(|t| t.split_once(':').unwrap().0.parse::<u64>().unwrap());
                    v.join(" ")
                }
                "cmdx" => format!("{} / {}", d_reqs(rng, &mut next, pct), d_reqs(rng, &mut next, pct)),
                _ => String::new(),
            };
            let g1 = d_reqs(rng, &mut next, pct);
            let g2 = d_reqs(rng, &mut next, pct);
            format!("eng {onoff} {ev} {g0} / {g1} / {g2}").replace("  ", " ").trim_end().to_string()
        }
    }
}

fn main() {
    let a = args();
    match a.cmd.as_str() {
        "gen" => generate(a.seed, a.n, &a.tier),
        "run" => run(),
        _ => {
            eprintln!("usage: c03n gen <seed> <n> <tier> | run < cases");
            std::process::exit(2)
        }
    }
}
