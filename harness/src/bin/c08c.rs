//! C08C — the `MockExecution` client and its request / response protocol with the simulated exchange.
//!
//! The real `MockExecution` (several clones, one per worker task) talks to a real `MockExchange::run`
//! task over the real tokio channels (unbounded mpsc for requests, oneshot per response, broadcast
//! for account events) on a current-thread tokio runtime with a paused clock. The harness never
//! sleeps: virtual time moves only by `adv`. After every op the runtime is run to quiescence
//! (`yield_now` repeatedly, the main task never parks, so the paused clock cannot auto-advance).
//!
//! Ops (see `lean/BarterModel/Driver/C08C.lean`):
//!   configuration phase
//!     `cfg <latency_ms> <fee> <cap> <n> <bal>*n <k> <base:quote>*k`   (`bal` is `x` or `total:free`)
//!     `shape <m|b|k> <tok>*k`                directly after `cfg`: exchange id the mock stands for + kind / quoting /
//!                                            settlement asset / contract size / spec of every instrument (see below)
//!     `grp <instr>`                          starts an `InstrumentAccountSnapshot` of the initial state
//!     `ord <instr> <strategy> <cid> <B|S> <M|L> <price> <qty> <tif> <state…>`   adds an order to it
//!          state: `O <id> <time> <filled>` | `C <id> <time>` | `F` (open in flight) | `X` (fully
//!          filled) | `E` (expired) | `R` (open failed) | `K` (cancel in flight, no meta) |
//!          `K <id> <time> <filled>` (cancel in flight of an open order)
//!     `start <workers>`                      builds channels, client, exchange; spawns everything
//!     `dcancel`                              instead of `start`: `MockExchange::cancel_order` on the struct
//!   running phase
//!     `clock <t>`                            sets the value the client's clock function returns
//!     `call <w> open <instr> <B|S> <M|L> <price> <qty> <strategy> <cid>`
//!     `call <w> snap|balances|orders` / `call <w> trades <since>` / `call <w> cancel <instr> <strategy> <cid>`
//!     `abandon <w>`                          worker w drops the future of its pending call
//!     `exch off|on|stop`                     the exchange task is not scheduled / scheduled / aborted
//!     `adv <ms>`                             virtual time
//!     `sub`                                  a new `account_stream` subscriber (numbered 0, 1, …)
//!     `poll <s>`                             drains subscriber s (polled under `tokio::task::unconstrained`
//!                                            until it is pending or has ended)
//!   `<t>` / `<since>` must be milliseconds inside chrono's `DateTime<Utc>` range, else `bad-op`
use barter_execution::{
    AccountEventKind, InstrumentAccountSnapshot, UnindexedAccountEvent, UnindexedAccountSnapshot,
    balance::{AssetBalance, Balance},
    client::{
        ExecutionClient,
        mock::{MockExecution, MockExecutionClientConfig, MockExecutionConfig},
    },
    error::{ApiError, ClientError, ConnectivityError, OrderError, UnindexedOrderError},
    exchange::mock::MockExchange,
    order::{
        Order, OrderKey, OrderKind, TimeInForce, UnindexedOrder,
        id::{ClientOrderId, OrderId, StrategyId},
        request::{OrderRequestCancel, OrderRequestOpen, RequestCancel, RequestOpen},
        state::{
            ActiveOrderState, CancelInFlight, Cancelled, InactiveOrderState, Open, OpenInFlight,
            OrderState,
        },
    },
    trade::Trade,
};
use barter_instrument::{
    Side, Underlying,
    asset::{QuoteAsset, name::AssetNameExchange},
    exchange::ExchangeId,
    instrument::{
        Instrument,
        kind::{
            InstrumentKind,
            future::FutureContract,
            option::{OptionContract, OptionExercise, OptionKind},
            perpetual::PerpetualContract,
        },
        name::InstrumentNameExchange,
        quote::InstrumentQuoteAsset,
        spec::{
            InstrumentSpec, InstrumentSpecNotional, InstrumentSpecPrice, InstrumentSpecQuantity,
            OrderQuantityUnits,
        },
    },
};
use chrono::{DateTime, TimeZone, Utc};
use fnv::FnvHashMap;
use futures::{FutureExt, StreamExt, stream::BoxStream};
use rust_decimal::Decimal;
use std::{
    future::Future,
    pin::Pin,
    sync::{
        Arc, Mutex,
        atomic::{AtomicBool, AtomicI64, Ordering},
    },
    task::{Context, Poll, Waker},
};
use tokio::sync::{broadcast, mpsc};
use vh::*;

const EXCHANGE: ExchangeId = ExchangeId::Mock;
/// `yield_now` rounds after every op: the longest wake-up chain (command -> worker -> exchange ->
/// latency task -> timer driver -> latency task -> worker) needs five
const SETTLE_ROUNDS: usize = 16;

// ------------------------------------------------------------------ configuration shape (`shape` op)
//
// `shape <e> <tok>*k` directly after `cfg` (before any `grp`): `<e>` = the exchange id the mock stands
// for (`m` Mock, `b` BinanceSpot, `k` Kraken: `MockExecutionConfig::mocked_exchange`, the snapshot's and
// every instrument's exchange, the client's `mocked_exchange`, the exchange of every request key and of
// the configured orders). One token per instrument `<K><Q><S><C>[+]`: K = s|p|f|o (spot / perpetual /
// future / option), Q = q|b (`InstrumentQuoteAsset::UnderlyingQuote` / `UnderlyingBase`), S = one digit:
// settlement asset of a derivative (any asset index, also one without balance; ignored for spot), C =
// u|t|c contract size 1 / 10 / 0.01, `+` = an `InstrumentSpec` with large minima is present.
// `MockExchange::new` is public and takes any `Instrument`; the exchange reads `underlying` only, so the
// model checks the syntax and ignores the content. Without the op: Mock, spot, no spec (as before).
thread_local! {
    static CUR_EXCHANGE: std::cell::Cell<ExchangeId> = const { std::cell::Cell::new(EXCHANGE) };
}

fn exch() -> ExchangeId {
    CUR_EXCHANGE.with(|c| c.get())
}

#[derive(Clone)]
struct IShape {
    kind: char,
    quote_base: bool,
    settle: usize,
    csize: Decimal,
    spec: bool,
}

fn parse_ishape(tok: &str) -> Option<IShape> {
    let c: Vec<char> = tok.chars().collect();
    if !(c.len() == 4 || (c.len() == 5 && c[4] == '+')) {
        return None;
    }
    Some(IShape {
        kind: "spfo".contains(c[0]).then_some(c[0])?,
        quote_base: match c[1] {
            'q' => false,
            'b' => true,
            _ => return None,
        },
        settle: c[2].to_digit(10)? as usize,
        csize: match c[3] {
            'u' => Decimal::ONE,
            't' => Decimal::TEN,
            'c' => Decimal::new(1, 2),
            _ => return None,
        },
        spec: c.len() == 5,
    })
}


fn time_ms(ms: i64) -> DateTime<Utc> {
    Utc.timestamp_millis_opt(ms).unwrap()
}

/// `DateTime::<Utc>::MAX_UTC.timestamp_millis()` (+262142-12-31T23:59:59.999999999Z)
const MAX_MS: i64 = 8_210_266_876_799_999;
/// `DateTime::<Utc>::MIN_UTC.timestamp_millis()` (-262143-01-01T00:00:00Z)
const MIN_MS: i64 = -8_334_601_228_800_000;

/// a time the client clock / a query can carry at all: outside chrono's range there is no
/// `DateTime<Utc>`, the op is not an input (`bad-op`, as in the driver's `parseTime`)
fn parse_time(s: &str) -> Option<i64> {
    s.parse::<i64>().ok().filter(|ms| (MIN_MS..=MAX_MS).contains(ms))
}

fn asset_name(a: usize) -> AssetNameExchange {
    AssetNameExchange::new(format!("a{a}"))
}

fn asset_index(a: &AssetNameExchange) -> usize {
    a.as_ref()[1..].parse().expect("asset name a<idx>")
}

/// zero padded to the 20 digits of `usize::MAX`: the string order of the names is the order of the
/// indices for EVERY index (5 digits broke at 100000: audit/sub/report_A.md C08C item 7)
fn instr_name(i: usize) -> InstrumentNameExchange {
    InstrumentNameExchange::new(format!("i{i:020}"))
}

fn instr_index(i: &InstrumentNameExchange) -> usize {
    i.as_ref()[1..].parse().expect("instrument name i<idx>")
}

fn strat_index(s: &StrategyId) -> usize {
    s.0.as_str()[1..].parse().expect("strategy name s<idx>")
}

fn cid_index(c: &ClientOrderId) -> usize {
    c.0.as_str()[1..].parse().expect("cid c<idx>")
}

fn parse_side(s: &str) -> Side {
    match s {
        "B" => Side::Buy,
        "S" => Side::Sell,
        o => panic!("bad side {o}"),
    }
}

fn parse_kind(s: &str) -> OrderKind {
    match s {
        "M" => OrderKind::Market,
        "L" => OrderKind::Limit,
        o => panic!("bad kind {o}"),
    }
}

fn side_s(s: Side) -> &'static str {
    match s {
        Side::Buy => "B",
        Side::Sell => "S",
    }
}

fn kind_s(k: OrderKind) -> &'static str {
    match k {
        OrderKind::Market => "M",
        OrderKind::Limit => "L",
    }
}

fn parse_tif(s: &str) -> TimeInForce {
    match s {
        "0" => TimeInForce::GoodUntilCancelled { post_only: false },
        "1" => TimeInForce::GoodUntilCancelled { post_only: true },
        "2" => TimeInForce::GoodUntilEndOfDay,
        "3" => TimeInForce::FillOrKill,
        "4" => TimeInForce::ImmediateOrCancel,
        o => panic!("bad tif {o}"),
    }
}

fn tif_s(t: TimeInForce) -> &'static str {
    match t {
        TimeInForce::GoodUntilCancelled { post_only: false } => "0",
        TimeInForce::GoodUntilCancelled { post_only: true } => "1",
        TimeInForce::GoodUntilEndOfDay => "2",
        TimeInForce::FillOrKill => "3",
        TimeInForce::ImmediateOrCancel => "4",
    }
}

// ------------------------------------------------------------------------------------ configuration

struct Setup {
    config: MockExecutionConfig,
    cap: usize,
    /// (base, quote) of the instruments, for `shape`
    pairs: Vec<(usize, usize)>,
    instruments: FnvHashMap<InstrumentNameExchange, Instrument<ExchangeId, AssetNameExchange>>,
}

fn parse_cfg(op: &[String]) -> Setup {
    let latency_ms: u64 = op[1].parse().unwrap();
    let fees_percent = parse_dec(&op[2]);
    let cap: usize = op[3].parse().unwrap();
    let n: usize = op[4].parse().unwrap();
    let balances = (0..n)
        .map(|a| {
            let tok = &op[5 + a];
            let (total, free) = match tok.split_once(':') {
                Some((t, f)) => (parse_dec(t), parse_dec(f)),
                None => (parse_dec(tok), parse_dec(tok)),
            };
            AssetBalance {
                asset: asset_name(a),
                balance: Balance::new(total, free),
                time_exchange: time_ms(0),
            }
        })
        .collect::<Vec<_>>();
    let k: usize = op[5 + n].parse().unwrap();
    assert_eq!(op.len(), 6 + n + k, "cfg arity");
    CUR_EXCHANGE.with(|c| c.set(EXCHANGE));
    let pairs: Vec<(usize, usize)> = (0..k)
        .map(|i| {
            let (b, q) = op[6 + n + i].split_once(':').expect("base:quote");
            (b.parse().unwrap(), q.parse().unwrap())
        })
        .collect();
    let instruments =
        pairs.iter().enumerate().map(|(i, (b, q))| (instr_name(i), build_instrument(i, *b, *q, None))).collect();
    Setup {
        config: MockExecutionConfig {
            mocked_exchange: exch(),
            initial_state: UnindexedAccountSnapshot {
                exchange: exch(),
                balances,
                instruments: vec![],
            },
            latency_ms,
            fees_percent,
        },
        cap,
        pairs,
        instruments,
    }
}

/// `shape <e> <tok>*k`: `false` = ill-formed (`bad-op`, nothing changed)
fn apply_shape(s: &mut Setup, op: &[String]) -> bool {
    let e = match op.get(1).map(|s| s.as_str()) {
        Some("m") => ExchangeId::Mock,
        Some("b") => ExchangeId::BinanceSpot,
        Some("k") => ExchangeId::Kraken,
        _ => return false,
    };
    let Some(shapes) = op[2..].iter().map(|t| parse_ishape(t)).collect::<Option<Vec<_>>>() else { return false };
    if shapes.len() != s.pairs.len() {
        return false;
    }
    CUR_EXCHANGE.with(|c| c.set(e));
    s.config.mocked_exchange = e;
    s.config.initial_state.exchange = e;
    s.instruments = s
        .pairs
        .iter()
        .enumerate()
        .map(|(i, (b, q))| (instr_name(i), build_instrument(i, *b, *q, Some(&shapes[i]))))
        .collect();
    true
}

fn build_instrument(
    i: usize,
    b: usize,
    q: usize,
    sh: Option<&IShape>,
) -> Instrument<ExchangeId, AssetNameExchange> {
    let name = instr_name(i);
    let underlying = Underlying::new(asset_name(b), asset_name(q));
    let Some(sh) = sh else {
        return Instrument::spot(exch(), format!("mock-i{i}"), name, underlying, None);
    };
    let settlement_asset = asset_name(sh.settle);
    let contract_size = sh.csize;
    let expiry = time_ms(1_900_000_000_000);
    let kind = match sh.kind {
        's' => InstrumentKind::Spot,
        'p' => InstrumentKind::Perpetual(PerpetualContract { contract_size, settlement_asset }),
        'f' => InstrumentKind::Future(FutureContract { contract_size, settlement_asset, expiry }),
        _ => InstrumentKind::Option(OptionContract {
            contract_size,
            settlement_asset,
            kind: if i % 2 == 0 { OptionKind::Call } else { OptionKind::Put },
            exercise: if i % 2 == 0 { OptionExercise::European } else { OptionExercise::American },
            expiry,
            strike: Decimal::new(100, 0),
        }),
    };
    let spec = sh.spec.then(|| InstrumentSpec {
        price: InstrumentSpecPrice { min: Decimal::new(1_000_000, 0), tick_size: Decimal::new(1000, 0) },
        quantity: InstrumentSpecQuantity {
            unit: match sh.kind {
                's' => OrderQuantityUnits::Asset(asset_name(b)),
                'p' => OrderQuantityUnits::Contract,
                _ => OrderQuantityUnits::Quote,
            },
            min: Decimal::new(1_000_000, 0),
            increment: Decimal::new(1000, 0),
        },
        notional: InstrumentSpecNotional { min: Decimal::new(1_000_000_000, 0) },
    });
    Instrument::new(
        exch(),
        format!("mock-i{i}"),
        name,
        underlying,
        if sh.quote_base { InstrumentQuoteAsset::UnderlyingBase } else { InstrumentQuoteAsset::UnderlyingQuote },
        kind,
        spec,
    )
}

fn parse_open_meta(op: &[String]) -> Open {
    Open {
        id: OrderId::new(op[0].parse::<u64>().unwrap().to_string()),
        time_exchange: time_ms(op[1].parse().unwrap()),
        filled_quantity: parse_dec(&op[2]),
    }
}

/// `ord <instr> <strategy> <cid> <B|S> <M|L> <price> <qty> <tif> <state…>`
fn parse_ord(op: &[String]) -> UnindexedOrder {
    assert!(op.len() >= 10, "ord arity");
    let st = &op[10..];
    let state = match (op[9].as_str(), st.len()) {
        ("O", 3) => OrderState::active(parse_open_meta(st)),
        ("C", 2) => OrderState::inactive(Cancelled {
            id: OrderId::new(st[0].parse::<u64>().unwrap().to_string()),
            time_exchange: time_ms(st[1].parse().unwrap()),
        }),
        ("F", 0) => OrderState::active(OpenInFlight),
        ("X", 0) => OrderState::fully_filled(),
        ("E", 0) => OrderState::expired(),
        ("R", 0) => OrderState::Inactive(InactiveOrderState::OpenFailed(OrderError::Rejected(
            ApiError::OrderRejected("configured".into()),
        ))),
        ("K", 0) => OrderState::active(CancelInFlight { order: None }),
        ("K", 3) => OrderState::active(CancelInFlight { order: Some(parse_open_meta(st)) }),
        other => panic!("bad order state {other:?}"),
    };
    Order {
        key: OrderKey {
            exchange: exch(),
            instrument: instr_name(op[1].parse().unwrap()),
            strategy: StrategyId::new(format!("s{}", op[2].parse::<usize>().unwrap())),
            cid: ClientOrderId::new(format!("c{}", op[3].parse::<usize>().unwrap())),
        },
        side: parse_side(&op[4]),
        kind: parse_kind(&op[5]),
        price: parse_dec(&op[6]),
        quantity: parse_dec(&op[7]),
        time_in_force: parse_tif(&op[8]),
        state,
    }
}

// ------------------------------------------------------------------------------------ observations

fn fmt_trade(tr: &Trade<QuoteAsset, InstrumentNameExchange>) -> String {
    let QuoteAsset = tr.fees.asset;
    format!(
        "{} {} {} {} {} {} {} {} {}",
        tr.id.0,
        tr.order_id.0,
        instr_index(&tr.instrument),
        strat_index(&tr.strategy),
        side_s(tr.side),
        fmt_dec(tr.price),
        fmt_dec(tr.quantity),
        fmt_dec(tr.fees.fees),
        tr.time_exchange.timestamp_millis()
    )
}

fn bal_lines(p: &str, mut bs: Vec<AssetBalance<AssetNameExchange>>, lines: &mut Vec<String>) {
    bs.sort_by_key(|b| asset_index(&b.asset));
    for b in &bs {
        lines.push(format!(
            "{p}bal {} {} {} {}",
            asset_index(&b.asset),
            fmt_dec(b.balance.total),
            fmt_dec(b.balance.free),
            b.time_exchange.timestamp_millis()
        ));
    }
}

/// common part of an order line: `instr strategy cid side price qty kind tif`
fn fmt_order_head<S>(o: &Order<ExchangeId, InstrumentNameExchange, S>) -> String {
    assert_eq!(o.key.exchange, exch());
    format!(
        "{} {} {} {} {} {} {} {}",
        instr_index(&o.key.instrument),
        strat_index(&o.key.strategy),
        cid_index(&o.key.cid),
        side_s(o.side),
        fmt_dec(o.price),
        fmt_dec(o.quantity),
        kind_s(o.kind),
        tif_s(o.time_in_force)
    )
}

fn fmt_open_order(o: &Order<ExchangeId, InstrumentNameExchange, Open>) -> String {
    format!(
        "O {} {} {} {}",
        fmt_order_head(o),
        o.state.id.0,
        o.state.time_exchange.timestamp_millis(),
        fmt_dec(o.state.filled_quantity)
    )
}

/// an order of an account snapshot; sort key = (open before cancelled, cid)
fn fmt_snapshot_order(o: &UnindexedOrder) -> ((u8, usize), String) {
    let head = fmt_order_head(o);
    let cid = cid_index(&o.key.cid);
    match &o.state {
        OrderState::Active(ActiveOrderState::Open(open)) => (
            (0, cid),
            format!(
                "O {head} {} {} {}",
                open.id.0,
                open.time_exchange.timestamp_millis(),
                fmt_dec(open.filled_quantity)
            ),
        ),
        OrderState::Inactive(InactiveOrderState::Cancelled(c)) => (
            (1, cid),
            format!("C {head} {} {}", c.id.0, c.time_exchange.timestamp_millis()),
        ),
        other => ((2, cid), format!("? {head} {other:?}").replace(' ', "_")),
    }
}

/// balances, then the instrument groups IN THE ORDER RETURNED; the orders inside one group are
/// sorted (open before cancelled, then cid): the code's order there is hash-map iteration order
/// under an unstable sort
fn snapshot_lines(p: &str, s: UnindexedAccountSnapshot, lines: &mut Vec<String>) {
    if s.exchange != exch() {
        // never printed on the real code (was an assert while the exchange id was fixed to Mock)
        lines.push(format!("{p}exch-mismatch snapshot {:?}", s.exchange));
    }
    bal_lines(p, s.balances, lines);
    lines.push(format!("{p}instruments {}", s.instruments.len()));
    for InstrumentAccountSnapshot { instrument, orders } in &s.instruments {
        lines.push(format!("{p}grp {} {}", instr_index(instrument), orders.len()));
        let mut os: Vec<_> = orders.iter().map(fmt_snapshot_order).collect();
        os.sort();
        for (_, l) in os {
            lines.push(format!("{p}ord {l}"));
        }
    }
}

fn event_line(ev: &UnindexedAccountEvent) -> String {
    if ev.exchange != exch() {
        return format!("ev X exch-mismatch {:?}", ev.exchange);
    }
    match &ev.kind {
        AccountEventKind::BalanceSnapshot(b) => {
            let b = &b.0;
            format!(
                "ev B {} {} {} {}",
                asset_index(&b.asset),
                fmt_dec(b.balance.total),
                fmt_dec(b.balance.free),
                b.time_exchange.timestamp_millis()
            )
        }
        AccountEventKind::Trade(tr) => format!("ev T {}", fmt_trade(tr)),
        other => format!("ev ? {other:?}").replace(' ', "_"),
    }
}

fn order_error_line(p: &str, e: &UnindexedOrderError) -> String {
    match e {
        OrderError::Rejected(ApiError::OrderRejected(_)) => format!("{p}err kind"),
        OrderError::Rejected(ApiError::InstrumentInvalid(i, _)) => {
            format!("{p}err instrument {}", instr_index(i))
        }
        OrderError::Rejected(ApiError::BalanceInsufficient(a, msg)) => {
            let nums: Vec<Decimal> = msg
                .split(", ")
                .map(|part| parse_dec(part.rsplit(": ").next().unwrap()))
                .collect();
            assert_eq!(nums.len(), 2, "insufficient message {msg}");
            format!(
                "{p}err insufficient {} {} {}",
                asset_index(a),
                fmt_dec(nums[0]),
                fmt_dec(nums[1])
            )
        }
        OrderError::Connectivity(ConnectivityError::ExchangeOffline(x)) if *x != exch() => {
            format!("{p}err offline exch-mismatch {x:?}")
        }
        OrderError::Connectivity(ConnectivityError::ExchangeOffline(_)) => format!("{p}err offline"),
        other => format!("{p}err other {other:?}").replace(' ', "_"),
    }
}

fn client_error_lines<A: std::fmt::Debug, I: std::fmt::Debug>(
    p: &str,
    e: &ClientError<A, I>,
    lines: &mut Vec<String>,
) {
    match e {
        ClientError::Connectivity(ConnectivityError::ExchangeOffline(x)) => {
            lines.push(format!("{p}resp offline"));
            if *x != exch() {
                lines.push(format!("{p}err offline exch-mismatch {x:?}"));
            } else {
                lines.push(format!("{p}err offline"));
            }
        }
        other => lines.push(format!("{p}resp other {other:?}").replace(' ', "_")),
    }
}

// ------------------------------------------------------------------------------------ calls

#[derive(Clone, Debug)]
enum CallKind {
    Open {
        instrument: InstrumentNameExchange,
        strategy: StrategyId,
        cid: ClientOrderId,
        state: RequestOpen,
    },
    Snap,
    Balances,
    Orders,
    Trades(i64),
    Cancel {
        instrument: InstrumentNameExchange,
        strategy: StrategyId,
        cid: ClientOrderId,
    },
}

fn parse_call(op: &[String]) -> Option<CallKind> {
    // op = call <w> <what> ...
    let rest = &op[3..];
    Some(match (op[2].as_str(), rest.len()) {
        ("open", 8) => {
            let kind = parse_kind(&rest[2]);
            CallKind::Open {
                instrument: instr_name(rest[0].parse().ok()?),
                strategy: StrategyId::new(format!("s{}", rest[5].parse::<usize>().ok()?)),
                cid: ClientOrderId::new(format!("c{}", rest[6].parse::<usize>().ok()?)),
                state: RequestOpen {
                    side: parse_side(&rest[1]),
                    price: parse_dec(&rest[3]),
                    quantity: parse_dec(&rest[4]),
                    kind,
                    time_in_force: parse_tif(&rest[7]),
                },
            }
        }
        ("snap", 0) => CallKind::Snap,
        ("balances", 0) => CallKind::Balances,
        ("orders", 0) => CallKind::Orders,
        ("trades", 1) => CallKind::Trades(parse_time(&rest[0])?),
        ("cancel", 3) => CallKind::Cancel {
            instrument: instr_name(rest[0].parse().ok()?),
            strategy: StrategyId::new(format!("s{}", rest[1].parse::<usize>().ok()?)),
            cid: ClientOrderId::new(format!("c{}", rest[2].parse::<usize>().ok()?)),
        },
        _ => return None,
    })
}

/// performs one client call; the observation lines carry the prefix `p`
async fn do_call<C>(client: &C, kind: CallKind, p: &str) -> Vec<String>
where
    C: ExecutionClient,
{
    let mut lines = Vec::new();
    match kind {
        CallKind::Open { instrument, strategy, cid, state } => {
            let request = OrderRequestOpen {
                key: OrderKey { exchange: exch(), instrument: &instrument, strategy, cid },
                state,
            };
            let r = client.open_order(request).await;
            assert_eq!(r.key.exchange, exch());
            lines.push(format!(
                "{p}resp {}",
                match &r.state {
                    Ok(_) => "ok",
                    Err(OrderError::Connectivity(_)) => "offline",
                    Err(_) => "rejected",
                }
            ));
            lines.push(format!(
                "{p}echo {} {} {} {} {} {} {} {}",
                instr_index(&r.key.instrument),
                strat_index(&r.key.strategy),
                cid_index(&r.key.cid),
                side_s(r.side),
                fmt_dec(r.price),
                fmt_dec(r.quantity),
                kind_s(r.kind),
                tif_s(r.time_in_force)
            ));
            match &r.state {
                Ok(open) => lines.push(format!(
                    "{p}open {} {} {}",
                    open.id.0,
                    fmt_dec(open.filled_quantity),
                    open.time_exchange.timestamp_millis()
                )),
                Err(e) => lines.push(order_error_line(p, e)),
            }
        }
        CallKind::Snap => match client.account_snapshot(&[], &[]).await {
            Ok(s) => {
                lines.push(format!("{p}resp snapshot"));
                snapshot_lines(p, s, &mut lines)
            }
            Err(e) => client_error_lines(p, &e, &mut lines),
        },
        CallKind::Balances => match client.fetch_balances().await {
            Ok(bs) => {
                lines.push(format!("{p}resp balances"));
                lines.push(format!("{p}balances {}", bs.len()));
                bal_lines(p, bs, &mut lines)
            }
            Err(e) => client_error_lines(p, &e, &mut lines),
        },
        CallKind::Orders => match client.fetch_open_orders().await {
            Ok(os) => {
                lines.push(format!("{p}resp orders"));
                lines.push(format!("{p}orders {}", os.len()));
                let mut ls: Vec<_> = os.iter().map(|o| (cid_index(&o.key.cid), fmt_open_order(o))).collect();
                ls.sort();
                for (_, l) in ls {
                    lines.push(format!("{p}ord {l}"));
                }
            }
            Err(e) => client_error_lines(p, &e, &mut lines),
        },
        CallKind::Trades(since) => match client.fetch_trades(time_ms(since)).await {
            Ok(ts) => {
                lines.push(format!("{p}resp trades"));
                lines.push(format!("{p}trades {}", ts.len()));
                for tr in &ts {
                    lines.push(format!("{p}trade {}", fmt_trade(tr)));
                }
            }
            Err(e) => client_error_lines(p, &e, &mut lines),
        },
        CallKind::Cancel { instrument, strategy, cid } => {
            let request = OrderRequestCancel {
                key: OrderKey { exchange: exch(), instrument: &instrument, strategy, cid },
                state: RequestCancel { id: None },
            };
            let r = client.cancel_order(request).await;
            assert_eq!(r.key.exchange, exch());
            lines.push(format!(
                "{p}resp {}",
                match &r.state {
                    Ok(_) => "cancelled",
                    Err(OrderError::Connectivity(_)) => "offline",
                    Err(_) => "rejected",
                }
            ));
            lines.push(format!(
                "{p}cecho {} {} {}",
                instr_index(&r.key.instrument),
                strat_index(&r.key.strategy),
                cid_index(&r.key.cid)
            ));
            match &r.state {
                Ok(c) => lines.push(format!("{p}cancelled {} {}", c.id.0, c.time_exchange.timestamp_millis())),
                Err(e) => lines.push(order_error_line(p, e)),
            }
        }
    }
    lines
}

// ------------------------------------------------------------------------------------ plumbing

/// The exchange task is polled only while the gate is open ("the scheduler has not run it yet").
struct Gate {
    open: AtomicBool,
    waker: Mutex<Option<Waker>>,
}

struct Gated<F> {
    inner: Pin<Box<F>>,
    gate: Arc<Gate>,
}

impl<F: Future<Output = ()>> Future for Gated<F> {
    type Output = ();
    fn poll(mut self: Pin<&mut Self>, cx: &mut Context<'_>) -> Poll<()> {
        if !self.gate.open.load(Ordering::SeqCst) {
            *self.gate.waker.lock().unwrap() = Some(cx.waker().clone());
            return Poll::Pending;
        }
        self.inner.as_mut().poll(cx)
    }
}

struct Completion {
    worker: usize,
    call: usize,
    elapsed_ms: u128,
    lines: Vec<String>,
}

enum Cmd {
    Call(usize, CallKind),
}

struct WorkerHandle {
    cmd_tx: mpsc::UnboundedSender<Cmd>,
    abandon_tx: mpsc::UnboundedSender<()>,
    pending: Option<usize>,
}

async fn settle() {
    for _ in 0..SETTLE_ROUNDS {
        tokio::task::yield_now().await;
    }
}

async fn worker_loop<C>(
    w: usize,
    client: C,
    mut cmd_rx: mpsc::UnboundedReceiver<Cmd>,
    mut abandon_rx: mpsc::UnboundedReceiver<()>,
    done: Arc<Mutex<Vec<Completion>>>,
) where
    C: ExecutionClient,
{
    let p = format!("w{w}.");
    while let Some(Cmd::Call(call, kind)) = cmd_rx.recv().await {
        let start = tokio::time::Instant::now();
        let fut = do_call(&client, kind, &p);
        tokio::select! {
            biased;
            _ = abandon_rx.recv() => {
                // the future of the call (and with it the oneshot receiver) is dropped here
            }
            lines = fut => {
                done.lock().unwrap().push(Completion {
                    worker: w,
                    call,
                    elapsed_ms: start.elapsed().as_millis(),
                    lines,
                });
            }
        }
    }
}

fn run_case(case: &Case, lines: &mut Vec<String>) {
    let mut setup: Option<Setup> = None;
    let mut k = 0usize;
    // ---- configuration phase
    loop {
        let Some(op) = case.ops.get(k) else { return };
        k += 1;
        lines.push("@".into());
        match op[0].as_str() {
            "cfg" if setup.is_none() && op.len() > 5 && op[3] != "0" => setup = Some(parse_cfg(op)),
            "shape" if setup.as_ref().is_some_and(|s| s.config.initial_state.instruments.is_empty()) => {
                if !apply_shape(setup.as_mut().unwrap(), op) {
                    lines.push("bad-op".into());
                }
            }
            "grp" if setup.is_some() && op.len() == 2 => {
                let s = setup.as_mut().unwrap();
                s.config.initial_state.instruments.push(InstrumentAccountSnapshot {
                    instrument: instr_name(op[1].parse().unwrap()),
                    orders: vec![],
                });
            }
            "ord" if setup.as_ref().is_some_and(|s| !s.config.initial_state.instruments.is_empty()) => {
                let o = parse_ord(op);
                setup.as_mut().unwrap().config.initial_state.instruments.last_mut().unwrap().orders.push(o);
            }
            "dcancel" if setup.is_some() && op.len() == 1 => {
                let s = setup.take().unwrap();
                let (_request_tx, request_rx) = mpsc::unbounded_channel();
                let (event_tx, _event_rx) = broadcast::channel(s.cap);
                let mut exchange = MockExchange::new(s.config, request_rx, event_tx, s.instruments);
                let name = instr_name(0);
                let _ = exchange.cancel_order(OrderRequestCancel {
                    key: OrderKey {
                        exchange: exch(),
                        instrument: name,
                        strategy: StrategyId::new("s0"),
                        cid: ClientOrderId::new("c0"),
                    },
                    state: RequestCancel { id: None },
                });
                lines.push("returned".into());
                return;
            }
            "start" if setup.is_some() && op.len() == 2 => break,
            _ => lines.push("bad-op".into()),
        }
    }
    let n_workers: usize = case.ops[k - 1][1].parse().unwrap();
    let setup = setup.unwrap();
    let rt = tokio::runtime::Builder::new_current_thread()
        .enable_time()
        .start_paused(true)
        .build()
        .unwrap();
    rt.block_on(async {
        let t0 = tokio::time::Instant::now();
        // wiring of barter/src/execution/builder.rs:96-129
        let (request_tx, request_rx) = mpsc::unbounded_channel();
        let (event_tx, event_rx) = broadcast::channel(setup.cap);
        let now = Arc::new(AtomicI64::new(0));
        let clock = {
            let now = now.clone();
            move || time_ms(now.load(Ordering::SeqCst))
        };
        let client = <MockExecution<_> as ExecutionClient>::new(MockExecutionClientConfig {
            mocked_exchange: exch(),
            clock,
            request_tx,
            event_rx,
        });
        let exchange = MockExchange::new(setup.config, request_rx, event_tx, setup.instruments);
        // initial observation straight from the struct (no request: the exchange clock must not move)
        snapshot_lines("", exchange.account_snapshot(), lines);
        let gate = Arc::new(Gate { open: AtomicBool::new(true), waker: Mutex::new(None) });
        let mut exchange_task =
            Some(tokio::spawn(Gated { inner: Box::pin(exchange.run()), gate: gate.clone() }));
        let done: Arc<Mutex<Vec<Completion>>> = Arc::new(Mutex::new(Vec::new()));
        let mut workers: Vec<WorkerHandle> = (0..n_workers)
            .map(|w| {
                let (cmd_tx, cmd_rx) = mpsc::unbounded_channel();
                let (abandon_tx, abandon_rx) = mpsc::unbounded_channel();
                tokio::spawn(worker_loop(w, client.clone(), cmd_rx, abandon_rx, done.clone()));
                WorkerHandle { cmd_tx, abandon_tx, pending: None }
            })
            .collect();
        let mut subs: Vec<Option<BoxStream<'static, UnindexedAccountEvent>>> = Vec::new();
        let mut next_call = 0usize;
        settle().await;

        for op in &case.ops[k..] {
            lines.push("@".into());
            let mut ok = true;
            match (op[0].as_str(), op.len()) {
                ("clock", 2) => match parse_time(&op[1]) {
                    Some(t) => now.store(t, Ordering::SeqCst),
                    None => ok = false,
                },
                ("call", n) if n >= 3 => {
                    let w = op[1].parse::<usize>().ok().filter(|w| *w < workers.len());
                    match (w, parse_call(op)) {
                        (Some(w), Some(kind)) if workers[w].pending.is_none() => {
                            workers[w].pending = Some(next_call);
                            workers[w].cmd_tx.send(Cmd::Call(next_call, kind)).ok().unwrap();
                            next_call += 1;
                        }
                        _ => ok = false,
                    }
                }
                ("abandon", 2) => {
                    match op[1].parse::<usize>().ok().filter(|w| *w < workers.len() && workers[*w].pending.is_some()) {
                        Some(w) => {
                            workers[w].abandon_tx.send(()).ok().unwrap();
                            workers[w].pending = None;
                        }
                        None => ok = false,
                    }
                }
                ("exch", 2) => match op[1].as_str() {
                    "off" => gate.open.store(false, Ordering::SeqCst),
                    "on" => {
                        gate.open.store(true, Ordering::SeqCst);
                        if let Some(w) = gate.waker.lock().unwrap().take() {
                            w.wake()
                        }
                    }
                    "stop" => {
                        if let Some(h) = exchange_task.take() {
                            h.abort();
                        }
                    }
                    _ => ok = false,
                },
                ("adv", 2) => match op[1].parse::<u64>() {
                    Ok(ms) => tokio::time::advance(std::time::Duration::from_millis(ms)).await,
                    Err(_) => ok = false,
                },
                ("sub", 1) => {
                    subs.push(Some(client.account_stream(&[], &[]).await.unwrap()));
                }
                ("poll", 2) => match op[1].parse::<usize>().ok().filter(|s| *s < subs.len()) {
                    Some(s) => {
                        // first let everything that is due happen
                        settle().await;
                        let mut ended = subs[s].is_none();
                        if let Some(stream) = subs[s].as_mut() {
                            loop {
                                // `unconstrained`: tokio's cooperative budget (128 per task poll) would
                                // make the broadcast receiver answer `Pending` after 128 values although
                                // more are waiting; the budget is a scheduling artefact (the consumer is
                                // simply polled again), not part of the protocol. Without it a poll of a
                                // subscriber 129..256 values behind (production capacity 256) was cut.
                                match tokio::task::unconstrained(stream.next()).now_or_never() {
                                    Some(Some(ev)) => lines.push(event_line(&ev)),
                                    Some(None) => {
                                        ended = true;
                                        break;
                                    }
                                    None => break,
                                }
                            }
                        }
                        if ended {
                            subs[s] = None;
                        }
                        lines.push(format!("stream {}", if ended { "end" } else { "pending" }));
                    }
                    None => ok = false,
                },
                _ => ok = false,
            }
            if !ok {
                lines.push("bad-op".into());
                continue;
            }
            settle().await;
            let mut finished: Vec<Completion> = std::mem::take(&mut *done.lock().unwrap());
            finished.sort_by_key(|c| c.worker);
            for c in finished {
                assert_eq!(workers[c.worker].pending, Some(c.call), "completion of a call that is not pending");
                workers[c.worker].pending = None;
                lines.push(format!("w{}.done {} {}", c.worker, c.call, c.elapsed_ms));
                lines.extend(c.lines);
            }
            lines.push(format!("now {}", t0.elapsed().as_millis()));
            lines.push(format!(
                "pending {}",
                workers
                    .iter()
                    .map(|w| w.pending.map(|c| c.to_string()).unwrap_or_else(|| "-".into()))
                    .collect::<Vec<_>>()
                    .join(" ")
            ));
        }
    });
}

fn run() {
    run_cases(run_case);
}

// ------------------------------------------------------------------------------------ generators

fn d(m: i64, scale: u32) -> String {
    dec_str(m, scale)
}

struct World {
    latency: u64,
    n_instr: usize,
    n_workers: usize,
    // generator-side approximation of the system, only used to keep most ops possible
    now: u64,
    gate: bool,
    alive: bool,
    /// per worker: None idle, Some(None) waiting for the exchange to see the request, Some(Some(due))
    pending: Vec<Option<Option<u64>>>,
    subs: usize,
    clock: i64,
}

/// `shape`: configuration-shape family (`cfg` cases, own PRNG stream): 8 % accounts without any balance
/// and a `shape` op after the `cfg` line; with `shape = false` exactly the draws made before
fn gen_cfg(rng: &mut Rng, out: &mut Out, shape: bool) -> World {
    let latency = *rng.pick(&[0u64, 1, 2, 7, 100, 101]);
    let fee = if rng.chance(4) { "-0.01" } else { *rng.pick(&["0", "0", "0.01", "0.001", "0.1", "0.25"]) };
    let cap = *rng.pick(&[1usize, 2, 2, 3, 4, 4, 5, 8, 16, 256]);
    let n_assets = if shape && rng.chance(8) { 0 } else { rng.range(1, 4) as usize };
    let mut bals: Vec<String> = (0..n_assets)
        .map(|_| match rng.below(6) {
            0 => "0".to_string(),
            1 => d(rng.range(1, 30), 0),
            2 => d(rng.range(1, 3000), 2),
            3 => d(rng.range(50, 2000), 0),
            _ => d(rng.range(100, 1000), 0),
        })
        .collect();
    let k = if n_assets == 0 || rng.chance(5) { 0 } else { rng.range(1, 3) as usize };
    let mut instruments: Vec<(usize, usize)> = (0..k)
        .map(|_| (rng.below(n_assets as u64) as usize, rng.below(n_assets as u64) as usize))
        .collect();
    if rng.chance(5) && k > 0 {
        // ill-formed: an instrument asset without balance, or total != free: the exchange task panics
        if rng.chance(50) {
            let i = rng.below(k as u64) as usize;
            instruments[i].1 = n_assets + rng.below(2) as usize;
        } else {
            let a = rng.below(n_assets as u64) as usize;
            bals[a] = format!("{}:{}", d(rng.range(5, 50), 0), d(rng.range(0, 4), 0));
        }
    }
    out.line(format!(
        "cfg {latency} {fee} {cap} {n_assets}{} {k}{}",
        bals.iter().map(|b| format!(" {b}")).collect::<String>(),
        instruments.iter().map(|(b, q)| format!(" {b}:{q}")).collect::<String>()
    ));
    if shape {
        let e = *rng.pick(&["m", "b", "b", "k", "k"]);
        let toks: String = (0..k)
            .map(|_| {
                format!(
                    " {}{}{}{}{}",
                    *rng.pick(&["s", "p", "p", "f", "o"]),
                    if rng.chance(25) { "b" } else { "q" },
                    rng.below((n_assets as u64 + 2).min(10)),
                    *rng.pick(&["u", "t", "t", "c"]),
                    if rng.chance(40) { "+" } else { "" }
                )
            })
            .collect();
        out.line(format!("shape {e}{toks}"));
    }
    // initial orders
    let n_groups = *rng.pick(&[0usize, 0, 1, 1, 2, 3]);
    let collide = rng.chance(15);
    let mut next_cid = rng.range(0, 3) as usize;
    for _ in 0..n_groups {
        let gi = rng.below(4) as usize;
        out.line(format!("grp {gi}"));
        for _ in 0..*rng.pick(&[0usize, 1, 1, 2, 3, 4]) {
            // mostly filed under its own instrument
            let oi = if rng.chance(80) { gi } else { rng.below(5) as usize };
            let cid = if collide { rng.below(4) as usize } else { next_cid };
            next_cid += rng.range(1, 3) as usize;
            let side = if rng.chance(50) { "B" } else { "S" };
            let kind = if rng.chance(80) { "L" } else { "M" };
            let state = match rng.below(20) {
                0..=8 => format!("O {} {} {}", rng.below(6), rng.range(-5, 400), d(rng.range(0, 20), 1)),
                9..=14 => format!("C {} {}", rng.below(6), rng.range(-5, 400)),
                15 => "F".into(),
                16 => "X".into(),
                17 => "E".into(),
                18 => "R".into(),
                _ => {
                    if rng.chance(50) {
                        "K".into()
                    } else {
                        format!("K {} {} {}", rng.below(6), rng.range(0, 400), d(rng.range(0, 20), 1))
                    }
                }
            };
            out.line(format!(
                "ord {oi} {} {cid} {side} {kind} {} {} {} {state}",
                rng.below(3),
                d(rng.range(1, 2000), 1),
                d(rng.range(1, 50), 1),
                rng.below(5)
            ));
        }
    }
    let n_workers = rng.range(1, 4) as usize;
    World {
        latency,
        n_instr: k,
        n_workers,
        now: 0,
        gate: true,
        alive: true,
        pending: vec![None; n_workers],
        subs: 0,
        clock: 0,
    }
}

fn gen_open(rng: &mut Rng, w: &World) -> String {
    let k = w.n_instr;
    let instr = if k == 0 || rng.chance(8) { k + rng.below(2) as usize } else { rng.below(k as u64) as usize };
    let side = if rng.chance(50) { "B" } else { "S" };
    let kind = if rng.chance(8) { "L" } else { "M" };
    let price = match rng.below(10) {
        0 => "0".to_string(),
        1 => d(-rng.range(1, 5), 0),
        2 | 3 => d(rng.range(1, 5), 0),
        4 => d(rng.range(1, 2000), 2),
        _ => d(*rng.pick(&[1i64, 2, 10]), 0),
    };
    let qty = match rng.below(12) {
        0 => "0".to_string(),
        1 => d(-rng.range(1, 5), 0),
        2 => d(rng.range(1, 9999), 3),
        3 => d(rng.range(1, 400), 0),
        _ => d(*rng.pick(&[1i64, 2, 5, 10, 25]), *rng.pick(&[0u32, 0, 1])),
    };
    format!("open {instr} {side} {kind} {price} {qty} {} {} {}", rng.below(3), rng.below(1000), rng.below(5))
}

impl World {
    fn settle(&mut self) {
        if self.alive && self.gate {
            for p in self.pending.iter_mut() {
                if *p == Some(None) {
                    *p = Some(Some(self.now + self.latency));
                }
            }
        }
        for p in self.pending.iter_mut() {
            if let Some(Some(due)) = p {
                if *due <= self.now {
                    *p = None;
                }
            }
        }
    }
}

fn gen_op(rng: &mut Rng, w: &mut World, out: &mut Out) {
    let idle: Vec<usize> = (0..w.n_workers).filter(|i| w.pending[*i].is_none()).collect();
    let busy: Vec<usize> = (0..w.n_workers).filter(|i| w.pending[*i].is_some()).collect();
    let r = rng.below(100);
    if r < 38 {
        // a call; now and then on a busy or non-existent worker
        let wk = if rng.chance(3) {
            rng.below(w.n_workers as u64 + 1) as usize
        } else if let Some(wk) = (!idle.is_empty()).then(|| *rng.pick(&idle)) {
            wk
        } else {
            let ms = *rng.pick(&[1u64, w.latency.max(1)]);
            out.line(format!("adv {ms}"));
            w.now += ms;
            w.settle();
            return;
        };
        let what = match rng.below(100) {
            0..=54 => gen_open(rng, w),
            55..=66 => "snap".to_string(),
            67..=74 => "balances".to_string(),
            75..=82 => "orders".to_string(),
            83..=93 => {
                let since = if rng.chance(30) { 0 } else { w.clock + (w.latency / 2) as i64 - rng.range(-2, 12) };
                format!("trades {since}")
            }
            _ => format!("cancel {} {} {}", rng.below(3), rng.below(3), rng.below(8)),
        };
        out.line(format!("call {wk} {what}"));
        if wk < w.n_workers && w.pending[wk].is_none() {
            if !w.alive || (what.starts_with("cancel") && w.gate) {
                // completes at once
            } else {
                w.pending[wk] = Some(None);
            }
        }
    } else if r < 58 {
        let ms = match rng.below(8) {
            0 => 0,
            1 => 1,
            2 => w.latency,
            3 => w.latency.saturating_sub(1),
            4 => w.latency / 2,
            5 => w.latency + 1,
            6 => 1000,
            _ => rng.below(12),
        };
        out.line(format!("adv {ms}"));
        w.now += ms;
    } else if r < 68 {
        w.clock = if rng.chance(85) { w.clock + *rng.pick(&[0i64, 1, 1, 2, 50, 1000]) } else { rng.range(-3, 60) };
        if w.clock > MAX_MS {
            // one step past the end now and then (`bad-op` on both sides), else the very end
            w.clock = if rng.chance(20) { MAX_MS + 1 } else { MAX_MS };
        }
        out.line(format!("clock {}", w.clock));
    } else if r < 76 {
        out.line("sub");
        w.subs += 1;
    } else if r < 88 {
        if w.subs == 0 && !rng.chance(10) {
            out.line("sub");
            w.subs += 1;
        } else {
            let s = if w.subs == 0 || rng.chance(3) { w.subs } else { rng.below(w.subs as u64) as usize };
            out.line(format!("poll {s}"));
        }
    } else if r < 92 {
        out.line("exch off");
        w.gate = false;
    } else if r < 96 {
        out.line("exch on");
        w.gate = true;
    } else if r < 99 {
        let wk = if busy.is_empty() || rng.chance(5) { rng.below(w.n_workers as u64) as usize } else { *rng.pick(&busy) };
        out.line(format!("abandon {wk}"));
        w.pending[wk] = None;
    } else {
        out.line("exch stop");
        w.alive = false;
        for p in w.pending.iter_mut() {
            if *p == Some(None) {
                *p = None;
            }
        }
    }
    w.settle();
}

/// long burst on a big channel (the production capacity is 256, builder.rs:96): one subscriber is
/// polled only after `2 m` notifications are waiting (129..=cap: handed all of them in ONE poll; more
/// than the capacity: `Lagged`, the stream ends with nothing), a second one keeps up, a third is
/// polled at the very end
fn gen_burst(rng: &mut Rng, out: &mut Out) {
    let latency = *rng.pick(&[0u64, 1, 2]);
    let cap = *rng.pick(&[128usize, 129, 200, 256, 256, 256]);
    let real_cap = cap.next_power_of_two();
    out.line(format!("cfg {latency} 0 {cap} 2 100000 100000 1 0:1"));
    out.line("start 1");
    out.line("sub");
    out.line("sub");
    out.line("sub");
    // number of accepted orders: 2 m events; around the 128 of the coop budget, around the capacity, beyond
    let m = match rng.below(4) {
        0 => rng.range(64, 66) as usize,
        1 => real_cap / 2 - rng.below(3) as usize,
        2 => real_cap / 2 + 1 + rng.below(20) as usize,
        _ => rng.range(65, (real_cap / 2).max(66) as i64) as usize,
    };
    let keep_up_every = rng.range(10, 60) as usize;
    for i in 0..m {
        if rng.chance(3) {
            out.line(format!("clock {}", i * 10));
        }
        // now and then a rejected order in between (no notification)
        if rng.chance(5) {
            out.line(format!("call 0 open 0 B M 1000000 1 0 {} 0", 5000 + i));
            out.line(format!("adv {latency}"));
        }
        out.line(format!("call 0 open 0 {} M 1 1 0 {i} 0", if rng.chance(50) { "B" } else { "S" }));
        out.line(format!("adv {latency}"));
        if i % keep_up_every == keep_up_every - 1 {
            out.line("poll 1");
        }
    }
    out.line("poll 0");
    out.line("poll 0");
    out.line("poll 1");
    if rng.chance(50) {
        out.line("exch stop");
    }
    out.line("poll 2");
    out.line("poll 0");
    out.line("poll 1");
    out.line("poll 2");
}

fn gen_case(rng: &mut Rng, out: &mut Out, big: bool, shape: bool) {
    if !shape && rng.chance(1) {
        gen_burst(rng, out);
        return;
    }
    let mut w = gen_cfg(rng, out, shape);
    if !shape && rng.chance(1) {
        out.line("dcancel");
        return;
    }
    out.line(format!("start {}", w.n_workers));
    if rng.chance(70) {
        out.line("sub");
        w.subs += 1;
    }
    if rng.chance(3) {
        // the end of chrono's range: `update_time_exchange` falls back to the request time when
        // `time_request + latency / 2` is no `DateTime<Utc>`
        w.clock = MAX_MS - rng.range(0, 120);
        out.line(format!("clock {}", w.clock));
    }
    let len = rng.range(0, if big { 70 } else { 30 });
    // a quarter of the cases lose their exchange somewhere in the last 40 % of the history
    let stop_at = if rng.chance(25) { Some(len - rng.range(0, 2 * len / 5)) } else { None };
    for i in 0..len {
        if stop_at == Some(i) && w.alive {
            out.line("exch stop");
            w.alive = false;
            for p in w.pending.iter_mut() {
                if *p == Some(None) {
                    *p = None;
                }
            }
            w.settle();
        }
        gen_op(rng, &mut w, out);
    }
    // flush: whatever is still in flight completes, every subscriber reads on
    if rng.chance(60) {
        out.line("exch on");
        out.line(format!("adv {}", w.latency));
        for s in 0..w.subs {
            out.line(format!("poll {s}"));
        }
    }
}

/// small scope: latency 2, capacity 4, one instrument 0:1, one configured open and one configured
/// cancelled order, two workers, one early subscriber; every sequence of length <= `depth` over SYMS
fn gen_exhaustive(out: &mut Out, id: &mut usize, depth: usize) {
    const SYMS: [&str; 13] = [
        "call 0 open 0 B M 10 1 0 1 4",
        "call 1 open 0 S M 10 2 1 2 4",
        "call 1 open 0 B M 10 9 1 3 4",
        "call 0 snap",
        "call 1 cancel 0 0 1",
        "adv 1",
        "adv 2",
        "exch off",
        "exch on",
        "exch stop",
        "abandon 0",
        "sub",
        "poll 0",
    ];
    for len in 0..=depth {
        let total = SYMS.len().pow(len as u32);
        for mut code in 0..total {
            *id += 1;
            out.case(format!("x{id}"));
            out.line("cfg 2 0.5 4 2 2 40 1 0:1");
            out.line("grp 0");
            out.line("ord 0 0 7 B L 9 1 0 O 3 5 0.5");
            out.line("ord 0 1 8 S L 11 1 0 C 4 6");
            out.line("start 2");
            out.line("sub");
            for step in 0..len {
                let s = SYMS[code % SYMS.len()];
                code /= SYMS.len();
                out.line(format!("clock {}", 10 * (step + 1)));
                out.line(s);
            }
            out.line("exch on");
            out.line("adv 2");
            out.line("call 0 trades 0");
            out.line("call 1 orders");
            out.line("adv 2");
            out.line("poll 0");
            out.line("poll 1");
        }
    }
}

fn generate(seed: u64, n_cases: usize, tier: &str) {
    let mut out = Out::new();
    let mut rng = Rng::new(seed);
    let mut id = 0usize;
    let big = tier == "thorough";
    if big {
        gen_exhaustive(&mut out, &mut id, 4);
    }
    for _ in 0..n_cases {
        id += 1;
        out.case(format!("r{id}"));
        let mut r = rng.fork();
        gen_case(&mut r, &mut out, big, false);
    }
    // configuration-shape family (exchange id other than Mock, derivative instruments, in-kind quoting, an
    // InstrumentSpec, accounts without balances): a fifth as many cases again, from its own PRNG stream
    let mut crng = Rng::new(seed ^ 0x0C08_CCF6_5EED);
    for _ in 0..n_cases.div_ceil(5) {
        id += 1;
        out.case(format!("cfg{id}"));
        let mut r = crng.fork();
        gen_case(&mut r, &mut out, big, true);
    }
    out.flush();
}

fn main() {
    let a = args();
    match a.cmd.as_str() {
        "gen" => generate(a.seed, a.n, &a.tier),
        "run" => run(),
        _ => {
            eprintln!("usage: c08c gen <seed> <n> <tier> | run < cases");
            std::process::exit(2)
        }
    }
}
