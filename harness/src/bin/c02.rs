//! C02 — position size / realised PnL conserve the cash flows of the fills.
//!
//! Ops
//!   `init pm`                 a bare `PositionManager<InstrumentIndex>`; every fill goes to it
//!   `init engine <n>`         a real `Engine` with `n` instruments on one exchange; every fill is an
//!                             `AccountEventKind::Trade` processed by `Engine::process`, the exit is
//!                             read from `EngineOutput::PositionExit` in the returned audit
//!   `init enginex <E|D> <links> <spec>+`
//!                             configuration-shape family: a real `Engine` assembled from one instrument per
//!                             `<spec>` = `<exchange label 0..2><kind s|p|f|o>` (spot / perpetual / future /
//!                             option, the derivatives with contract sizes 10 / 0.1 / 100), added in the order
//!                             given - `IndexedInstruments` sorts them exchange first, so the index order
//!                             differs from the order of addition; trading state Enabled / Disabled at start;
//!                             `<links>` = three letters `H|M`, the execution link of exchange label 0,1,2
//!                             (`M`: the `MultiExchangeTxMap` slot is `None` - tracked but not traded).
//!                             A fill on instrument index k is an account event of THAT instrument's exchange.
//!   `fill <id> <instr> <time> <B|S> <price> <qty> <fee>`
//!
//! Observations: `exit …` (returned `PositionExited`), `pos …` (`PositionManager.current`) with every
//! field, then the derived property-level lines (`side qty exited cash fees idrec opened exitfee life exlife`)
//! computed here from the real values exactly as `Driver/C02.lean: derived` does from the model's.
use barter::{
    EngineEvent,
    engine::{
        EngineOutput, Processor,
        audit::EngineAudit,
        state::{
            position::{Position, PositionExited, PositionManager},
            trading::TradingState,
        },
    },
    execution::AccountStreamEvent,
};
use barter_execution::{
    AccountEvent, AccountEventKind,
    order::id::{OrderId, StrategyId},
    trade::{AssetFees, Trade, TradeId},
};
use barter_instrument::{
    Side, Underlying,
    asset::{Asset, QuoteAsset},
    exchange::ExchangeIndex,
    index::IndexedInstruments,
    instrument::{
        Instrument, InstrumentIndex,
        kind::{
            InstrumentKind,
            future::FutureContract,
            option::{OptionContract, OptionExercise, OptionKind},
            perpetual::PerpetualContract,
        },
        quote::InstrumentQuoteAsset,
    },
};
use rust_decimal::Decimal;
use vh::{engine_util::*, *};

type Pos = Position<QuoteAsset, InstrumentIndex>;
type Exit = PositionExited<QuoteAsset, InstrumentIndex>;

fn s2s(s: Side) -> &'static str {
    match s {
        Side::Buy => "B",
        Side::Sell => "S",
    }
}

fn ms(t: chrono::DateTime<chrono::Utc>) -> i64 {
    (t - t0()).num_milliseconds()
}

fn ids(v: &[TradeId]) -> String {
    let mut s = String::from("ids");
    for id in v {
        s.push(' ');
        s.push_str(id.0.as_str());
    }
    s
}

fn fmt_exit(e: &Option<Exit>) -> String {
    match e {
        None => "exit none".into(),
        Some(e) => format!(
            "exit {} {} {} {} {} {} {} {} {} {}",
            e.instrument.index(),
            s2s(e.side),
            fmt_dec_approx(e.price_entry_average),
            fmt_dec(e.quantity_abs_max),
            fmt_dec_approx(e.pnl_realised),
            fmt_dec_approx(e.fees_enter.fees),
            fmt_dec_approx(e.fees_exit.fees),
            ms(e.time_enter),
            ms(e.time_exit),
            ids(&e.trades)
        ),
    }
}

fn fmt_pos(p: &Option<Pos>) -> String {
    match p {
        None => "pos none".into(),
        Some(p) => format!(
            "pos {} {} {} {} {} {} {} {} {} {} {} {}",
            p.instrument.index(),
            s2s(p.side),
            fmt_dec_approx(p.price_entry_average),
            fmt_dec(p.quantity_abs),
            fmt_dec(p.quantity_abs_max),
            fmt_dec_approx(p.pnl_unrealised),
            fmt_dec_approx(p.pnl_realised),
            fmt_dec_approx(p.fees_enter.fees),
            fmt_dec_approx(p.fees_exit.fees),
            ms(p.time_enter),
            ms(p.time_exchange_update),
            ids(&p.trades)
        ),
    }
}

/// What an observer of the return values accumulates for one position manager.
#[derive(Default, Clone)]
struct Acc {
    closed_pnl: Decimal,
    closed_fees: Decimal,
}

fn flag(b: Option<bool>) -> &'static str {
    match b {
        None => "-",
        Some(true) => "1",
        Some(false) => "0",
    }
}

fn opt_approx(d: Option<Decimal>) -> String {
    d.map(fmt_dec_approx).unwrap_or_else(|| "-".into())
}

fn derived(
    acc: &mut Acc,
    prev: &Option<Pos>,
    cur: &Option<Pos>,
    exit: &Option<Exit>,
    trade_id: &TradeId,
    lines: &mut Vec<String>,
) {
    if let Some(e) = exit {
        acc.closed_pnl += e.pnl_realised;
        acc.closed_fees += e.fees_enter.fees + e.fees_exit.fees;
    }
    let (open_pnl, open_fees, open_value, qty) = match cur {
        Some(p) => {
            let signed = match p.side {
                Side::Buy => p.quantity_abs,
                Side::Sell => -p.quantity_abs,
            };
            (
                p.pnl_realised,
                p.fees_enter.fees + p.fees_exit.fees,
                signed * p.price_entry_average,
                p.quantity_abs,
            )
        }
        None => (Decimal::ZERO, Decimal::ZERO, Decimal::ZERO, Decimal::ZERO),
    };
    let opened = match cur {
        Some(p) if prev.is_none() || exit.is_some() => Some(p.fees_enter.fees),
        _ => None,
    };
    let exitfee = match (exit, prev) {
        (Some(e), Some(p)) => Some(e.fees_exit.fees - p.fees_exit.fees),
        _ => None,
    };
    lines.push(format!(
        "side {}",
        cur.as_ref().map(|p| s2s(p.side)).unwrap_or("none")
    ));
    lines.push(format!("qty {}", fmt_dec(qty)));
    lines.push(format!("exited {}", if exit.is_some() { 1 } else { 0 }));
    lines.push(format!(
        "cash {}",
        fmt_dec_approx(acc.closed_pnl + open_pnl - open_value)
    ));
    lines.push(format!("fees {}", fmt_dec_approx(acc.closed_fees + open_fees)));
    lines.push(format!(
        "idrec {} {}",
        flag(cur.as_ref().map(|p| p.trades.contains(trade_id))),
        flag(exit.as_ref().map(|e| e.trades.contains(trade_id)))
    ));
    lines.push(format!("opened {}", opt_approx(opened)));
    lines.push(format!("exitfee {}", opt_approx(exitfee)));
    lines.push(match cur {
        Some(p) => format!(
            "life {} {} {}",
            fmt_dec(p.quantity_abs_max),
            ms(p.time_enter),
            ids(&p.trades)
        ),
        None => "life none".into(),
    });
    lines.push(match exit {
        Some(e) => format!(
            "exlife {} {} {} {} {}",
            fmt_dec(e.quantity_abs_max),
            ms(e.time_enter),
            ms(e.time_exit),
            s2s(e.side),
            ids(&e.trades)
        ),
        None => "exlife none".into(),
    });
}

enum Mode {
    Unset,
    Pm(PositionManager<InstrumentIndex>),
    Engine(Box<Built>, usize),
}

fn parse_trade(op: &[String]) -> Option<Trade<QuoteAsset, InstrumentIndex>> {
    if op.len() != 8 || op[0] != "fill" {
        return None;
    }
    let id: u64 = op[1].parse().ok()?;
    let instr: usize = op[2].parse().ok()?;
    let time: i64 = op[3].parse().ok()?;
    let side = match op[4].as_str() {
        "B" => Side::Buy,
        "S" => Side::Sell,
        _ => return None,
    };
    let price: Decimal = op[5].parse().ok()?;
    let qty: Decimal = op[6].parse().ok()?;
    let fee: Decimal = op[7].parse().ok()?;
    Some(Trade {
        id: TradeId::new(id.to_string()),
        order_id: OrderId::new(format!("o{id}")),
        instrument: InstrumentIndex(instr),
        strategy: StrategyId::new("verif"),
        time_exchange: time_ms(time),
        side,
        price,
        quantity: qty,
        fees: AssetFees::quote_fees(fee),
    })
}

/// `init enginex <E|D> <links> <spec>+` (see the module doc); `None` = malformed (`bad-op`).
fn parse_enginex(op: &[String]) -> Option<(TradingState, [Link; 3], Vec<(usize, char)>)> {
    if op.len() < 5 || op[0] != "init" || op[1] != "enginex" {
        return None;
    }
    let trading = match op[2].as_str() {
        "E" => TradingState::Enabled,
        "D" => TradingState::Disabled,
        _ => return None,
    };
    let l: Vec<char> = op[3].chars().collect();
    if l.len() != 3 || l.iter().any(|c| *c != 'H' && *c != 'M') {
        return None;
    }
    let link = |c: char| if c == 'H' { Link::Healthy } else { Link::Missing };
    let mut specs = vec![];
    for t in &op[4..] {
        let c: Vec<char> = t.chars().collect();
        if c.len() != 2 || !"012".contains(c[0]) || !"spfo".contains(c[1]) {
            return None;
        }
        specs.push((c[0] as usize - '0' as usize, c[1]));
    }
    Some((trading, [link(l[0]), link(l[1]), link(l[2])], specs))
}

fn build_enginex(trading: TradingState, links: [Link; 3], specs: &[(usize, char)]) -> Built {
    let usdt = || Asset::from("usdt");
    let mut builder = IndexedInstruments::builder();
    for (k, (ex, kind)) in specs.iter().enumerate() {
        let kind = match kind {
            's' => InstrumentKind::Spot,
            'p' => InstrumentKind::Perpetual(PerpetualContract {
                contract_size: Decimal::new(10, 0),
                settlement_asset: usdt(),
            }),
            'f' => InstrumentKind::Future(FutureContract {
                contract_size: Decimal::new(1, 1),
                settlement_asset: usdt(),
                expiry: time_ms(86_400_000),
            }),
            _ => InstrumentKind::Option(OptionContract {
                contract_size: Decimal::new(100, 0),
                settlement_asset: usdt(),
                kind: OptionKind::Call,
                exercise: OptionExercise::European,
                expiry: time_ms(86_400_000),
                strike: Decimal::new(100, 0),
            }),
        };
        builder = builder.add_instrument(Instrument::new(
            EXCHANGES[*ex],
            format!("b{k}_usdt_x{ex}"),
            format!("B{k}USDT"),
            Underlying::new(format!("b{k}"), "usdt".to_string()),
            InstrumentQuoteAsset::UnderlyingQuote,
            kind,
            None,
        ));
    }
    let instruments = builder.build();
    // build_engine wires links by ExchangeIndex: translate from the exchange labels
    let by_index: Vec<Link> = instruments
        .exchanges()
        .iter()
        .map(|e| links[EXCHANGES.iter().position(|x| *x == e.value).unwrap()])
        .collect();
    build_engine(&instruments, &by_index, trading)
}

fn run() {
    run_cases(|case, lines| {
        let mut mode = Mode::Unset;
        let mut accs: Vec<Acc> = vec![];
        for op in case.ops.iter() {
            lines.push("@".into());
            if op[0] == "init" {
                match (op.get(1).map(|s| s.as_str()), op.get(2)) {
                    (Some("pm"), None) => {
                        mode = Mode::Pm(PositionManager::default());
                        accs = vec![Acc::default()];
                    }
                    (Some("engine"), Some(n)) if n.parse::<usize>().is_ok() => {
                        let n: usize = n.parse().unwrap();
                        let names: Vec<String> = (0..n).map(|k| format!("b{k}")).collect();
                        let defs: Vec<(usize, &str, &str)> =
                            names.iter().map(|b| (0usize, b.as_str(), "usdt")).collect();
                        let instruments = build_instruments(&defs);
                        mode = Mode::Engine(
                            Box::new(build_engine(&instruments, &[], TradingState::Disabled)),
                            n,
                        );
                        accs = vec![Acc::default(); n];
                    }
                    (Some("enginex"), _) => match parse_enginex(op) {
                        Some((trading, links, specs)) => {
                            let n = specs.len();
                            mode = Mode::Engine(Box::new(build_enginex(trading, links, &specs)), n);
                            accs = vec![Acc::default(); n];
                        }
                        None => lines.push("bad-op".into()),
                    },
                    _ => lines.push("bad-op".into()),
                }
                continue;
            }
            let Some(trade) = parse_trade(op) else {
                lines.push("bad-op".into());
                continue;
            };
            if trade.quantity.is_zero() {
                // outside the model: Decimal division by zero (DESIGN §7 C02 "not modelled")
                lines.push("bad-op".into());
                continue;
            }
            match &mut mode {
                Mode::Unset => lines.push("bad-op".into()),
                Mode::Pm(pm) => {
                    let prev = pm.current.clone();
                    let exit = pm.update_from_trade(&trade);
                    lines.push(fmt_exit(&exit));
                    lines.push(fmt_pos(&pm.current));
                    derived(&mut accs[0], &prev, &pm.current, &exit, &trade.id, lines);
                }
                Mode::Engine(built, n) => {
                    let k = trade.instrument.index();
                    let engine = &mut built.engine;
                    let prev = if k < *n {
                        engine
                            .state
                            .instruments
                            .instrument_index(&InstrumentIndex(k))
                            .position
                            .current
                            .clone()
                    } else {
                        None
                    };
                    let trade_id = trade.id.clone();
                    // the account event comes from the exchange the instrument lives on (always 0 for
                    // `init engine`; an unknown instrument keeps 0 and panics in the engine)
                    let exchange = if k < *n {
                        engine.state.instruments.instrument_index(&InstrumentIndex(k)).instrument.exchange
                    } else {
                        ExchangeIndex(0)
                    };
                    let event: Event = EngineEvent::Account(AccountStreamEvent::Item(AccountEvent {
                        exchange,
                        kind: AccountEventKind::Trade(trade),
                    }));
                    let audit = std::panic::catch_unwind(std::panic::AssertUnwindSafe(|| {
                        engine.process(event)
                    }));
                    let audit = match audit {
                        Ok(a) => a,
                        Err(_) => {
                            lines.push("panic".into());
                            continue;
                        }
                    };
                    let mut exits: Vec<Exit> = vec![];
                    let mut other_outputs = 0usize;
                    if let EngineAudit::Process(p) = &audit {
                        for o in p.outputs.iter() {
                            match o {
                                EngineOutput::PositionExit(e) => exits.push(e.clone()),
                                _ => other_outputs += 1,
                            }
                        }
                        if !p.errors.is_empty() {
                            lines.push("audit-errors".into());
                        }
                    } else {
                        lines.push("audit-feed-ended".into());
                    }
                    if exits.len() > 1 || other_outputs > 0 {
                        lines.push(format!("audit-unexpected {} {}", exits.len(), other_outputs));
                    }
                    let exit = exits.into_iter().next();
                    let cur = engine
                        .state
                        .instruments
                        .instrument_index(&InstrumentIndex(k))
                        .position
                        .current
                        .clone();
                    lines.push(fmt_exit(&exit));
                    lines.push(fmt_pos(&cur));
                    derived(&mut accs[k], &prev, &cur, &exit, &trade_id, lines);
                }
            }
        }
    });
}

// ------------------------------------------------------------------------------------ generator

/// quantities are mantissas at scale 4
const SCALE: u32 = 4;

struct Regime {
    qtys: &'static [i64],
    prices: &'static [(i64, u32)],
    fees: &'static [(i64, u32)],
}

const GRID: Regime = Regime {
    qtys: &[5_000, 10_000, 15_000, 20_000, 30_000],
    prices: &[(100, 0), (101, 0), (995, 1), (150, 0), (80, 0)],
    fees: &[(0, 0), (1, 1), (1, 0), (10, 0), (25, 1)],
};
const TINY: Regime = Regime {
    qtys: &[1, 2, 3, 7, 10],
    prices: &[(1, 4), (3, 4), (12, 3), (1, 0)],
    fees: &[(0, 0), (1, 4), (3, 4)],
};
// Huge magnitudes are split in two regimes so that price * quantity stays below ~1.5e8: rust_decimal
// keeps 28 significant digits, so larger products round at 1e-17..1e-16 absolute, which would exceed
// the 1e-18 tolerance of the comparison on differences of large values (rounding, not a defect).
const HUGE_Q: Regime = Regime {
    qtys: &[10_000_000_000, 5_000_000_000, 2_500_000_000, 10_000_000_001, 3_333_330_000],
    prices: &[(100, 0), (15, 1), (1, 4), (3, 0)],
    fees: &[(0, 0), (1000, 0), (123_456, 2), (1, 0)],
};
const HUGE_P: Regime = Regime {
    qtys: &[5_000, 10_000, 15_000, 1, 30_000],
    prices: &[(1_000_000, 0), (999_999, 0), (10_000_005, 1), (500_000, 0)],
    fees: &[(0, 0), (1000, 0), (123_456, 2), (1, 0)],
};

/// 8-decimal prices (crypto style), quantities that use all four decimals
const FINE: Regime = Regime {
    qtys: &[12_345, 1, 9_999, 10_001, 25_000, 33_333],
    prices: &[(12_345_678, 8), (99_999_999, 8), (100_000_001, 8), (6_543_210_987, 8), (1, 8)],
    fees: &[(0, 0), (1, 8), (12_345, 8), (25, 4)],
};

/// A decimal operand as text. `shapes` (oracle review C02-M2): now and then NOT normalised - the
/// full scale with its trailing zeros (`1.5000`), or two more (`1.500000`) - so that equal values
/// meet with different scales / mantissas (an exact close `B 1.50` / `S 1.5`).
fn operand(rng: &mut Rng, shapes: bool, m: i64, scale: u32) -> String {
    if shapes && rng.chance(40) {
        let mut d = Decimal::new(m, scale);
        if rng.chance(50) {
            d.rescale(scale + 2);
        }
        d.to_string()
    } else {
        dec_str(m, scale)
    }
}

/// Huge magnitudes that `rust_decimal` still computes EXACTLY (oracle review C02-M1): whole quantities of
/// 1e8 .. 4e9 units at prices around 1e6 (notional 1e14 .. 4e15, the old cap was 7e8), where every ratio
/// of quantities the code forms is a power of two - a position is increased only by doubling it (at most
/// three times per life), reduced by halving, closed exactly, flipped to its mirror (any fee: the
/// pro-rata share is one half) or flipped with an arbitrary remainder at zero fee - so the entry average,
/// the pro-rata fees and the unrealised estimate never round and the 1e-18 tolerance plays no role.
fn gen_case_exact_huge(rng: &mut Rng, out: &mut Out, id: String, tier: &str) {
    out.case(id);
    let engine = rng.chance(50);
    let n = if engine { rng.range(1, 3) as usize } else { 1 };
    if engine {
        out.line(format!("init engine {n}"));
    } else {
        out.line("init pm");
    }
    const QTYS: [i64; 4] = [100_000_000, 200_000_000, 500_000_000, 123_456_789];
    const PRICES: [(i64, u32); 6] =
        [(1_000_000, 0), (2_500_000, 0), (99_999_999, 2), (12_345_678, 1), (750_000, 0), (1_000_001, 0)];
    const FEES: [(i64, u32); 5] = [(0, 0), (1_000, 0), (123_456, 2), (5_000_000, 0), (1, 2)];
    let len = rng.range(1, if tier == "thorough" { 40 } else { 24 });
    // per slot: signed net (whole units), doublings of the current position
    let mut nets = vec![0i64; n];
    let mut doubled = vec![0u32; n];
    let mut time = 0i64;
    for k in 0..len {
        let slot = rng.below(n as u64) as usize;
        let net = nets[slot];
        let (pm, ps) = *rng.pick(&PRICES);
        let (mut fm, mut fs) = *rng.pick(&FEES);
        let (side_buy, qty) = if net == 0 {
            doubled[slot] = 0;
            (rng.chance(50), *rng.pick(&QTYS))
        } else {
            match rng.below(10) {
                0 | 1 | 2 => (net < 0, net.abs()), // exact close
                3 | 4 => {
                    doubled[slot] = 0;
                    (net < 0, net.abs() * 2) // mirror flip
                }
                5 => {
                    // flip with a remainder: the fee split is not a power of two, so no fee
                    fm = 0;
                    fs = 0;
                    doubled[slot] = 0;
                    (net < 0, net.abs() + *rng.pick(&QTYS))
                }
                6 | 7 if doubled[slot] < 3 => {
                    doubled[slot] += 1;
                    (net > 0, net.abs()) // double the position at another price
                }
                _ if net.abs() % 2 == 0 => (net < 0, net.abs() / 2), // halve it
                _ => (net < 0, net.abs()),
            }
        };
        if rng.chance(70) {
            time += rng.range(1, 5);
        }
        out.line(format!(
            "fill {} {slot} {time} {} {} {} {}",
            k + 1,
            if side_buy { "B" } else { "S" },
            dec_str(pm, ps),
            qty,
            dec_str(fm, fs),
        ));
        nets[slot] += if side_buy { qty } else { -qty };
    }
}

fn gen_case(rng: &mut Rng, out: &mut Out, id: String, tier: &str, shapes: bool) {
    out.case(id);
    let engine = rng.chance(50);
    let n = if engine { rng.range(1, 3) as usize } else { 1 };
    if engine {
        out.line(format!("init engine {n}"));
    } else {
        out.line("init pm");
    }
    let regime = match rng.below(10) {
        0 | 1 => &TINY,
        2 => &HUGE_Q,
        3 => &HUGE_P,
        _ => &GRID,
    };
    let regime = if shapes && rng.chance(50) { &FINE } else { regime };
    let mixed = rng.chance(10);
    // "wild" cases also carry inputs outside the property's quantifier (model/implementation
    // correspondence only: the spec driver stops talking about that instrument)
    let wild = rng.chance(12);
    let max_len = if tier == "thorough" { 60 } else { 30 };
    let len = rng.range(1, max_len);
    let close_pct = *rng.pick(&[15u64, 30, 45]);
    let mut nets = vec![0i64; n.max(1)];
    let mut time = 0i64;
    let mut next_id = 1u64;
    for _ in 0..len {
        let reg = if mixed {
            *rng.pick(&[&GRID, &TINY, &HUGE_Q])
        } else {
            regime
        };
        let mut instr = rng.below(n as u64) as usize;
        let slot = if engine { instr } else { 0 };
        let net = nets[slot];
        // side / quantity: biased to exact closes and flips of the current net position
        let (side_buy, mut qty) = if net != 0 && rng.chance(close_pct) {
            let q = match rng.below(6) {
                0 | 1 | 2 => net.abs(),                      // exact close
                3 => net.abs() * 2,                          // flip to the mirror position
                4 => net.abs() + *rng.pick(reg.qtys),        // flip with a grid remainder
                _ => (net.abs() / 2).max(1),                 // half reduce
            };
            (net < 0, q)
        } else {
            (rng.chance(50), *rng.pick(reg.qtys))
        };
        let (pm, ps) = *rng.pick(reg.prices);
        let (fm, fs) = *rng.pick(reg.fees);
        let mut fee = operand(rng, shapes, fm, fs);
        let mut apply = true;
        if wild && rng.chance(4) {
            qty = -qty; // the code takes |quantity|
        }
        if wild && rng.chance(4) && fm != 0 {
            fee = format!("-{fee}"); // rebate
        }
        if wild && !engine && rng.chance(6) {
            instr = 1; // instrument mismatch on a bare position manager
            apply = nets[0] == 0; // ignored when a position is open, opens one when flat
        }
        if wild && engine && rng.chance(4) {
            instr = n; // unknown instrument: the engine panics
            apply = false;
        }
        let id = if rng.chance(3) && next_id > 1 {
            next_id - 1 // duplicate trade id
        } else {
            next_id += 1;
            next_id - 1
        };
        if rng.chance(70) {
            time += rng.range(1, 5);
        }
        out.line(format!(
            "fill {id} {instr} {time} {} {} {} {fee}",
            if side_buy { "B" } else { "S" },
            operand(rng, shapes, pm, ps),
            operand(rng, shapes, qty, SCALE),
        ));
        if apply {
            nets[slot] += if side_buy { qty.abs() } else { -qty.abs() };
        }
    }
}

/// Input-domain family (own generator; the cases above stay what they were). Classes of the real API's
/// input domain that the families above never produce:
///   class 0  TIMES     exchange timestamps in any order: decreasing, negative, equal, days / decades apart
///                      (the families above only ever move time forward by 0..5 ms)
///   class 1  LOTS      quantities with 8 decimals (1e-8 lots; the families above stop at 1e-4), 8-decimal
///                      prices and fees, exact closes / mirror flips / remainders in that scale
///   class 2  REBATES   negative fees in a third of the fills, now and then a price of 0 or below (outside
///                      the property's quantifier: compared model-vs-code only, the spec stops talking)
///   class 3  LONG      one position built from 100..400 fills (increases and partial reductions), closed
///                      exactly, flipped, closed again (the families above stop at 30 / 60 fills per case)
fn gen_case_dom(rng: &mut Rng, out: &mut Out, id: String, tier: &str, class: u64) {
    out.case(id);
    let engine = rng.chance(50);
    let n = if engine { rng.range(1, 3) as usize } else { 1 };
    if engine {
        out.line(format!("init engine {n}"));
    } else {
        out.line("init pm");
    }
    // Through the Engine every closed position also feeds the tear sheet (pnl return = pnl / (entry price
    // x max quantity), then Welford's recurrence squares it): a 1e-16 notional with a fee of 0.5 gives a
    // return of 5e15 whose square overflows rust_decimal and the ENGINE panics in
    // statistic::algorithm::welford_online (Decimal overflow: not modelled, outside this property's
    // anchors; witness kept outside the corpus). 1e-8 prices and the 0.5 fee are therefore used on the
    // bare PositionManager only.
    const LOT_P_ENGINE: [(i64, u32); 4] = [(12_345_678, 8), (30_000, 0), (2_999_999, 2), (1, 0)];
    const LOT_F_ENGINE: [(i64, u32); 3] = [(0, 0), (1, 8), (12_345, 8)];
    const LOT_Q: [i64; 7] = [1, 2, 50, 12_345_678, 100_000_000, 99_999_999, 250_000_000];
    const LOT_P: [(i64, u32); 6] = [(1, 8), (12_345_678, 8), (30_000, 0), (6_543_210_987, 5), (2_999_999, 2), (1, 0)];
    const LOT_F: [(i64, u32); 4] = [(0, 0), (1, 8), (5, 1), (12_345, 8)];
    const GRID_Q8: [i64; 5] = [50_000_000, 100_000_000, 150_000_000, 200_000_000, 300_000_000];
    const FAR: [i64; 8] = [-86_400_000, -1_000, -1, 0, 1, 1_000, 86_400_000, 1_000_000_000_000];
    let (qtys, prices, fees): (&[i64], &[(i64, u32)], &[(i64, u32)]) = if class == 1 && engine {
        (&LOT_Q, &LOT_P_ENGINE, &LOT_F_ENGINE)
    } else if class == 1 {
        (&LOT_Q, &LOT_P, &LOT_F)
    } else {
        (&GRID_Q8, GRID.prices, GRID.fees)
    };
    let len = match class {
        3 => rng.range(100, if tier == "thorough" { 400 } else { 160 }),
        _ => rng.range(1, if tier == "thorough" { 60 } else { 30 }),
    };
    let close_pct = if class == 3 { 0 } else { *rng.pick(&[15u64, 30, 45]) };
    let mut nets = vec![0i64; n];
    let mut time = 0i64;
    let mut next_id = 1u64;
    let total = if class == 3 { len + 4 } else { len };
    for k in 0..total {
        let slot = if class == 3 { 0 } else { rng.below(n as u64) as usize };
        let net = nets[slot];
        let (side_buy, qty) = if class == 3 && k >= len {
            // tail of a long life: exact close, reopen, mirror flip, exact close
            match k - len {
                0 | 3 if net != 0 => (net < 0, net.abs()),
                2 if net != 0 => (net < 0, net.abs() * 2),
                _ => (rng.chance(50), *rng.pick(qtys)),
            }
        } else if class == 3 && net != 0 {
            // keep the position open: increase (60 %) or reduce by less than its size
            if rng.chance(60) || net.abs() <= 50_000_000 {
                (net > 0, *rng.pick(qtys))
            } else {
                (net < 0, *rng.pick(&[50_000_000, net.abs() / 2, net.abs() - 1]))
            }
        } else if net != 0 && rng.chance(close_pct) {
            let q = match rng.below(6) {
                0 | 1 | 2 => net.abs(),
                3 => net.abs() * 2,
                4 => net.abs() + *rng.pick(qtys),
                _ => (net.abs() / 2).max(1),
            };
            (net < 0, q)
        } else {
            (rng.chance(50), *rng.pick(qtys))
        };
        let (mut pm, ps) = *rng.pick(prices);
        let (fm, fs) = *rng.pick(fees);
        let mut fee = dec_str(fm, fs);
        if class == 2 {
            if rng.chance(33) && fm != 0 {
                fee = format!("-{fee}");
            }
            // bare manager only: through the Engine a position closed at an average entry price of 0
            // makes the tear sheet divide by zero (pnl return = pnl / (entry price x quantity); panic)
            if rng.chance(3) && !engine {
                pm = if rng.chance(50) { 0 } else { -pm };
            }
        }
        time = match class {
            0 => match rng.below(10) {
                0 | 1 => *rng.pick(&FAR),
                2 | 3 => time, // equal
                4 | 5 | 6 => time - rng.range(1, 5),
                _ => time + rng.range(1, 5),
            },
            _ => time + if rng.chance(70) { rng.range(1, 5) } else { 0 },
        };
        let id = if rng.chance(3) && next_id > 1 {
            next_id - 1
        } else {
            next_id += 1;
            next_id - 1
        };
        out.line(format!(
            "fill {id} {slot} {time} {} {} {} {fee}",
            if side_buy { "B" } else { "S" },
            dec_str(pm, ps),
            dec_str(qty, 8),
        ));
        nets[slot] += if side_buy { qty } else { -qty };
    }
}

/// Configuration-shape family (ids cfg*; own generator, everything above stays what it was): the engine is
/// assembled from 1..6 instruments spread over 1..3 exchanges whose labels are a random subset of {0,1,2}
/// (so exchange label != exchange index, and the order of addition != the exchange-first index order), of all
/// four instrument kinds (derivatives with contract sizes 10 / 0.1 / 100), trading Enabled or Disabled at
/// start, and every exchange's execution link present or absent (`None` slot: tracked but not traded). Fills
/// are in-domain grid fills biased to closes / flips, spread over the instruments (some never filled).
fn gen_case_cfg(rng: &mut Rng, out: &mut Out, id: String, tier: &str) {
    out.case(id);
    let labels: &[usize] = *rng.pick(&[&[0usize][..], &[1], &[2], &[0, 1], &[0, 2], &[1, 2], &[2, 0], &[0, 1, 2], &[2, 1, 0]]);
    let n = rng.range(labels.len() as i64, 6) as usize;
    let mut line = format!("init enginex {} ", if rng.chance(50) { "E" } else { "D" });
    for _ in 0..3 {
        line.push(if rng.chance(35) { 'M' } else { 'H' });
    }
    for k in 0..n {
        // every chosen exchange gets at least one instrument, in the order of `labels`; the rest land anywhere
        let ex = if k < labels.len() { labels[k] } else { *rng.pick(labels) };
        line.push_str(&format!(" {ex}{}", *rng.pick(&['s', 's', 'p', 'f', 'o'])));
    }
    out.line(line);
    let reg = if rng.chance(20) { &TINY } else { &GRID };
    let len = rng.range(1, if tier == "thorough" { 60 } else { 30 });
    let close_pct = *rng.pick(&[15u64, 30, 45]);
    // now and then one instrument is never filled (tracked, silent)
    let silent = if n > 1 && rng.chance(40) { Some(rng.below(n as u64) as usize) } else { None };
    let mut nets = vec![0i64; n];
    let mut time = 0i64;
    for k in 0..len {
        let mut slot = rng.below(n as u64) as usize;
        if Some(slot) == silent {
            slot = (slot + 1) % n;
        }
        let net = nets[slot];
        let (side_buy, qty) = if net != 0 && rng.chance(close_pct) {
            let q = match rng.below(6) {
                0 | 1 | 2 => net.abs(),
                3 => net.abs() * 2,
                4 => net.abs() + *rng.pick(reg.qtys),
                _ => (net.abs() / 2).max(1),
            };
            (net < 0, q)
        } else {
            (rng.chance(50), *rng.pick(reg.qtys))
        };
        let (pm, ps) = *rng.pick(reg.prices);
        let (fm, fs) = *rng.pick(reg.fees);
        if rng.chance(70) {
            time += rng.range(1, 5);
        }
        out.line(format!(
            "fill {} {slot} {time} {} {} {} {}",
            k + 1,
            if side_buy { "B" } else { "S" },
            dec_str(pm, ps),
            dec_str(qty, SCALE),
            dec_str(fm, fs),
        ));
        nets[slot] += if side_buy { qty } else { -qty };
    }
}

fn generate(seed: u64, n_cases: usize, tier: &str) {
    let mut out = Out::new();
    let mut rng = Rng::new(seed);
    let mut id = 0usize;
    if tier == "thorough" {
        // exhaustive: every fill sequence of length <= 4 over side x qty{1,2,3} x (price,fee){(100,1),(150,0)}
        let mut syms: Vec<String> = vec![];
        for side in ["B", "S"] {
            for q in [1, 2, 3] {
                for (p, f) in [(100, 1), (150, 0)] {
                    syms.push(format!("{side} {p} {q} {f}"));
                }
            }
        }
        for len in 1..=4usize {
            let total = syms.len().pow(len as u32);
            for mut code in 0..total {
                id += 1;
                out.case(format!("x{id}"));
                out.line(if id % 2 == 0 { "init pm" } else { "init engine 1" });
                for k in 0..len {
                    out.line(format!("fill {} 0 {} {}", k + 1, k * 10, syms[code % syms.len()]));
                    code /= syms.len();
                }
            }
        }
    }
    for _ in 0..n_cases {
        id += 1;
        gen_case(&mut rng, &mut out, format!("r{id}"), tier, false);
    }
    // on top of the cases above (which are generated exactly as before): decimal shapes and exact huge
    // magnitudes (oracle review C02-M2 / C02-M1), from a generator of their own
    let mut extra = Rng::new(seed ^ 0x5EED_C02);
    for _ in 0..n_cases / 8 {
        id += 1;
        gen_case(&mut extra, &mut out, format!("s{id}"), tier, true);
    }
    for _ in 0..n_cases / 8 {
        id += 1;
        gen_case_exact_huge(&mut extra, &mut out, format!("h{id}"), tier);
    }
    // input-domain family (see gen_case_dom), again from a generator of its own
    let mut dom = Rng::new(seed ^ 0xD0_C02);
    let n_dom = n_cases / 5 + 3;
    let n_long = if tier == "thorough" { 40 } else { 3 };
    for k in 0..n_dom {
        id += 1;
        gen_case_dom(&mut dom, &mut out, format!("d{id}"), tier, (k % 3) as u64);
    }
    for _ in 0..n_long {
        id += 1;
        gen_case_dom(&mut dom, &mut out, format!("l{id}"), tier, 3);
    }
    // configuration-shape family (see gen_case_cfg), again from a generator of its own
    let mut cfg = Rng::new(seed ^ 0xCF6_C02);
    for _ in 0..n_cases / 6 + 4 {
        id += 1;
        gen_case_cfg(&mut cfg, &mut out, format!("cfg{id}"), tier);
    }
    out.flush();
}

fn main() {
    let a = args();
    match a.cmd.as_str() {
        "gen" => generate(a.seed, a.n, &a.tier),
        "run" => run(),
        _ => {
            eprintln!("usage: c02 gen <seed> <n> <tier> | run < cases");
            std::process::exit(2)
        }
    }
}
