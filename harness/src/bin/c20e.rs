//! C20E — the end-to-end trading loop: engine, execution manager and simulated exchange composed
//! (sub-check of C20; live-style run, paused tokio clock).
//!
//! One case = one real `System` (real `SystemBuilder::build` for engine / engine state / feed mode /
//! trading state, real `SystemBuild::init`: feed channel, forwarders, engine runner) whose execution
//! side is the real `ExecutionBuilder` with the real `MockExecution` client (`add_live`), the real
//! `ExecutionManager` and a real `MockExchange::run` task. The harness creates the request / event
//! channels of the mock exchange itself (the three statements of `ExecutionBuilder::add_mock` that
//! create them are private to it) so that it can keep a SECOND real `MockExecution` client on the very
//! same exchange: that client is how the exchange's own ledger and trade log are observed
//! (`fetch_balances`, `fetch_trades`).
//!
//! Ops
//!   `sys <iter|stream> <on|off> <k> <quote> <base> <fee> <latency>`
//!   `mkt i:p[:S:q] ...`  market trades (`:S:q`: the strategy answers with a market order, cid 7000+id)
//!   `call open o:0:<ins>:<cid>:<B|S>:<price>:<qty>..` | `call cancel c:0:<ins>:<cid>..`
//!        | `call close <filter>` | `call cancel_orders <filter>` | `call trading on|off`
//!   `settle` | `sleep <ms>`  (advance the paused clock by ms,) await quiescence by tokio yields only,
//!        OBSERVE: the engine's view (the recorded feed replayed through a fresh real engine; the
//!        final block checks that replay against the engine `shutdown()` hands back) and the
//!        exchange's view (queries sent now through the second client); then `advance(latency)` (the
//!        answers to the queries need it), await quiescence again, print both views and whether
//!        they agree
//!   `shutdown` | `abort`     await quiescence, observe as above, then `System::shutdown` / `abort`
//!        WITHOUT letting time pass: responses still inside the exchange's latency sleep are lost
use barter::{
    EngineEvent,
    engine::{
        Engine, EngineOutput, Processor,
        audit::EngineAudit,
        clock::EngineClock,
        command::Command,
        execution_tx::MultiExchangeTxMap,
        state::{
            EngineState,
            global::DefaultGlobalData,
            instrument::{data::DefaultInstrumentMarketData, filter::InstrumentFilter},
            trading::TradingState,
        },
    },
    execution::{AccountStreamEvent, builder::ExecutionBuilder, request::ExecutionRequest},
    risk::DefaultRiskManager,
    strategy::{
        algo::AlgoStrategy,
        close_positions::{ClosePositionsStrategy, close_open_positions_with_market_orders},
        on_disconnect::OnDisconnectStrategy,
        on_trading_disabled::OnTradingDisabled,
    },
    system::{
        System,
        builder::{EngineFeedMode, SystemArgs, SystemBuilder},
    },
};
use barter_data::{
    event::{DataKind, MarketEvent},
    streams::consumer::MarketStreamEvent,
    subscription::trade::PublicTrade,
};
use barter_execution::{
    AccountEventKind, UnindexedAccountEvent, UnindexedAccountSnapshot,
    balance::{AssetBalance, Balance},
    client::{
        ExecutionClient,
        mock::{MockExecution, MockExecutionClientConfig, MockExecutionConfig},
    },
    exchange::mock::{MockExchange, request::MockExchangeRequest},
    order::{
        OrderEvent, OrderKey, OrderKind, TimeInForce,
        id::{ClientOrderId, OrderId, StrategyId},
        request::{OrderRequestCancel, OrderRequestOpen, RequestCancel, RequestOpen},
        state::{ActiveOrderState, InactiveOrderState, Open, OrderState},
    },
    trade::Trade,
};
use barter_instrument::{
    Side, Underlying,
    asset::{AssetIndex, QuoteAsset, name::AssetNameExchange},
    exchange::{ExchangeId, ExchangeIndex},
    index::IndexedInstruments,
    instrument::{
        Instrument, InstrumentIndex, kind::InstrumentKind, name::InstrumentNameExchange,
        quote::InstrumentQuoteAsset,
    },
};
use barter_integration::{
    channel::{Channel, Tx, mpsc_unbounded},
    collection::one_or_many::OneOrMany,
};
use chrono::{DateTime, Utc};
use fnv::FnvHashMap;
use futures::FutureExt;
use rust_decimal::Decimal;
use std::{
    panic::AssertUnwindSafe,
    sync::{
        Arc, Mutex,
        atomic::{AtomicI64, AtomicUsize, Ordering},
    },
};
use tokio::sync::{broadcast, mpsc};
use vh::{engine_util::time_ms, *};

/// `MockExecution::EXCHANGE`: `add_live::<MockExecution<_>>` links the client to the instruments of
/// exactly this exchange id.
const EX: ExchangeId = ExchangeId::Mock;

type GData = DefaultGlobalData;
type IData = DefaultInstrumentMarketData;
type State = EngineState<GData, IData>;
type Ev = EngineEvent<DataKind>;
type Risk = DefaultRiskManager<State>;
type Eng = Engine<RecClock, State, MultiExchangeTxMap, SysStrategy, Risk>;
type Audit = EngineAudit<Ev, EngineOutput<(), ()>>;

// ------------------------------------------------------------------ recording clock (as in c20s)

#[derive(Debug, Default)]
struct Shared {
    log: Vec<Ev>,
}

/// `EngineClock` whose `process` records the event and whose `time` is a strictly increasing counter.
/// The engine owns the original; the execution client and the observer's client get clones.
#[derive(Debug)]
struct RecClock {
    shared: Arc<Mutex<Shared>>,
    ticks: Arc<AtomicI64>,
    original: bool,
    original_time_calls: Arc<AtomicUsize>,
}

impl Clone for RecClock {
    fn clone(&self) -> Self {
        Self {
            shared: Arc::clone(&self.shared),
            ticks: Arc::clone(&self.ticks),
            original: false,
            original_time_calls: Arc::clone(&self.original_time_calls),
        }
    }
}

impl RecClock {
    fn new() -> Self {
        Self {
            shared: Arc::new(Mutex::new(Shared::default())),
            ticks: Arc::new(AtomicI64::new(0)),
            original: true,
            original_time_calls: Arc::new(AtomicUsize::new(0)),
        }
    }
}

impl EngineClock for RecClock {
    fn time(&self) -> DateTime<Utc> {
        let t = time_ms(1_000_000 + self.ticks.fetch_add(1, Ordering::SeqCst));
        if self.original {
            self.original_time_calls.fetch_add(1, Ordering::SeqCst);
        }
        t
    }
}

impl<'a> Processor<&'a Ev> for RecClock {
    type Audit = ();
    fn process(&mut self, event: &'a Ev) {
        self.shared.lock().unwrap().log.push(event.clone());
    }
}

// ------------------------------------------------------------------ strategy (as in c20s)

fn reaction(trade_id: &str) -> (u64, Option<(Side, Decimal)>) {
    let p: Vec<&str> = trade_id.split(':').collect();
    let id: u64 = p[0].parse().expect("trade id");
    if p.len() == 3 {
        (id, Some((parse_side(p[1]), parse_dec(p[2]))))
    } else {
        (id, None)
    }
}

#[derive(Debug)]
struct SysStrategy {
    id: StrategyId,
    shared: Arc<Mutex<Shared>>,
    answered: Mutex<usize>,
    disabled_calls: usize,
    disconnects: usize,
}

impl SysStrategy {
    fn new(shared: Arc<Mutex<Shared>>) -> Self {
        Self {
            id: StrategyId::new("verif"),
            shared,
            answered: Mutex::new(0),
            disabled_calls: 0,
            disconnects: 0,
        }
    }
}

impl AlgoStrategy for SysStrategy {
    type State = State;
    fn generate_algo_orders(
        &self,
        state: &Self::State,
    ) -> (
        impl IntoIterator<Item = OrderRequestCancel<ExchangeIndex, InstrumentIndex>>,
        impl IntoIterator<Item = OrderRequestOpen<ExchangeIndex, InstrumentIndex>>,
    ) {
        let shared = self.shared.lock().unwrap();
        let mut answered = self.answered.lock().unwrap();
        let trades: Vec<&MarketEvent<InstrumentIndex, DataKind>> = shared
            .log
            .iter()
            .filter_map(|e| match e {
                EngineEvent::Market(MarketStreamEvent::Item(m)) => Some(m),
                _ => None,
            })
            .collect();
        let mut opens = Vec::new();
        for m in trades.iter().skip(*answered) {
            let DataKind::Trade(t) = &m.kind else { continue };
            let (id, react) = reaction(&t.id);
            if let Some((side, qty)) = react {
                let exchange = state.instruments.instrument_index(&m.instrument).instrument.exchange;
                opens.push(OrderRequestOpen {
                    key: OrderKey {
                        exchange,
                        instrument: m.instrument,
                        strategy: self.id.clone(),
                        cid: ClientOrderId::new(format!("{}", 7000 + id)),
                    },
                    state: RequestOpen {
                        side,
                        price: Decimal::try_from(t.price).unwrap(),
                        quantity: qty,
                        kind: OrderKind::Market,
                        time_in_force: TimeInForce::ImmediateOrCancel,
                    },
                });
            }
        }
        *answered = trades.len();
        (std::iter::empty(), opens)
    }
}

impl ClosePositionsStrategy for SysStrategy {
    type State = State;
    fn close_positions_requests<'a>(
        &'a self,
        state: &'a Self::State,
        filter: &'a InstrumentFilter<ExchangeIndex, AssetIndex, InstrumentIndex>,
    ) -> (
        impl IntoIterator<Item = OrderRequestCancel<ExchangeIndex, InstrumentIndex>> + 'a,
        impl IntoIterator<Item = OrderRequestOpen<ExchangeIndex, InstrumentIndex>> + 'a,
    )
    where
        ExchangeIndex: 'a,
        AssetIndex: 'a,
        InstrumentIndex: 'a,
    {
        close_open_positions_with_market_orders(&self.id, state, filter, |state| {
            ClientOrderId::new(format!("{}", 9000 + state.key.index()))
        })
    }
}

impl<Clock, Txs, R> OnDisconnectStrategy<Clock, State, Txs, R> for SysStrategy {
    type OnDisconnect = ();
    fn on_disconnect(engine: &mut Engine<Clock, State, Txs, Self, R>, _: ExchangeId) {
        engine.strategy.disconnects += 1;
    }
}

impl<Clock, Txs, R> OnTradingDisabled<Clock, State, Txs, R> for SysStrategy {
    type OnTradingDisabled = ();
    fn on_trading_disabled(engine: &mut Engine<Clock, State, Txs, Self, R>) {
        engine.strategy.disabled_calls += 1;
    }
}

// ------------------------------------------------------------------ set-up

#[derive(Debug, Clone)]
struct Cfg {
    feed: String,
    trading: String,
    k: usize,
    quote: Decimal,
    base: Decimal,
    fee: Decimal,
    latency_ms: u64,
    /// configuration shape (9th token of `sys` = 1): the engine also TRACKS an exchange that is not traded
    /// (`ExchangeId::Simulated`, sorts BEFORE `Mock`: the mocked exchange is ExchangeIndex(1), its instruments and
    /// assets come after the other one's), with one instrument whose exchange name (`I0`) and asset names
    /// (`b0`, `q`) are those of the mocked exchange's first instrument. No op names it.
    /// 9th token = 2: the same, but the tracked exchange is `ExchangeId::BinanceSpot`, which sorts AFTER `Mock`
    /// (indices of the mocked exchange unchanged; the same-named assets / instrument come LAST in the tables).
    tracked: u8,
}

fn ex_tracked(cfg: &Cfg) -> ExchangeId {
    if cfg.tracked == 2 { ExchangeId::BinanceSpot } else { ExchangeId::Simulated }
}

fn instruments(cfg: &Cfg) -> IndexedInstruments {
    let mut b = IndexedInstruments::builder();
    for j in 0..cfg.k {
        b = b.add_instrument(Instrument::spot(
            EX,
            format!("i{j}"),
            format!("I{j}"),
            Underlying::new(format!("b{j}"), "q".to_string()),
            None,
        ));
    }
    if cfg.tracked != 0 {
        b = b.add_instrument(Instrument::spot(
            ex_tracked(cfg),
            "u0".to_string(),
            "I0".to_string(),
            Underlying::new("b0".to_string(), "q".to_string()),
            None,
        ));
    }
    b.build()
}

/// What `generate_mock_exchange_instruments` (private, builder.rs:389-493; sub-check C04M) derives for
/// these instruments: exchange name -> the instrument with its assets by exchange name.
fn mock_instruments(
    cfg: &Cfg,
) -> FnvHashMap<InstrumentNameExchange, Instrument<ExchangeId, AssetNameExchange>> {
    (0..cfg.k)
        .map(|j| {
            let name = InstrumentNameExchange::new(format!("I{j}"));
            (
                name.clone(),
                Instrument {
                    exchange: EX,
                    name_internal: format!("i{j}").into(),
                    name_exchange: name,
                    underlying: Underlying {
                        base: AssetNameExchange::new(format!("b{j}")),
                        quote: AssetNameExchange::new("q"),
                    },
                    quote: InstrumentQuoteAsset::UnderlyingQuote,
                    kind: InstrumentKind::Spot,
                    spec: None,
                },
            )
        })
        .collect()
}

/// label <-> index translation (labels are what op lines and observations use): instrument label
/// `j` = the instrument named `i<j>`, asset label `j < k` = `b<j>`, asset label `k` = `q`
#[derive(Debug, Clone)]
struct Labels {
    ins_idx: Vec<usize>,
    /// AssetIndex per asset label
    asset_idx: Vec<usize>,
    /// asset label per AssetIndex
    asset_label: Vec<usize>,
    /// ExchangeIndex of the mocked exchange
    ex: usize,
}

fn asset_name(k: usize, label: usize) -> String {
    if label == k { "q".into() } else { format!("b{label}") }
}

impl Labels {
    fn new(ii: &IndexedInstruments, cfg: &Cfg) -> Self {
        let ins_idx = (0..cfg.k)
            .map(|l| {
                ii.instruments()
                    .iter()
                    .position(|i| i.value.name_internal.name().as_str() == format!("i{l}"))
                    .unwrap()
            })
            .collect();
        let asset_idx: Vec<usize> = (0..=cfg.k)
            .map(|l| {
                ii.assets()
                    .iter()
                    .position(|a| a.value.exchange == EX && a.value.asset.name_exchange.as_ref() == asset_name(cfg.k, l))
                    .unwrap()
            })
            .collect();
        let mut asset_label = vec![0; ii.assets().len()];
        for (l, i) in asset_idx.iter().enumerate() {
            asset_label[*i] = l;
        }
        let ex = ii.exchanges().iter().position(|e| e.value == EX).unwrap();
        Self { ins_idx, asset_idx, asset_label, ex }
    }
    /// exchange label: 0 = the mocked exchange
    fn ex_label(&self, idx: usize) -> usize {
        if idx == self.ex { 0 } else { 1 + idx }
    }
    fn ins_label(&self, idx: usize) -> usize {
        self.ins_idx.iter().position(|x| *x == idx).unwrap_or(idx)
    }
    fn asset_text(&self, k: usize, idx: usize) -> String {
        asset_name(k, self.asset_label[idx])
    }
}

fn parse_side(s: &str) -> Side {
    match s {
        "B" => Side::Buy,
        "S" => Side::Sell,
        o => panic!("bad side {o}"),
    }
}

fn fmt_side(s: Side) -> &'static str {
    if s == Side::Buy { "B" } else { "S" }
}

fn key(l: &Labels, ins: usize, cid: &str) -> OrderKey<ExchangeIndex, InstrumentIndex> {
    OrderKey {
        exchange: ExchangeIndex(l.ex),
        instrument: InstrumentIndex(l.ins_idx[ins]),
        strategy: StrategyId::new("verif"),
        cid: ClientOrderId::new(cid),
    }
}

/// `c:0:<ins>:<cid>[:<order id>]` / `o:0:<ins>:<cid>:<B|S>:<price>:<qty>` (labels)
fn parse_reqs(
    l: &Labels,
    toks: &[String],
) -> (
    Vec<OrderRequestCancel<ExchangeIndex, InstrumentIndex>>,
    Vec<OrderRequestOpen<ExchangeIndex, InstrumentIndex>>,
) {
    let mut cs = vec![];
    let mut os = vec![];
    for t in toks {
        let f: Vec<&str> = t.split(':').collect();
        assert_eq!(f[1], "0", "one exchange");
        let ins: usize = f[2].parse().unwrap();
        match f[0] {
            "c" => cs.push(OrderEvent {
                key: key(l, ins, f[3]),
                state: RequestCancel { id: f.get(4).map(OrderId::new) },
            }),
            "o" => os.push(OrderEvent {
                key: key(l, ins, f[3]),
                state: RequestOpen {
                    side: parse_side(f[4]),
                    price: parse_dec(f[5]),
                    quantity: parse_dec(f[6]),
                    kind: OrderKind::Market,
                    time_in_force: TimeInForce::ImmediateOrCancel,
                },
            }),
            other => panic!("bad request {other}"),
        }
    }
    (cs, os)
}

fn parse_filter(l: &Labels, s: &str) -> InstrumentFilter {
    if s == "none" {
        return InstrumentFilter::None;
    }
    let (kind, list) = s.split_once(':').unwrap();
    match kind {
        "ex" => InstrumentFilter::Exchanges(OneOrMany::from_iter(
            list.split(',').map(|x| {
                assert_eq!(x, "0", "one exchange");
                ExchangeIndex(l.ex)
            }),
        )),
        "ins" => InstrumentFilter::Instruments(OneOrMany::from_iter(
            list.split(',').map(|x| InstrumentIndex(l.ins_idx[x.parse::<usize>().unwrap()])),
        )),
        other => panic!("bad filter {other}"),
    }
}

fn fmt_cancel(l: &Labels, r: &OrderRequestCancel<ExchangeIndex, InstrumentIndex>) -> String {
    format!(
        "c:{}:{}:{}{}",
        l.ex_label(r.key.exchange.0),
        l.ins_label(r.key.instrument.0),
        canon_cid(l, &r.key.cid.0),
        r.state.id.as_ref().map(|id| format!(":{}", id.0)).unwrap_or_default()
    )
}

fn fmt_open_req(l: &Labels, r: &OrderRequestOpen<ExchangeIndex, InstrumentIndex>) -> String {
    format!(
        "o:{}:{}:{}:{}:{}:{}",
        l.ex_label(r.key.exchange.0),
        l.ins_label(r.key.instrument.0),
        canon_cid(l, &r.key.cid.0),
        fmt_side(r.state.side),
        fmt_dec(r.state.price),
        fmt_dec(r.state.quantity)
    )
}

/// the close-position id generator yields `9000 + InstrumentIndex`: print `9000 + label`
fn canon_cid(l: &Labels, cid: &str) -> String {
    match cid.parse::<usize>() {
        Ok(n) if (9000..9100).contains(&n) => format!("{}", 9000 + l.ins_label(n - 9000)),
        _ => cid.to_string(),
    }
}

fn fmt_filter(l: &Labels, f: &InstrumentFilter) -> String {
    match f {
        InstrumentFilter::None => "none".into(),
        InstrumentFilter::Exchanges(x) => {
            format!("ex:{}", x.iter().map(|e| l.ex_label(e.0).to_string()).collect::<Vec<_>>().join(","))
        }
        InstrumentFilter::Instruments(x) => format!(
            "ins:{}",
            x.iter().map(|e| l.ins_label(e.0).to_string()).collect::<Vec<_>>().join(",")
        ),
        InstrumentFilter::Underlyings(_) => "und".into(),
    }
}

/// canonical tag of one processed event; first letter = source (H handle, M market, A account)
fn tag(l: &Labels, k: usize, e: &Ev) -> String {
    match e {
        EngineEvent::Shutdown(_) => "H:shutdown".into(),
        EngineEvent::TradingStateUpdate(t) => {
            format!("H:trading:{}", if *t == TradingState::Enabled { "on" } else { "off" })
        }
        EngineEvent::Command(c) => match c {
            Command::SendCancelRequests(r) => {
                format!("H:cancel:{}", r.iter().map(|r| fmt_cancel(l, r)).collect::<Vec<_>>().join("+"))
            }
            Command::SendOpenRequests(r) => {
                format!("H:open:{}", r.iter().map(|r| fmt_open_req(l, r)).collect::<Vec<_>>().join("+"))
            }
            Command::ClosePositions(f) => format!("H:close:{}", fmt_filter(l, f)),
            Command::CancelOrders(f) => format!("H:cancel_orders:{}", fmt_filter(l, f)),
        },
        EngineEvent::Market(MarketStreamEvent::Reconnecting(_)) => "M:re".into(),
        EngineEvent::Market(MarketStreamEvent::Item(m)) => match &m.kind {
            DataKind::Trade(t) => format!("M:{}", reaction(&t.id).0),
            _ => "M:?".into(),
        },
        EngineEvent::Account(AccountStreamEvent::Reconnecting(_)) => "A:re".into(),
        EngineEvent::Account(AccountStreamEvent::Item(a)) => match &a.kind {
            AccountEventKind::Snapshot(s) => {
                let mut b: Vec<String> = s
                    .balances
                    .iter()
                    .map(|b| format!("{}={}", l.asset_text(k, b.asset.0), fmt_dec(b.balance.total)))
                    .collect();
                b.sort();
                format!(
                    "A:snap:{}:orders={}",
                    b.join(","),
                    s.instruments.iter().map(|i| i.orders.len()).sum::<usize>()
                )
            }
            AccountEventKind::BalanceSnapshot(b) => {
                format!("A:bal:{}={}", l.asset_text(k, b.0.asset.0), fmt_dec(b.0.balance.total))
            }
            AccountEventKind::OrderSnapshot(o) => format!(
                "A:ord:{}:{}",
                canon_cid(l, &o.0.key.cid.0),
                match &o.0.state {
                    OrderState::Active(ActiveOrderState::Open(_)) => "open",
                    OrderState::Active(_) => "active",
                    OrderState::Inactive(InactiveOrderState::FullyFilled) => "filled",
                    OrderState::Inactive(InactiveOrderState::OpenFailed(_)) => "rejected",
                    OrderState::Inactive(_) => "inactive",
                }
            ),
            AccountEventKind::OrderCancelled(c) => format!(
                "A:cancel:{}:{}",
                canon_cid(l, &c.key.cid.0),
                if c.state.is_ok() { "ok" } else { "err" }
            ),
            AccountEventKind::Trade(t) => format!(
                "A:trade:{}:{}:{}@{}:{}",
                l.ins_label(t.instrument.0),
                fmt_side(t.side),
                fmt_dec(t.quantity),
                fmt_dec(t.price),
                fmt_dec(t.fees.fees)
            ),
        },
    }
}

fn fmt_open(o: &Open) -> String {
    format!("({},{})", o.id.0, fmt_dec(o.filled_quantity))
}

fn fmt_active(s: &ActiveOrderState) -> String {
    match s {
        ActiveOrderState::OpenInFlight(_) => "F".into(),
        ActiveOrderState::Open(o) => format!("O{}", fmt_open(o)),
        ActiveOrderState::CancelInFlight(c) => match &c.order {
            None => "C(-)".into(),
            Some(o) => format!("C{}", fmt_open(o)),
        },
    }
}

/// signed open quantity per instrument label, (total, free) per asset label
#[derive(Debug, Clone, PartialEq)]
struct EngineView {
    net: Vec<Decimal>,
    bal: Vec<Option<(Decimal, Decimal)>>,
}

fn engine_view(l: &Labels, state: &State) -> EngineView {
    let net = l
        .ins_idx
        .iter()
        .map(|idx| {
            match &state.instruments.instrument_index(&InstrumentIndex(*idx)).position.current {
                None => Decimal::ZERO,
                Some(p) => {
                    if p.side == Side::Buy { p.quantity_abs } else { -p.quantity_abs }
                }
            }
        })
        .collect();
    let bal = l
        .asset_idx
        .iter()
        .map(|idx| {
            state
                .assets
                .asset_index(&AssetIndex(*idx))
                .balance
                .as_ref()
                .map(|b| (b.value.total, b.value.free))
        })
        .collect();
    EngineView { net, bal }
}

/// orders / position / price per instrument label, balance per asset label, trading state
fn observe_state(l: &Labels, state: &State, pfx: &str) -> Vec<String> {
    use barter::engine::state::instrument::data::InstrumentDataState;
    let mut lines = vec![];
    for (label, idx) in l.ins_idx.iter().enumerate() {
        let ins = state.instruments.instrument_index(&InstrumentIndex(*idx));
        let mut v: Vec<(u64, String)> = ins
            .orders
            .0
            .iter()
            .map(|(cid, o)| {
                let c = canon_cid(l, &cid.0);
                (c.parse().unwrap_or(u64::MAX), format!("{c}:{}", fmt_active(&o.state)))
            })
            .collect();
        v.sort();
        lines.push(format!("{pfx}ord{label} {}", v.into_iter().map(|x| x.1).collect::<Vec<_>>().join(" ")));
        lines.push(match &ins.position.current {
            None => format!("{pfx}pos{label} none"),
            Some(p) => format!(
                "{pfx}pos{label} {} {} {} {} {} {} {} {}",
                fmt_side(p.side),
                fmt_dec(p.quantity_abs),
                fmt_dec_approx(p.price_entry_average),
                fmt_dec_approx(p.pnl_realised),
                fmt_dec_approx(p.fees_enter.fees),
                fmt_dec_approx(p.fees_exit.fees),
                fmt_dec(p.quantity_abs_max),
                p.trades.len()
            ),
        });
        lines.push(match &ins.position.current {
            None => format!("{pfx}sum{label} none"),
            Some(p) => format!("{pfx}sum{label} {}:{}", fmt_side(p.side), fmt_dec(p.quantity_abs)),
        });
        lines.push(match ins.data.price() {
            None => format!("{pfx}price{label} none"),
            Some(p) => format!("{pfx}price{label} {}", fmt_dec(p)),
        });
    }
    let view = engine_view(l, state);
    for (a, b) in view.bal.iter().enumerate() {
        lines.push(match b {
            None => format!("{pfx}ebal{a} none"),
            Some((t, f)) => format!("{pfx}ebal{a} {} {}", fmt_dec(*t), fmt_dec(*f)),
        });
    }
    lines.push(format!(
        "{pfx}trading {}",
        if state.trading == TradingState::Enabled { "on" } else { "off" }
    ));
    lines
}

fn key_lines(pfx_n: &str, pfx_b: &str, v: &EngineView) -> Vec<String> {
    let mut lines = vec![];
    for (i, n) in v.net.iter().enumerate() {
        lines.push(format!("{pfx_n}{i} {}", fmt_dec(*n)));
    }
    for (a, b) in v.bal.iter().enumerate() {
        lines.push(match b {
            None => format!("{pfx_b}{a} none"),
            Some((t, f)) => format!("{pfx_b}{a} {} {}", fmt_dec(*t), fmt_dec(*f)),
        });
    }
    lines
}

// ------------------------------------------------------------------ the exchange's own view

/// The observer's client, type-erased (its clock is a closure).
trait Query: Send + Sync {
    /// Sends `fetch_balances` and `fetch_trades` through a clone of the client and returns the task
    /// that will hold the answers.
    fn spawn_query(&self, k: usize) -> tokio::task::JoinHandle<ExchView>;
}

impl<F> Query for MockExecution<F>
where
    F: Fn() -> DateTime<Utc> + Clone + Send + Sync + 'static,
{
    fn spawn_query(&self, k: usize) -> tokio::task::JoinHandle<ExchView> {
        let client = self.clone();
        tokio::spawn(async move {
            // both requests are sent before either answer is awaited
            let (balances, trades) = tokio::join!(client.fetch_balances(), client.fetch_trades(time_ms(0)));
            drop(client);
            let balances = balances.expect("fetch_balances");
            let trades = trades.expect("fetch_trades");
            let bal = (0..=k)
                .map(|a| {
                    balances
                        .iter()
                        .find(|b| b.asset.as_ref() == asset_name(k, a))
                        .map(|b| (b.balance.total, b.balance.free))
                })
                .collect();
            ExchView { bal, trades }
        })
    }
}

type QueryClient = Box<dyn Query>;

/// What the exchange answers to `fetch_balances` / `fetch_trades` (by asset / instrument label).
#[derive(Debug, Clone)]
struct ExchView {
    bal: Vec<Option<(Decimal, Decimal)>>,
    trades: Vec<Trade<QuoteAsset, InstrumentNameExchange>>,
}

fn exch_lines(k: usize, v: &ExchView) -> Vec<String> {
    let mut lines = vec![];
    for (a, b) in v.bal.iter().enumerate() {
        lines.push(match b {
            None => format!("xbal{a} none"),
            Some((t, f)) => format!("xbal{a} {} {}", fmt_dec(*t), fmt_dec(*f)),
        });
    }
    let _ = k;
    lines.push(format!(
        "xtrades {}",
        v.trades
            .iter()
            .map(|t| format!(
                "{}:{}:{}:{}@{}:{}",
                t.id.0,
                &t.instrument.name().as_str()[1..],
                fmt_side(t.side),
                fmt_dec(t.quantity),
                fmt_dec(t.price),
                fmt_dec(t.fees.fees)
            ))
            .collect::<Vec<_>>()
            .join(" ")
    ));
    lines
}

/// the spec predicate of the correspondence: both views tell the same story
fn agree(k: usize, e: &EngineView, x: &ExchView) -> bool {
    let nets_ok = (0..k).all(|i| {
        let net: Decimal = x
            .trades
            .iter()
            .filter(|t| t.instrument.name().as_str() == format!("I{i}"))
            .map(|t| if t.side == Side::Buy { t.quantity } else { -t.quantity })
            .sum();
        e.net[i] == net
    });
    let bals_ok = (0..=k).all(|a| e.bal[a] == x.bal[a]);
    nets_ok && bals_ok
}

// ------------------------------------------------------------------ the running system

struct Running {
    system: Option<System<Eng, Ev>>,
    labels: Labels,
    cfg: Cfg,
    instruments: IndexedInstruments,
    shared: Arc<Mutex<Shared>>,
    market_tx: mpsc::UnboundedSender<MarketStreamEvent<InstrumentIndex, DataKind>>,
    relayed: Arc<AtomicUsize>,
    engine_time_calls: Arc<AtomicUsize>,
    time_calls_before_loop: usize,
    handle_sent: usize,
    mkt_pushed: usize,
    mkt_count: u64,
    printed: usize,
    iterator: bool,
    /// the observer's own real client on the same exchange (dropped before a graceful shutdown)
    query: Option<QueryClient>,
}

fn mock_config(cfg: &Cfg) -> MockExecutionConfig {
    let mut balances = vec![];
    for j in 0..cfg.k {
        balances.push(AssetBalance {
            asset: AssetNameExchange::new(format!("b{j}")),
            balance: Balance::new(cfg.base, cfg.base),
            time_exchange: time_ms(0),
        });
    }
    balances.push(AssetBalance {
        asset: AssetNameExchange::new("q"),
        balance: Balance::new(cfg.quote, cfg.quote),
        time_exchange: time_ms(0),
    });
    MockExecutionConfig {
        mocked_exchange: EX,
        initial_state: UnindexedAccountSnapshot { exchange: EX, balances, instruments: vec![] },
        latency_ms: cfg.latency_ms,
        fees_percent: cfg.fee,
    }
}

async fn build(cfg: Cfg, lines: &mut Vec<String>) -> Running {
    let ii = instruments(&cfg);
    let labels = Labels::new(&ii, &cfg);
    let clock = RecClock::new();
    let exec_clock = clock.clone();
    let query_clock = clock.clone();
    let shared = Arc::clone(&clock.shared);
    let engine_time_calls = Arc::clone(&clock.original_time_calls);
    let (market_tx, market_rx) = mpsc::unbounded_channel();
    let market_stream = tokio_stream::wrappers::UnboundedReceiverStream::new(market_rx);
    // the real SystemBuilder: engine state, engine, feed mode, trading state (no execution config: the
    // execution side is attached below)
    let args = SystemArgs::new(
        &ii,
        vec![],
        clock,
        SysStrategy::new(Arc::clone(&shared)),
        Risk::default(),
        market_stream,
        GData::default(),
        IData::default,
    );
    let mut builder = SystemBuilder::new(args);
    builder = match cfg.feed.as_str() {
        "iter" => builder.engine_feed_mode(EngineFeedMode::Iterator),
        "stream" => builder.engine_feed_mode(EngineFeedMode::Stream),
        other => panic!("bad feed {other}"),
    };
    builder = match cfg.trading.as_str() {
        "on" => builder.trading_state(TradingState::Enabled),
        "off" => builder.trading_state(TradingState::Disabled),
        other => panic!("bad trading {other}"),
    };
    let mut sys_build = builder.build::<Ev, IData>().expect("SystemBuilder::build");
    lines.push(format!(
        "built feed={} trading={}",
        if sys_build.engine_feed_mode == EngineFeedMode::Iterator { "iter" } else { "stream" },
        if sys_build.engine.state.trading == TradingState::Enabled { "on" } else { "off" },
    ));
    let iterator = sys_build.engine_feed_mode == EngineFeedMode::Iterator;
    let time_calls_before_loop = 2;
    assert_eq!(engine_time_calls.load(Ordering::SeqCst), 2, "clock calls of SystemBuilder::build");

    // the execution side: the channels `add_mock` creates (builder.rs:99-100), the real client through
    // the real `ExecutionBuilder::add_live` (= `add_execution`: instrument map, request channel,
    // `ExecutionManager::init` future, account-stream forwarder), the real `MockExchange`
    let (request_tx, request_rx) = mpsc::unbounded_channel::<MockExchangeRequest>();
    let (event_tx, event_rx) = broadcast::channel::<UnindexedAccountEvent>(256);
    let query: QueryClient = Box::new(<MockExecution<_> as ExecutionClient>::new(MockExecutionClientConfig {
        mocked_exchange: EX,
        clock: move || query_clock.time(),
        request_tx: request_tx.clone(),
        event_rx: event_rx.resubscribe(),
    }));
    let client_config = MockExecutionClientConfig {
        mocked_exchange: EX,
        clock: move || exec_clock.time(),
        request_tx,
        event_rx,
    };
    let exchange = MockExchange::new(mock_config(&cfg), request_rx, event_tx, mock_instruments(&cfg));
    let mut execution = ExecutionBuilder::new(&ii)
        .add_live::<MockExecution<_>>(client_config, std::time::Duration::from_secs(1))
        .expect("ExecutionBuilder::add_live")
        .build();
    execution.futures.mock_exchange_run_futures.push(Box::pin(exchange.run()));
    sys_build.engine.execution_txs = execution.execution_tx_map;
    sys_build.execution_build_futures = execution.futures;

    // tap the account channel: execution components -> [counting relay] -> system's account forwarder
    let relayed = Arc::new(AtomicUsize::new(0));
    let (tx2, rx2) = mpsc_unbounded::<AccountStreamEvent>();
    let Channel { tx: _orig_tx, rx: mut orig_rx } = execution.account_channel;
    sys_build.account_channel = Channel { tx: tx2.clone(), rx: rx2 };
    let counter = Arc::clone(&relayed);
    tokio::spawn(async move {
        while let Some(event) = orig_rx.rx.recv().await {
            counter.fetch_add(1, Ordering::SeqCst);
            if tx2.send(event).is_err() {
                break;
            }
        }
    });
    let system = sys_build.init().await.expect("SystemBuild::init");
    Running {
        system: Some(system),
        labels,
        cfg,
        instruments: ii,
        shared,
        market_tx,
        relayed,
        engine_time_calls,
        time_calls_before_loop,
        handle_sent: 0,
        mkt_pushed: 0,
        mkt_count: 0,
        printed: 0,
        iterator,
        query: Some(query),
    }
}

impl Running {
    fn log_len(&self) -> usize {
        self.shared.lock().unwrap().log.len()
    }

    /// events processed COMPLETELY (their audit has been built)
    fn done(&self) -> usize {
        self.engine_time_calls.load(Ordering::SeqCst).saturating_sub(self.time_calls_before_loop)
    }

    fn engine_finished(&self) -> bool {
        self.system.as_ref().map(|s| s.engine.is_finished()).unwrap_or(true)
    }

    /// Quiescence: everything put on the feed has been processed, and `K` further scheduler rounds
    /// produce nothing new. Virtual time never moves (yields only).
    async fn settle(&self) {
        const K: usize = 48;
        let mut rounds = 0usize;
        loop {
            for _ in 0..K {
                tokio::task::yield_now().await;
            }
            let sent = self.handle_sent + self.mkt_pushed + self.relayed.load(Ordering::SeqCst);
            let processed = self.done();
            if processed >= sent || self.engine_finished() {
                for _ in 0..K {
                    tokio::task::yield_now().await;
                }
                let sent2 = self.handle_sent + self.mkt_pushed + self.relayed.load(Ordering::SeqCst);
                if sent2 == sent && self.done() == processed && self.log_len() == processed {
                    return;
                }
                // the engine task has ended in the MIDDLE of an event (the event was handed to the
                // clock, its audit was never built): it panicked - e.g. the 0/0 of the position
                // arithmetic outside the input guard PosOps (Lean `TradingLoop.tickPanics`). Nothing
                // after this is observable: the case ends with `panic`, like every panic of the code
                // under test
                if self.engine_finished() && self.log_len() > self.done() && self.done() == processed {
                    panic!("engine task panicked");
                }
            } else if self.iterator {
                std::thread::sleep(std::time::Duration::from_micros(50));
            }
            rounds += 1;
            assert!(rounds < 400_000, "settle: no quiescence");
        }
    }

    /// tags of the events processed since the last observation: handle events in order, market
    /// events in order, account events sorted (their relative order is the scheduler's)
    fn new_events(&mut self, lines: &mut Vec<String>) {
        let shared = self.shared.lock().unwrap();
        let tags: Vec<String> =
            shared.log[self.printed..].iter().map(|e| tag(&self.labels, self.cfg.k, e)).collect();
        self.printed = shared.log.len();
        drop(shared);
        let pick = |p: &str| tags.iter().filter(|t| t.starts_with(p)).cloned().collect::<Vec<_>>();
        let mut a = pick("A:");
        a.sort();
        lines.push(format!("h {}", pick("H:").join(" ")));
        lines.push(format!("m {}", pick("M:").join(" ")));
        lines.push(format!("a {}", a.join(" ")));
    }

    /// Replays the recorded feed synchronously through a fresh real `Engine` built the way the
    /// builder builds it and returns it.
    fn replay(&self) -> Eng {
        let clock = RecClock::new();
        let shared = Arc::clone(&clock.shared);
        let trading = match self.cfg.trading.as_str() {
            "on" => TradingState::Enabled,
            _ => TradingState::Disabled,
        };
        let state: State = EngineState::builder(&self.instruments, GData::default(), IData::default)
            .time_engine_start(clock.time())
            .trading_state(trading)
            .build();
        let mut rxs = vec![];
        let txs: MultiExchangeTxMap = self
            .instruments
            .exchanges()
            .iter()
            .map(|e| {
                let (tx, rx) = mpsc_unbounded::<ExecutionRequest>();
                rxs.push(rx);
                (e.value, Some(tx))
            })
            .collect();
        let mut engine: Eng = Engine::new(clock, state, txs, SysStrategy::new(shared), Risk::default());
        let log: Vec<Ev> = self.shared.lock().unwrap().log.clone();
        for e in log {
            let _ = barter::engine::process_with_audit(&mut engine, e);
        }
        drop(rxs);
        engine
    }

    /// Sends `fetch_balances` and `fetch_trades` through the observer's client NOW (the exchange
    /// computes its answers when it receives the requests) and returns the task that will hold the
    /// answers once `latency` ms have passed.
    async fn query_exchange(&self) -> tokio::task::JoinHandle<ExchView> {
        let handle = self.query.as_ref().expect("query client").spawn_query(self.cfg.k);
        // let the query task send and the exchange task receive
        for _ in 0..16 {
            tokio::task::yield_now().await;
        }
        handle
    }

    /// first half of an observation: await quiescence, print the new events, take the engine's view
    /// (replay) and send the exchange queries
    async fn observe(
        &mut self,
        lines: &mut Vec<String>,
    ) -> (Vec<String>, EngineView, tokio::task::JoinHandle<ExchView>) {
        self.settle().await;
        self.new_events(lines);
        let replayed = self.replay();
        let eview = engine_view(&self.labels, &replayed.state);
        let eng_lines = observe_state(&self.labels, &replayed.state, "");
        let pending = self.query_exchange().await;
        (eng_lines, eview, pending)
    }

    /// identity (kind, instrument, client order id) of every RESPONSE event (order snapshot answering
    /// an open request, order-cancelled answering a cancel request) the engine had processed at the
    /// last observation, as a sorted multiset: what "one response per request, at most once" is about
    fn resp_line(&self) -> String {
        let shared = self.shared.lock().unwrap();
        let mut ids: Vec<String> = shared.log[..self.printed.min(shared.log.len())]
            .iter()
            .filter_map(|e| match e {
                EngineEvent::Account(AccountStreamEvent::Item(a)) => match &a.kind {
                    AccountEventKind::OrderSnapshot(o) => Some(format!(
                        "open:{}:{}",
                        self.labels.ins_label(o.0.key.instrument.0),
                        canon_cid(&self.labels, &o.0.key.cid.0)
                    )),
                    AccountEventKind::OrderCancelled(c) => Some(format!(
                        "cancel:{}:{}",
                        self.labels.ins_label(c.key.instrument.0),
                        canon_cid(&self.labels, &c.key.cid.0)
                    )),
                    _ => None,
                },
                _ => None,
            })
            .collect();
        ids.sort();
        format!("resp {}", ids.join(" "))
    }

    /// second half: both views, the constrained keys, and whether the views agree
    fn view_lines(&self, eng_lines: Vec<String>, eview: &EngineView, xview: &ExchView, lines: &mut Vec<String>) {
        lines.push(self.resp_line());
        lines.extend(eng_lines);
        lines.extend(exch_lines(self.cfg.k, xview));
        lines.extend(key_lines("hnet", "hbal", eview));
        lines.extend(key_lines("net", "led", eview));
        lines.push(format!("agree {}", agree(self.cfg.k, eview, xview) as u8));
    }

    /// observations of the engine handed back by shutdown / abort
    fn final_block(&mut self, how: &str, engine: &Eng, audit: &Audit, xview: &ExchView, lines: &mut Vec<String>) {
        lines.push(format!("res {how}"));
        self.new_events(lines);
        lines.push(format!(
            "shutdown_audit {}",
            match audit {
                EngineAudit::FeedEnded => "feed_ended".to_string(),
                EngineAudit::Process(p) => format!(
                    "{}{}",
                    tag(&self.labels, self.cfg.k, &p.event),
                    if p.errors.is_empty() { "" } else { "!fatal" }
                ),
            }
        ));
        lines.push(format!("processed {}", self.log_len()));
        let obs = observe_state(&self.labels, &engine.state, "f");
        lines.extend(obs.iter().cloned());
        let eview = engine_view(&self.labels, &engine.state);
        lines.extend(key_lines("fhnet", "fhbal", &eview));
        lines.push(format!("fagree {}", agree(self.cfg.k, &eview, xview) as u8));
        // the returned engine is a fresh engine fed exactly the recorded feed
        let replayed = self.replay();
        let robs = observe_state(&self.labels, &replayed.state, "f");
        // the replay starts at sequence 0 (no audit snapshot): one sequence number per processed event
        let own = robs == obs
            && replayed.meta.sequence.0 == engine.meta.sequence.0
            && replayed.strategy.disabled_calls == engine.strategy.disabled_calls;
        lines.push(format!("own {}", own as u8));
        if !own {
            lines.push(format!("# own differs: replay {robs:?} seq {}", replayed.meta.sequence.0));
        }
    }
}

fn run_case(case: &Case, lines: &mut Vec<String>) {
    let rt = tokio::runtime::Builder::new_current_thread()
        .enable_all()
        .start_paused(true)
        .build()
        .unwrap();
    rt.block_on(async {
        let mut run: Option<Running> = None;
        for op in case.ops.iter() {
            lines.push("@".into());
            match op[0].as_str() {
                "sys" => {
                    let cfg = Cfg {
                        feed: op[1].clone(),
                        trading: op[2].clone(),
                        k: op[3].parse().unwrap(),
                        quote: parse_dec(&op[4]),
                        base: parse_dec(&op[5]),
                        fee: parse_dec(&op[6]),
                        latency_ms: op[7].parse().unwrap(),
                        tracked: if op.len() == 9 { op[8].parse().unwrap_or(9) } else { 0 },
                    };
                    if op.len() > 9 || (op.len() == 9 && !["0", "1", "2"].contains(&op[8].as_str())) {
                        lines.push("bad-op".into());
                        continue;
                    }
                    run = Some(build(cfg, lines).await);
                }
                _ => {
                    let r = run.as_mut().expect("sys first");
                    if r.system.is_none() {
                        lines.push("nosys".into());
                        continue;
                    }
                    match op[0].as_str() {
                        "mkt" => {
                            for t in &op[1..] {
                                let f: Vec<&str> = t.splitn(3, ':').collect();
                                let i: usize = f[0].parse().unwrap();
                                let id = r.mkt_count;
                                r.mkt_count += 1;
                                let trade_id = match f.get(2) {
                                    Some(react) => format!("{id}:{react}"),
                                    None => format!("{id}"),
                                };
                                let ev = MarketStreamEvent::Item(MarketEvent {
                                    time_exchange: time_ms(id as i64 + 1),
                                    time_received: time_ms(id as i64 + 1),
                                    exchange: EX,
                                    instrument: InstrumentIndex(r.labels.ins_idx[i]),
                                    kind: DataKind::Trade(PublicTrade {
                                        id: trade_id,
                                        price: f[1].parse::<f64>().unwrap(),
                                        amount: 1.0,
                                        side: Side::Buy,
                                    }),
                                });
                                if r.market_tx.send(ev).is_ok() {
                                    r.mkt_pushed += 1;
                                }
                            }
                            lines.push(format!("pushed {}", op.len() - 1));
                        }
                        "call" => {
                            let sys = r.system.as_ref().unwrap();
                            let l = &r.labels;
                            let res = std::panic::catch_unwind(AssertUnwindSafe(|| match op[1].as_str() {
                                "open" => sys.send_open_requests(OneOrMany::from_iter(parse_reqs(l, &op[2..]).1)),
                                "cancel" => sys.send_cancel_requests(OneOrMany::from_iter(parse_reqs(l, &op[2..]).0)),
                                "close" => sys.close_positions(parse_filter(l, &op[2])),
                                "cancel_orders" => sys.cancel_orders(parse_filter(l, &op[2])),
                                "trading" => sys.trading_state(if op[2] == "on" {
                                    TradingState::Enabled
                                } else {
                                    TradingState::Disabled
                                }),
                                other => panic!("bad call {other}"),
                            }));
                            match res {
                                Ok(()) => {
                                    r.handle_sent += 1;
                                    lines.push("sent".into());
                                }
                                Err(_) => lines.push("panic".into()),
                            }
                        }
                        "settle" | "sleep" => {
                            if op[0] == "sleep" {
                                let ms: u64 = op[1].parse().unwrap();
                                tokio::time::advance(std::time::Duration::from_millis(ms)).await;
                            }
                            let (eng_lines, eview, pending) = r.observe(lines).await;
                            lines.push(format!("alive {}", !r.engine_finished() as u8));
                            // the answers to the observer's queries take `latency` ms
                            tokio::time::advance(std::time::Duration::from_millis(r.cfg.latency_ms)).await;
                            r.settle().await;
                            let xview = pending.await.expect("query task");
                            r.view_lines(eng_lines, &eview, &xview, lines);
                        }
                        "shutdown" | "abort" => {
                            let (eng_lines, eview, pending) = r.observe(lines).await;
                            // the observer's client must not keep the exchange task alive
                            r.query = None;
                            let system = r.system.take().unwrap();
                            let how = op[0].clone();
                            let fut = async move {
                                match how.as_str() {
                                    "shutdown" => system.shutdown().await,
                                    _ => system.abort().await,
                                }
                            };
                            match AssertUnwindSafe(fut).catch_unwind().await {
                                Err(_) => lines.push("panic".into()),
                                Ok(Err(e)) => lines.push(format!("res joinerr {}", e.is_panic() as u8)),
                                Ok(Ok((engine, audit))) => {
                                    r.handle_sent += 1;
                                    // now let the exchange's answers to the queries arrive
                                    tokio::time::advance(std::time::Duration::from_millis(r.cfg.latency_ms)).await;
                                    let xview = pending.await.expect("query task");
                                    r.view_lines(eng_lines, &eview, &xview, lines);
                                    let how = op[0].clone();
                                    r.final_block(&how, &engine, &audit, &xview, lines);
                                }
                            }
                        }
                        other => panic!("bad op {other}"),
                    }
                }
            }
        }
    });
    rt.shutdown_background();
}

fn run() {
    run_cases(run_case);
}

/// `dom` = the input-domain family (own PRNG stream, cases `d<n>`): NEGATIVE fees (maker rebates: `fees_percent` is a
/// signed Decimal), fees of 0.5 % / 100 %, zero / fractional / exact-fit balances (quote 100 = 1 @ 100 without fees, quote
/// 101 = 1 @ 100 at 1 %, quote 99 = 1 @ 100 at -1 %, base 1 / 0.5 = one sell), prices and quantities with many digits and of
/// extreme but exact magnitude (1e-8, 1e-4, 1e12; every product stays within 28 digits), latencies 1 ms / 500 ms (below the 1 s request timeout), up to three open requests and two cancel requests per
/// call, cancel requests that carry an exchange order id
fn gen_case(out: &mut Out, rng: &mut Rng, id: &str, thorough: bool, dom: bool, shape: bool) {
    out.case(id);
    let k = rng.range(1, 3) as usize;
    let quote = if dom { *rng.pick(&["0", "99", "100", "101", "250.5", "1000", "2000000000000"]) } else { *rng.pick(&["300", "1000", "100000"]) };
    let base = if dom { *rng.pick(&["0", "0.5", "1", "2", "20"]) } else { *rng.pick(&["2", "10"]) };
    let feed = *rng.pick(&["iter", "stream", "stream", "stream"]);
    let trading = *rng.pick(&["on", "on", "off"]);
    let fee = if dom { *rng.pick(&["-0.01", "-0.01", "-0.1", "-0.5", "0.005", "0.01", "1", "0"]) } else { *rng.pick(&["0", "0", "0.01", "0.1"]) };
    let latency = if dom { *rng.pick(&[0u64, 1, 50, 500]) } else { *rng.pick(&[0u64, 0, 50, 50, 200]) };
    let open_prices: &[&str] = if dom { &["50", "100", "100", "0.5", "99.99", "0.0001", "1000000000000"] } else { &["50", "100"] };
    let open_qtys: &[&str] = if dom { &["1", "1", "2", "0.5", "20", "3", "0.00000001", "0.125"] } else { &["1", "1", "2", "0.5", "20"] };
    let mkt_prices: &[&str] = if dom { &["50", "100", "101", "0.5", "99.99", "1000000000000"] } else { &["50", "100", "101"] };
    let mkt_qtys: &[&str] = if dom { &["1", "2", "0.5", "20", "0.00000001"] } else { &["1", "2", "0.5", "20"] };
    // the configuration-shape family (cases `cfg<n>`, own PRNG stream): a tracked-but-not-traded exchange in front
    if shape {
        out.line(format!("sys {feed} {trading} {k} {quote} {base} {fee} {latency} {}", if rng.chance(65) { 1 } else { 2 }));
    } else {
        out.line(format!("sys {feed} {trading} {k} {quote} {base} {fee} {latency}"));
    }
    let cid_pool = [1u64, 2, 3, 4, 5, 6];
    let mut next_cid = 10u64;
    // (instrument, cid) of the open requests generated so far: cancel requests mostly name one of them
    let recent: std::cell::RefCell<Vec<(u64, u64)>> = std::cell::RefCell::new(vec![]);
    let gen_filter = |rng: &mut Rng| -> String {
        match rng.below(6) {
            0 | 1 | 2 => "none".into(),
            3 => "ex:0".into(),
            4 => format!("ins:{}", rng.below(k as u64)),
            _ => if k >= 2 { "ins:0,1".into() } else { "ins:0".into() },
        }
    };
    let mut gen_open = |rng: &mut Rng| -> String {
        let i = rng.below(k as u64);
        // mostly fresh client order ids, sometimes one from a small pool (re-use)
        let cid = if rng.chance(75) { next_cid += 1; next_cid } else { *rng.pick(&cid_pool) };
        let side = if rng.chance(55) { "B" } else { "S" };
        let price = *rng.pick(open_prices);
        let qty = *rng.pick(open_qtys);
        recent.borrow_mut().push((i, cid));
        format!("o:0:{i}:{cid}:{side}:{price}:{qty}")
    };
    let gen_cancel = |rng: &mut Rng| -> String {
        let r = recent.borrow();
        // dom: a third of the cancel requests carry an exchange order id (`RequestCancel::id = Some(..)`)
        let oid = if dom && rng.chance(33) { format!(":{}", rng.range(1, 3)) } else { String::new() };
        if !r.is_empty() && rng.chance(70) {
            let (i, cid) = r[r.len() - 1 - (rng.below(r.len().min(3) as u64) as usize)];
            format!("c:0:{i}:{cid}{oid}")
        } else {
            let i = rng.below(k as u64);
            let cid = *rng.pick(&cid_pool);
            format!("c:0:{i}:{cid}{oid}")
        }
    };
    // 45 % of the cases stay inside the class the ops-level specification determines (no
    // close_positions / cancel_orders command: their requests depend on what the engine has heard),
    // so that the independent oracle keys are stated for every block of the case (review B C20E-1)
    let det_case = rng.chance(45);
    let segments = rng.range(1, if thorough { 8 } else { 5 });
    for _ in 0..segments {
        let n_ops = rng.range(0, 3);
        for _ in 0..n_ops {
            let mut pick = rng.below(12);
            if det_case && (pick == 8 || pick == 9) {
                pick = if pick == 8 { 3 } else { 7 };
            }
            match pick {
                0 | 1 | 2 => {
                    let n = rng.range(1, 3);
                    let mut line = String::from("mkt");
                    for _ in 0..n {
                        let i = rng.below(k as u64) as usize;
                        let price = *rng.pick(mkt_prices);
                        if rng.chance(55) {
                            let side = if rng.chance(55) { "B" } else { "S" };
                            let qty = *rng.pick(mkt_qtys);
                            line.push_str(&format!(" {i}:{price}:{side}:{qty}"));
                        } else {
                            line.push_str(&format!(" {i}:{price}"));
                        }
                    }
                    out.line(line);
                }
                3 | 4 | 5 | 6 => {
                    let mut line = format!("call open {}", gen_open(rng));
                    if rng.chance(35) {
                        line.push_str(&format!(" {}", gen_open(rng)));
                        if dom && rng.chance(40) {
                            line.push_str(&format!(" {}", gen_open(rng)));
                        }
                    }
                    out.line(line);
                }
                7 if dom && rng.chance(35) => out.line(format!("call cancel {} {}", gen_cancel(rng), gen_cancel(rng))),
                7 => out.line(format!("call cancel {}", gen_cancel(rng))),
                8 => out.line(format!("call close {}", gen_filter(rng))),
                9 => out.line(format!("call cancel_orders {}", gen_filter(rng))),
                _ => out.line(format!("call trading {}", if rng.chance(50) { "on" } else { "off" })),
            }
        }
        match rng.below(10) {
            0..=3 => out.line("settle"),
            4..=5 => {
                // two observations in a row: the second one sees the answers to the first segment
                out.line("settle");
                out.line("settle");
            }
            6..=8 => out.line(format!("sleep {}", *rng.pick(&[10u64, 50, 50, 100, 250]))),
            _ => {}
        }
    }
    if rng.chance(50) {
        out.line("settle");
    }
    if rng.chance(40) {
        // something sent right before the handle is given up: with a latency the answers are still
        // inside the exchange when `Shutdown` is processed (C20 finding F11)
        if rng.chance(70) {
            out.line(format!("call open {}", gen_open(rng)));
        } else {
            out.line(format!("mkt {}:100:B:1", rng.below(k as u64)));
        }
    }
    if !rng.chance(4) {
        out.line(if rng.chance(55) { "shutdown" } else { "abort" });
    }
}

fn generate(seed: u64, n_cases: usize, tier: &str) {
    let mut out = Out::new();
    let mut rng = Rng::new(seed);
    let thorough = tier == "thorough";
    let mut id = 0usize;
    if thorough {
        // small scope, exhaustively: every op sequence of length <= 3 over 8 symbols, for two latencies
        // and with / without fees, closed by shutdown / abort
        let syms = [
            "mkt 0:100:B:1",
            "call trading on",
            "call open o:0:0:1:B:100:1",
            "call open o:0:0:2:S:100:1",
            "call open o:0:0:3:B:100:20",
            "call close none",
            "settle",
            "sleep 50",
        ];
        for (lat, fee) in [(0u64, "0"), (50, "0.01")] {
            for len in 0..=3usize {
                let total = syms.len().pow(len as u32);
                for mut code in 0..total {
                    id += 1;
                    out.case(format!("x{id}"));
                    out.line(format!("sys stream off 1 1000 10 {fee} {lat}"));
                    for _ in 0..len {
                        out.line(syms[code % syms.len()]);
                        code /= syms.len();
                    }
                    out.line(if id % 2 == 0 { "shutdown" } else { "abort" });
                }
            }
        }
    }
    for c in 0..n_cases {
        gen_case(&mut out, &mut rng, &format!("r{}", c + 1), thorough, false, false);
    }
    // the input-domain family (own PRNG stream, so the cases above stay as they are): one case per 8 random ones
    let mut drng = Rng::new(seed ^ 0x444f_4d45);
    for c in 0..n_cases / 8 {
        gen_case(&mut out, &mut drng, &format!("d{}", c + 1), thorough, true, false);
    }
    // the configuration-shape family (own PRNG stream): one case per 8 random ones
    let mut crng = Rng::new(seed ^ 0x4346_4745);
    for c in 0..n_cases / 8 {
        gen_case(&mut out, &mut crng, &format!("cfg{}", c + 1), thorough, false, true);
    }
    out.flush();
}

fn main() {
    let a = args();
    match a.cmd.as_str() {
        "gen" => generate(a.seed, a.n, &a.tier),
        "run" => run(),
        _ => {
            eprintln!("usage: c20e gen <seed> <n> <tier> | run < cases");
            std::process::exit(2)
        }
    }
}
