//! C20S — the `System` handle and the `SystemBuilder` wiring (live-style run, paused tokio clock).
//!
//! One case = one real `System` built by the real `SystemBuilder` (`build` + `init`) over a mock
//! exchange (exchange label 0 = BinanceSpot, with an `ExecutionConfig::Mock`; optional exchange
//! label 1 = Coinbase WITHOUT an execution configuration, i.e. a `None` entry in the engine's
//! `MultiExchangeTxMap`), a never-ending market stream owned by the harness, and a script of handle
//! calls on a current-thread tokio runtime with a paused clock.
//!
//! Ops
//!   `sys <feed> <audit> <trading> <k> <x2> <quote> <base> <latency>`
//!        feed = iter|stream|dflt, audit = on|off|dflt, trading = on|off|dflt (dflt: the builder
//!        method is not called), k instruments on exchange 0 (instrument j: base asset b<j>, quote
//!        asset q), x2 = 0|1 adds instrument k on exchange 1, initial exchange balances, latency of
//!        the mock exchange in ms of (virtual) tokio time
//!   `mkt i:p[:S:q] ...`  push market trades into the market stream (id = running count; a trade
//!        with `:S:q` makes the strategy answer with a market order side S quantity q at price p,
//!        client order id 7000+id, the first time it is consulted after the trade was processed)
//!   `mktre`              push a `MarketStreamEvent::Reconnecting(exchange 0)`
//!   `call open <req>..` | `call cancel <req>..` | `call close <filter>` | `call cancel_orders <filter>`
//!        | `call trading on|off`      the `System` methods of the same names
//!   `settle`             await (tokio yields only; virtual time does not move) until everything sent
//!        so far has been processed and every reaction that is due has come back
//!   `sleep <ms>`         `tokio::time::advance(ms)` (the paused clock moves), then `settle`
//!   `take_audit`         `System::take_audit`
//!   `shutdown` | `abort` | `join`     `System::shutdown` / `System::abort` / awaiting the public
//!        `engine` join handle directly (only generated once the engine has stopped by itself)
//!
//! The engine's clock is a recording `EngineClock` (`Engine::process` hands it every event first),
//! so the harness sees exactly which events reached `Engine::process`, in which order; the `time()`
//! call that `Auditor::audit` makes after `Engine::process` has returned tells it that an event has
//! been processed completely.
//! The account channel of the `SystemBuild` is tapped by a counting relay (one extra FIFO hop
//! between the execution components and the system's own account forwarder): the count is what
//! makes quiescence detectable when the engine runs on its own blocking thread.
use barter::{
    EngineEvent,
    engine::{
        Engine, EngineOutput, Processor,
        audit::{AuditTick, EngineAudit, state_replica::StateReplicaManager},
        clock::EngineClock,
        command::Command,
        execution_tx::MultiExchangeTxMap,
        state::{
            EngineState,
            global::DefaultGlobalData,
            instrument::{data::DefaultInstrumentMarketData, filter::InstrumentFilter},
            trading::TradingState,
        },
    },
    execution::{AccountStreamEvent, request::ExecutionRequest},
    risk::DefaultRiskManager,
    strategy::{
        algo::AlgoStrategy,
        close_positions::{ClosePositionsStrategy, close_open_positions_with_market_orders},
        on_disconnect::OnDisconnectStrategy,
        on_trading_disabled::OnTradingDisabled,
    },
    system::{
        System,
        builder::{AuditMode, EngineFeedMode, SystemArgs, SystemBuilder},
        config::ExecutionConfig,
    },
};
use barter_data::{
    event::{DataKind, MarketEvent},
    streams::consumer::MarketStreamEvent,
    subscription::trade::PublicTrade,
};
use barter_execution::{
    AccountEventKind, UnindexedAccountSnapshot,
    balance::{AssetBalance, Balance},
    client::mock::MockExecutionConfig,
    order::{
        OrderEvent, OrderKey, OrderKind, TimeInForce,
        id::{ClientOrderId, OrderId, StrategyId},
        request::{OrderRequestCancel, OrderRequestOpen, RequestCancel, RequestOpen},
        state::{ActiveOrderState, InactiveOrderState, Open, OrderState},
    },
};
use barter_instrument::{
    Side, Underlying,
    asset::{AssetIndex, name::AssetNameExchange},
    exchange::{ExchangeId, ExchangeIndex},
    index::IndexedInstruments,
    instrument::{Instrument, InstrumentIndex},
};
use barter_integration::{
    Terminal,
    channel::{Channel, Tx, UnboundedRx, mpsc_unbounded},
    collection::one_or_many::OneOrMany,
    snapshot::SnapUpdates,
};
use chrono::{DateTime, Utc};
use futures::FutureExt;
use rust_decimal::Decimal;
use std::{
    panic::AssertUnwindSafe,
    sync::{
        Arc, Mutex,
        atomic::{AtomicI64, AtomicUsize, Ordering},
    },
};
use vh::{engine_util::time_ms, *};

const EX: [ExchangeId; 2] = [ExchangeId::BinanceSpot, ExchangeId::Coinbase];

type GData = DefaultGlobalData;
type IData = DefaultInstrumentMarketData;
type State = EngineState<GData, IData>;
type Ev = EngineEvent<DataKind>;
type Risk = DefaultRiskManager<State>;
type Eng = Engine<RecClock, State, MultiExchangeTxMap, SysStrategy, Risk>;
type Audit = EngineAudit<Ev, EngineOutput<(), ()>>;
type Tick = AuditTick<Audit>;
type AuditFeed = SnapUpdates<AuditTick<State>, UnboundedRx<Tick>>;

// ------------------------------------------------------------------ recording clock

/// Everything `Engine::process` was handed, in order.
#[derive(Debug, Default)]
struct Shared {
    log: Vec<Ev>,
}

/// `EngineClock` whose `process` records the event and whose `time` is a strictly increasing
/// counter (no wall clock anywhere in a run). The instance the builder moves into the engine is the
/// original; the execution clients get clones (`SystemBuilder::build`: `clock.clone()`), so calls of
/// `time()` on the ORIGINAL are: one for `time_engine_start`, one in `Engine::new`, one for the audit
/// snapshot if enabled, and then exactly one per processed event, made by `Auditor::audit` AFTER
/// `Engine::process` has returned (engine/mod.rs:88-89) - which is how the harness knows that an
/// event has been processed completely (all its requests sent), not merely begun.
#[derive(Debug)]
struct RecClock {
    shared: Arc<Mutex<Shared>>,
    ticks: Arc<AtomicI64>,
    original: bool,
    original_time_calls: Arc<AtomicUsize>,
}

impl Clone for RecClock {
    fn clone(&self) -> Self {
        Self {
            shared: Arc::clone(&self.shared),
            ticks: Arc::clone(&self.ticks),
            original: false,
            original_time_calls: Arc::clone(&self.original_time_calls),
        }
    }
}

impl RecClock {
    fn new() -> Self {
        Self {
            shared: Arc::new(Mutex::new(Shared::default())),
            ticks: Arc::new(AtomicI64::new(0)),
            original: true,
            original_time_calls: Arc::new(AtomicUsize::new(0)),
        }
    }
}

impl EngineClock for RecClock {
    fn time(&self) -> DateTime<Utc> {
        let t = time_ms(1_000_000 + self.ticks.fetch_add(1, Ordering::SeqCst));
        if self.original {
            self.original_time_calls.fetch_add(1, Ordering::SeqCst);
        }
        t
    }
}

impl<'a> Processor<&'a Ev> for RecClock {
    type Audit = ();
    fn process(&mut self, event: &'a Ev) {
        self.shared.lock().unwrap().log.push(event.clone());
    }
}

// ------------------------------------------------------------------ strategy

/// Reaction encoded in a market trade's id: `id` or `id:S:q`.
fn reaction(trade_id: &str) -> (u64, Option<(Side, Decimal)>) {
    let p: Vec<&str> = trade_id.split(':').collect();
    let id: u64 = p[0].parse().expect("trade id");
    if p.len() == 3 {
        (id, Some((parse_side(p[1]), parse_dec(p[2]))))
    } else {
        (id, None)
    }
}

/// Algo orders: one market order per not-yet-answered market trade that asks for one (decisions
/// depend only on the recorded market trades; never on account events). Close-positions: the repo's
/// own `close_open_positions_with_market_orders` with the deterministic id `9000 + instrument`.
#[derive(Debug)]
struct SysStrategy {
    id: StrategyId,
    shared: Arc<Mutex<Shared>>,
    /// number of recorded market trades already answered
    answered: Mutex<usize>,
    disabled_calls: usize,
    disconnects: usize,
}

impl SysStrategy {
    fn new(shared: Arc<Mutex<Shared>>) -> Self {
        Self {
            id: StrategyId::new("verif"),
            shared,
            answered: Mutex::new(0),
            disabled_calls: 0,
            disconnects: 0,
        }
    }
}

impl AlgoStrategy for SysStrategy {
    type State = State;
    fn generate_algo_orders(
        &self,
        state: &Self::State,
    ) -> (
        impl IntoIterator<Item = OrderRequestCancel<ExchangeIndex, InstrumentIndex>>,
        impl IntoIterator<Item = OrderRequestOpen<ExchangeIndex, InstrumentIndex>>,
    ) {
        let shared = self.shared.lock().unwrap();
        let mut answered = self.answered.lock().unwrap();
        let trades: Vec<&MarketEvent<InstrumentIndex, DataKind>> = shared
            .log
            .iter()
            .filter_map(|e| match e {
                EngineEvent::Market(MarketStreamEvent::Item(m)) => Some(m),
                _ => None,
            })
            .collect();
        let mut opens = Vec::new();
        for m in trades.iter().skip(*answered) {
            let DataKind::Trade(t) = &m.kind else { continue };
            let (id, react) = reaction(&t.id);
            if let Some((side, qty)) = react {
                let exchange = state.instruments.instrument_index(&m.instrument).instrument.exchange;
                opens.push(OrderRequestOpen {
                    key: OrderKey {
                        exchange,
                        instrument: m.instrument,
                        strategy: self.id.clone(),
                        cid: ClientOrderId::new(format!("{}", 7000 + id)),
                    },
                    state: RequestOpen {
                        side,
                        price: Decimal::try_from(t.price).unwrap(),
                        quantity: qty,
                        kind: OrderKind::Market,
                        time_in_force: TimeInForce::ImmediateOrCancel,
                    },
                });
            }
        }
        *answered = trades.len();
        (std::iter::empty(), opens)
    }
}

impl ClosePositionsStrategy for SysStrategy {
    type State = State;
    fn close_positions_requests<'a>(
        &'a self,
        state: &'a Self::State,
        filter: &'a InstrumentFilter<ExchangeIndex, AssetIndex, InstrumentIndex>,
    ) -> (
        impl IntoIterator<Item = OrderRequestCancel<ExchangeIndex, InstrumentIndex>> + 'a,
        impl IntoIterator<Item = OrderRequestOpen<ExchangeIndex, InstrumentIndex>> + 'a,
    )
    where
        ExchangeIndex: 'a,
        AssetIndex: 'a,
        InstrumentIndex: 'a,
    {
        close_open_positions_with_market_orders(&self.id, state, filter, |state| {
            ClientOrderId::new(format!("{}", 9000 + state.key.index()))
        })
    }
}

impl<Clock, Txs, R> OnDisconnectStrategy<Clock, State, Txs, R> for SysStrategy {
    type OnDisconnect = ();
    fn on_disconnect(engine: &mut Engine<Clock, State, Txs, Self, R>, _: ExchangeId) {
        engine.strategy.disconnects += 1;
    }
}

impl<Clock, Txs, R> OnTradingDisabled<Clock, State, Txs, R> for SysStrategy {
    type OnTradingDisabled = ();
    fn on_trading_disabled(engine: &mut Engine<Clock, State, Txs, Self, R>) {
        engine.strategy.disabled_calls += 1;
    }
}

// ------------------------------------------------------------------ set-up

#[derive(Debug, Clone)]
struct Cfg {
    feed: String,
    audit: String,
    trading: String,
    k: usize,
    x2: bool,
    /// configuration shape `x2 = 2`: the exchange without execution link is `ExchangeId::Other`, which sorts BEFORE
    /// the mocked exchange: the mocked exchange is ExchangeIndex(1), its instruments / assets follow the other one's
    x2_first: bool,
    /// configuration shape `sysb`: the builder calls in the order given (any order, setters repeated)
    calls: Option<Vec<String>>,
    quote: Decimal,
    base: Decimal,
    latency_ms: u64,
}

/// the exchange without execution link
fn ex1(cfg: &Cfg) -> ExchangeId {
    if cfg.x2_first { ExchangeId::Other } else { EX[1] }
}

fn instruments(cfg: &Cfg) -> IndexedInstruments {
    let mut b = IndexedInstruments::builder();
    for j in 0..cfg.k {
        b = b.add_instrument(Instrument::spot(
            EX[0],
            format!("i{j}"),
            format!("I{j}"),
            Underlying::new(format!("b{j}"), "q".to_string()),
            None,
        ));
    }
    if cfg.x2 {
        b = b.add_instrument(Instrument::spot(
            ex1(cfg),
            format!("i{}", cfg.k),
            format!("I{}", cfg.k),
            Underlying::new(format!("b{}", cfg.k), "q".to_string()),
            None,
        ));
    }
    b.build()
}

/// label <-> index translation (labels are what op lines and observations use)
#[derive(Debug, Clone)]
struct Labels {
    ex_idx: Vec<usize>,
    ins_idx: Vec<usize>,
    /// asset label per AssetIndex: `q` / `b<j>` for exchange 0, `x:<name>` for exchange 1
    asset_label: Vec<String>,
}

impl Labels {
    fn new(ii: &IndexedInstruments, cfg: &Cfg) -> Self {
        let n_ex = if cfg.x2 { 2 } else { 1 };
        let ex_idx = (0..n_ex)
            .map(|l| ii.exchanges().iter().position(|e| e.value == if l == 0 { EX[0] } else { ex1(cfg) }).unwrap())
            .collect();
        let n_ins = cfg.k + cfg.x2 as usize;
        let ins_idx = (0..n_ins)
            .map(|l| {
                ii.instruments()
                    .iter()
                    .position(|i| i.value.name_internal.name().as_str() == format!("i{l}"))
                    .unwrap()
            })
            .collect();
        let asset_label = ii
            .assets()
            .iter()
            .map(|a| {
                let name = a.value.asset.name_exchange.as_ref().to_string();
                if a.value.exchange == EX[0] { name } else { format!("x:{name}") }
            })
            .collect();
        Self { ex_idx, ins_idx, asset_label }
    }
    fn ex_label(&self, idx: usize) -> usize {
        self.ex_idx.iter().position(|x| *x == idx).unwrap_or(idx)
    }
    fn ins_label(&self, idx: usize) -> usize {
        self.ins_idx.iter().position(|x| *x == idx).unwrap_or(idx)
    }
}

fn parse_side(s: &str) -> Side {
    match s {
        "B" => Side::Buy,
        "S" => Side::Sell,
        o => panic!("bad side {o}"),
    }
}

fn fmt_side(s: Side) -> &'static str {
    if s == Side::Buy { "B" } else { "S" }
}

fn key(l: &Labels, ex: usize, ins: usize, cid: &str) -> OrderKey<ExchangeIndex, InstrumentIndex> {
    OrderKey {
        exchange: ExchangeIndex(l.ex_idx[ex]),
        instrument: InstrumentIndex(l.ins_idx[ins]),
        strategy: StrategyId::new("verif"),
        // ids 9000 + <instrument LABEL> collide on purpose with the close-position id generator (9000 + InstrumentIndex):
        // translated like every other label (identity unless the unlinked exchange sorts first, x2 = 2)
        cid: ClientOrderId::new(match cid.parse::<usize>() {
            Ok(n) if (9000..9100).contains(&n) && n - 9000 < l.ins_idx.len() => format!("{}", 9000 + l.ins_idx[n - 9000]),
            _ => cid.to_string(),
        }),
    }
}

/// `c:<ex>:<ins>:<cid>[:<order id>]` / `o:<ex>:<ins>:<cid>:<B|S>:<price>:<qty>` (labels)
fn parse_reqs(
    l: &Labels,
    toks: &[String],
) -> (
    Vec<OrderRequestCancel<ExchangeIndex, InstrumentIndex>>,
    Vec<OrderRequestOpen<ExchangeIndex, InstrumentIndex>>,
) {
    let mut cs = vec![];
    let mut os = vec![];
    for t in toks {
        let f: Vec<&str> = t.split(':').collect();
        let ex: usize = f[1].parse().unwrap();
        let ins: usize = f[2].parse().unwrap();
        match f[0] {
            "c" => cs.push(OrderEvent {
                key: key(l, ex, ins, f[3]),
                state: RequestCancel { id: f.get(4).map(OrderId::new) },
            }),
            "o" => os.push(OrderEvent {
                key: key(l, ex, ins, f[3]),
                state: RequestOpen {
                    side: parse_side(f[4]),
                    price: parse_dec(f[5]),
                    quantity: parse_dec(f[6]),
                    kind: OrderKind::Market,
                    time_in_force: TimeInForce::ImmediateOrCancel,
                },
            }),
            other => panic!("bad request {other}"),
        }
    }
    (cs, os)
}

fn parse_filter(l: &Labels, s: &str) -> InstrumentFilter {
    if s == "none" {
        return InstrumentFilter::None;
    }
    let (kind, list) = s.split_once(':').unwrap();
    match kind {
        "ex" => InstrumentFilter::Exchanges(OneOrMany::from_iter(
            list.split(',').map(|x| ExchangeIndex(l.ex_idx[x.parse::<usize>().unwrap()])),
        )),
        "ins" => InstrumentFilter::Instruments(OneOrMany::from_iter(
            list.split(',').map(|x| InstrumentIndex(l.ins_idx[x.parse::<usize>().unwrap()])),
        )),
        other => panic!("bad filter {other}"),
    }
}

fn fmt_cancel(l: &Labels, r: &OrderRequestCancel<ExchangeIndex, InstrumentIndex>) -> String {
    format!(
        "c:{}:{}:{}{}",
        l.ex_label(r.key.exchange.0),
        l.ins_label(r.key.instrument.0),
        canon_cid(l, &r.key.cid.0),
        r.state.id.as_ref().map(|id| format!(":{}", id.0)).unwrap_or_default()
    )
}

fn fmt_open_req(l: &Labels, r: &OrderRequestOpen<ExchangeIndex, InstrumentIndex>) -> String {
    format!(
        "o:{}:{}:{}:{}:{}:{}",
        l.ex_label(r.key.exchange.0),
        l.ins_label(r.key.instrument.0),
        canon_cid(l, &r.key.cid.0),
        fmt_side(r.state.side),
        fmt_dec(r.state.price),
        fmt_dec(r.state.quantity)
    )
}

/// the close-position id generator yields `9000 + InstrumentIndex`: print `9000 + label`
fn canon_cid(l: &Labels, cid: &str) -> String {
    match cid.parse::<usize>() {
        Ok(n) if (9000..9100).contains(&n) => format!("{}", 9000 + l.ins_label(n - 9000)),
        _ => cid.to_string(),
    }
}

fn fmt_filter(l: &Labels, f: &InstrumentFilter) -> String {
    match f {
        InstrumentFilter::None => "none".into(),
        InstrumentFilter::Exchanges(x) => format!(
            "ex:{}",
            x.iter().map(|e| l.ex_label(e.0).to_string()).collect::<Vec<_>>().join(",")
        ),
        InstrumentFilter::Instruments(x) => format!(
            "ins:{}",
            x.iter().map(|e| l.ins_label(e.0).to_string()).collect::<Vec<_>>().join(",")
        ),
        InstrumentFilter::Underlyings(_) => "und".into(),
    }
}

/// canonical tag of one processed event; first letter = source (H handle, M market, A account)
fn tag(l: &Labels, e: &Ev) -> String {
    match e {
        EngineEvent::Shutdown(_) => "H:shutdown".into(),
        EngineEvent::TradingStateUpdate(t) => {
            format!("H:trading:{}", if *t == TradingState::Enabled { "on" } else { "off" })
        }
        EngineEvent::Command(c) => match c {
            Command::SendCancelRequests(r) => format!(
                "H:cancel:{}",
                r.iter().map(|r| fmt_cancel(l, r)).collect::<Vec<_>>().join("+")
            ),
            Command::SendOpenRequests(r) => format!(
                "H:open:{}",
                r.iter().map(|r| fmt_open_req(l, r)).collect::<Vec<_>>().join("+")
            ),
            Command::ClosePositions(f) => format!("H:close:{}", fmt_filter(l, f)),
            Command::CancelOrders(f) => format!("H:cancel_orders:{}", fmt_filter(l, f)),
        },
        EngineEvent::Market(MarketStreamEvent::Reconnecting(_)) => "M:re".into(),
        EngineEvent::Market(MarketStreamEvent::Item(m)) => match &m.kind {
            DataKind::Trade(t) => format!("M:{}", reaction(&t.id).0),
            _ => "M:?".into(),
        },
        EngineEvent::Account(AccountStreamEvent::Reconnecting(_)) => "A:re".into(),
        EngineEvent::Account(AccountStreamEvent::Item(a)) => match &a.kind {
            AccountEventKind::Snapshot(s) => {
                let mut b: Vec<String> = s
                    .balances
                    .iter()
                    .map(|b| format!("{}={}", l.asset_label[b.asset.0], fmt_dec(b.balance.total)))
                    .collect();
                b.sort();
                format!("A:snap:{}:orders={}", b.join(","), s.instruments.iter().map(|i| i.orders.len()).sum::<usize>())
            }
            AccountEventKind::BalanceSnapshot(b) => {
                format!("A:bal:{}={}", l.asset_label[b.0.asset.0], fmt_dec(b.0.balance.total))
            }
            AccountEventKind::OrderSnapshot(o) => format!(
                "A:ord:{}:{}",
                canon_cid(l, &o.0.key.cid.0),
                match &o.0.state {
                    OrderState::Active(ActiveOrderState::Open(_)) => "open",
                    OrderState::Active(_) => "active",
                    OrderState::Inactive(InactiveOrderState::FullyFilled) => "filled",
                    OrderState::Inactive(InactiveOrderState::OpenFailed(_)) => "rejected",
                    OrderState::Inactive(_) => "inactive",
                }
            ),
            AccountEventKind::OrderCancelled(c) => format!(
                "A:cancel:{}:{}",
                canon_cid(l, &c.key.cid.0),
                if c.state.is_ok() { "ok" } else { "err" }
            ),
            AccountEventKind::Trade(t) => format!(
                "A:trade:{}:{}:{}@{}",
                l.ins_label(t.instrument.0),
                fmt_side(t.side),
                fmt_dec(t.quantity),
                fmt_dec(t.price)
            ),
        },
    }
}

fn fmt_open(o: &Open) -> String {
    format!("({},{})", o.id.0, fmt_dec(o.filled_quantity))
}

fn fmt_active(s: &ActiveOrderState, strip: bool) -> Option<String> {
    match s {
        ActiveOrderState::OpenInFlight(_) => (!strip).then(|| "F".into()),
        ActiveOrderState::Open(o) => Some(format!("O{}", fmt_open(o))),
        ActiveOrderState::CancelInFlight(c) => match &c.order {
            None => (!strip).then(|| "C(-)".into()),
            Some(o) => Some(if strip { format!("O{}", fmt_open(o)) } else { format!("C{}", fmt_open(o)) }),
        },
    }
}

/// orders / position / price per instrument label and the trading state; `strip` sets the
/// in-flight request markers aside (what a state replica can know, C10)
fn observe_state(l: &Labels, state: &State, strip: bool) -> Vec<String> {
    use barter::engine::state::instrument::data::InstrumentDataState;
    let mut lines = vec![];
    for (label, idx) in l.ins_idx.iter().enumerate() {
        let ins = state.instruments.instrument_index(&InstrumentIndex(*idx));
        let mut v: Vec<(u64, String)> = ins
            .orders
            .0
            .iter()
            .filter_map(|(cid, o)| {
                let c = canon_cid(l, &cid.0);
                fmt_active(&o.state, strip).map(|s| (c.parse().unwrap_or(u64::MAX), format!("{c}:{s}")))
            })
            .collect();
        v.sort();
        lines.push(format!("ord{label} {}", v.into_iter().map(|x| x.1).collect::<Vec<_>>().join(" ")));
        lines.push(match &ins.position.current {
            None => format!("pos{label} none"),
            Some(p) => format!("pos{label} {}:{}", fmt_side(p.side), fmt_dec(p.quantity_abs)),
        });
        lines.push(match ins.data.price() {
            None => format!("price{label} none"),
            Some(p) => format!("price{label} {}", fmt_dec(p)),
        });
    }
    lines.push(format!(
        "trading {}",
        if state.trading == TradingState::Enabled { "on" } else { "off" }
    ));
    lines
}

// ------------------------------------------------------------------ the running system

struct Running {
    system: Option<System<Eng, Ev>>,
    labels: Labels,
    cfg: Cfg,
    instruments: IndexedInstruments,
    shared: Arc<Mutex<Shared>>,
    market_tx: tokio::sync::mpsc::UnboundedSender<MarketStreamEvent<InstrumentIndex, DataKind>>,
    relayed: Arc<AtomicUsize>,
    /// `time()` calls on the engine's own clock, and how many of them precede the run loop
    engine_time_calls: Arc<AtomicUsize>,
    time_calls_before_loop: usize,
    /// events put on the feed by the handle / pushed into the market stream so far
    handle_sent: usize,
    mkt_pushed: usize,
    mkt_count: u64,
    /// log position up to which observations have been printed
    printed: usize,
    audit: Option<AuditFeed>,
    iterator: bool,
}

fn exec_configs(cfg: &Cfg) -> Vec<ExecutionConfig> {
    let mut balances = vec![AssetBalance {
        asset: AssetNameExchange::new("q"),
        balance: Balance::new(cfg.quote, cfg.quote),
        time_exchange: time_ms(0),
    }];
    for j in 0..cfg.k {
        balances.push(AssetBalance {
            asset: AssetNameExchange::new(format!("b{j}")),
            balance: Balance::new(cfg.base, cfg.base),
            time_exchange: time_ms(0),
        });
    }
    vec![ExecutionConfig::Mock(MockExecutionConfig {
        mocked_exchange: EX[0],
        initial_state: UnindexedAccountSnapshot { exchange: EX[0], balances, instruments: vec![] },
        latency_ms: cfg.latency_ms,
        fees_percent: Decimal::ZERO,
    })]
}

async fn build(cfg: Cfg, lines: &mut Vec<String>) -> Running {
    let ii = instruments(&cfg);
    let labels = Labels::new(&ii, &cfg);
    let clock = RecClock::new();
    let shared = Arc::clone(&clock.shared);
    let engine_time_calls = Arc::clone(&clock.original_time_calls);
    let (market_tx, market_rx) = tokio::sync::mpsc::unbounded_channel();
    let market_stream = tokio_stream::wrappers::UnboundedReceiverStream::new(market_rx);
    let args = SystemArgs::new(
        &ii,
        exec_configs(&cfg),
        clock,
        SysStrategy::new(Arc::clone(&shared)),
        Risk::default(),
        market_stream,
        GData::default(),
        IData::default,
    );
    let mut builder = SystemBuilder::new(args);
    if let Some(calls) = &cfg.calls {
        for c in calls {
            builder = match c.as_str() {
                "f=iter" => builder.engine_feed_mode(EngineFeedMode::Iterator),
                "f=stream" => builder.engine_feed_mode(EngineFeedMode::Stream),
                "a=on" => builder.audit_mode(AuditMode::Enabled),
                "a=off" => builder.audit_mode(AuditMode::Disabled),
                "t=on" => builder.trading_state(TradingState::Enabled),
                "t=off" => builder.trading_state(TradingState::Disabled),
                other => panic!("bad builder call {other}"),
            };
        }
    }
    // (with `sysb` the three fields below hold what the LAST call of each setter said - read by the harness's own
    // replay / final block only - and the calls above are the only ones made)
    let by_fields = cfg.calls.is_none();
    builder = match cfg.feed.as_str() {
        _ if !by_fields => builder,
        "iter" => builder.engine_feed_mode(EngineFeedMode::Iterator),
        "stream" => builder.engine_feed_mode(EngineFeedMode::Stream),
        _ => builder,
    };
    builder = match cfg.audit.as_str() {
        _ if !by_fields => builder,
        "on" => builder.audit_mode(AuditMode::Enabled),
        "off" => builder.audit_mode(AuditMode::Disabled),
        _ => builder,
    };
    builder = match cfg.trading.as_str() {
        _ if !by_fields => builder,
        "on" => builder.trading_state(TradingState::Enabled),
        "off" => builder.trading_state(TradingState::Disabled),
        _ => builder,
    };
    let mut sys_build = builder.build::<Ev, IData>().expect("SystemBuilder::build");
    lines.push(format!(
        "built feed={} audit={} trading={} seq={}",
        if sys_build.engine_feed_mode == EngineFeedMode::Iterator { "iter" } else { "stream" },
        if sys_build.audit_mode == AuditMode::Enabled { "on" } else { "off" },
        if sys_build.engine.state.trading == TradingState::Enabled { "on" } else { "off" },
        sys_build.engine.meta.sequence.0,
    ));
    let iterator = sys_build.engine_feed_mode == EngineFeedMode::Iterator;
    // time_engine_start + Engine::new (+ audit snapshot)
    let time_calls_before_loop = 2 + (sys_build.audit_mode == AuditMode::Enabled) as usize;
    assert_eq!(engine_time_calls.load(Ordering::SeqCst), 2, "clock calls of SystemBuilder::build");
    // tap the account channel: execution components -> [counting relay] -> system's account forwarder
    let relayed = Arc::new(AtomicUsize::new(0));
    let (tx2, rx2) = mpsc_unbounded::<AccountStreamEvent>();
    let Channel { tx: _orig_tx, rx: mut orig_rx } =
        std::mem::replace(&mut sys_build.account_channel, Channel { tx: tx2.clone(), rx: rx2 });
    let counter = Arc::clone(&relayed);
    tokio::spawn(async move {
        while let Some(event) = orig_rx.rx.recv().await {
            counter.fetch_add(1, Ordering::SeqCst);
            if tx2.send(event).is_err() {
                break;
            }
        }
    });
    let system = sys_build.init().await.expect("SystemBuild::init");
    lines.push(format!("audit_present {}", system.audit.is_some() as u8));
    Running {
        system: Some(system),
        labels,
        cfg,
        instruments: ii,
        shared,
        market_tx,
        relayed,
        engine_time_calls,
        time_calls_before_loop,
        handle_sent: 0,
        mkt_pushed: 0,
        mkt_count: 0,
        printed: 0,
        audit: None,
        iterator,
    }
}

impl Running {
    fn log_len(&self) -> usize {
        self.shared.lock().unwrap().log.len()
    }

    /// events processed COMPLETELY (their audit has been built)
    fn done(&self) -> usize {
        self.engine_time_calls.load(Ordering::SeqCst).saturating_sub(self.time_calls_before_loop)
    }

    fn engine_finished(&self) -> bool {
        self.system.as_ref().map(|s| s.engine.is_finished()).unwrap_or(true)
    }

    /// the last event the engine began is a command with a request for exchange label 1 (for which
    /// no execution is configured): every such command ends in an unrecoverable error
    fn last_event_names_unlinked_exchange(&self) -> bool {
        if !self.cfg.x2 {
            return false;
        }
        let unlinked = ExchangeIndex(self.labels.ex_idx[1]);
        match self.shared.lock().unwrap().log.last() {
            Some(EngineEvent::Command(Command::SendOpenRequests(r))) => r.iter().any(|r| r.key.exchange == unlinked),
            Some(EngineEvent::Command(Command::SendCancelRequests(r))) => r.iter().any(|r| r.key.exchange == unlinked),
            _ => false,
        }
    }

    /// Quiescence: everything put on the feed has been processed, and `K` further scheduler rounds
    /// produce nothing new. Virtual time never moves (yields only).
    async fn settle(&self) {
        const K: usize = 48;
        let mut rounds = 0usize;
        // every wait of the harness is bounded in REAL time as well: on the unchanged tree a settle
        // takes milliseconds; a wait that outlives these bounds means that nothing can make progress
        // any more (an engine that should have stopped keeps running, a task died in the middle of an
        // event, ...). The case then ends with `panic` / `# panicmsg settle-no-quiescence-...` at once
        // instead of spinning through the round budget (minutes per case)
        let started = std::time::Instant::now();
        loop {
            for _ in 0..K {
                tokio::task::yield_now().await;
            }
            let sent = self.handle_sent + self.mkt_pushed + self.relayed.load(Ordering::SeqCst);
            let processed = self.done();
            if processed >= sent || self.engine_finished() {
                for _ in 0..K {
                    tokio::task::yield_now().await;
                }
                let sent2 = self.handle_sent + self.mkt_pushed + self.relayed.load(Ordering::SeqCst);
                if sent2 == sent && self.done() == processed && self.log_len() == processed {
                    if self.last_event_names_unlinked_exchange() {
                        // the engine is about to stop on the unrecoverable error: between the end of
                        // its last tick and the drop of its feed receiver it still sends the final
                        // audit and the execution shutdowns - wait for the task to have returned
                        // (the model treats "stopped" and "receiver dropped" as one step)
                        let mut spins = 0usize;
                        let wait_started = std::time::Instant::now();
                        while !self.engine_finished() {
                            tokio::task::yield_now().await;
                            std::thread::sleep(std::time::Duration::from_micros(20));
                            spins += 1;
                            // the tick is complete (its audit has been built): a runner that stops does
                            // so within microseconds; one that is still running after seconds of real
                            // time went on to wait for the next feed event, i.e. did not stop
                            assert!(
                                spins < 2_000_000 && wait_started.elapsed() < std::time::Duration::from_secs(3),
                                "settle: no quiescence (engine did not stop after an unrecoverable error)"
                            );
                        }
                        for _ in 0..K {
                            tokio::task::yield_now().await;
                        }
                    }
                    return;
                }
                // the engine task has ended in the MIDDLE of an event (the event was handed to the
                // clock, its audit was never built): it panicked. Nothing after this is observable
                if self.engine_finished() && self.log_len() > self.done() && self.done() == processed {
                    panic!("settle: no quiescence (engine task panicked)");
                }
            } else if self.iterator {
                std::thread::sleep(std::time::Duration::from_micros(50));
            }
            rounds += 1;
            assert!(
                rounds < 400_000 && started.elapsed() < std::time::Duration::from_secs(10),
                "settle: no quiescence"
            );
        }
    }

    /// tags of the events processed since the last observation: handle events in order, market
    /// events in order, account events sorted (their relative order is the scheduler's)
    fn new_events(&mut self, lines: &mut Vec<String>) {
        let shared = self.shared.lock().unwrap();
        let tags: Vec<String> = shared.log[self.printed..].iter().map(|e| tag(&self.labels, e)).collect();
        self.printed = shared.log.len();
        drop(shared);
        let pick = |p: &str| tags.iter().filter(|t| t.starts_with(p)).cloned().collect::<Vec<_>>();
        let mut a = pick("A:");
        a.sort();
        lines.push(format!("h {}", pick("H:").join(" ")));
        lines.push(format!("m {}", pick("M:").join(" ")));
        lines.push(format!("a {}", a.join(" ")));
    }

    /// Replays the recorded feed synchronously through a fresh real `Engine` built the way the
    /// builder builds it (same instruments, trading state, execution links) and returns its state
    /// observation and sequence.
    fn replay(&self, audit_on: bool) -> (Vec<String>, u64, usize) {
        let clock = RecClock::new();
        let shared = Arc::clone(&clock.shared);
        let trading = match self.cfg.trading.as_str() {
            "on" => TradingState::Enabled,
            _ => TradingState::Disabled,
        };
        let state: State = EngineState::builder(&self.instruments, GData::default(), IData::default)
            .time_engine_start(clock.time())
            .trading_state(trading)
            .build();
        let mut rxs = vec![];
        let txs: MultiExchangeTxMap = self
            .instruments
            .exchanges()
            .iter()
            .map(|e| {
                if e.value == EX[0] {
                    let (tx, rx) = mpsc_unbounded::<ExecutionRequest>();
                    rxs.push(rx);
                    (e.value, Some(tx))
                } else {
                    (e.value, None)
                }
            })
            .collect();
        let mut engine: Eng = Engine::new(clock, state, txs, SysStrategy::new(shared), Risk::default());
        if audit_on {
            let _ = barter::engine::audit::Auditor::<Audit>::audit_snapshot(&mut engine);
        }
        let log: Vec<Ev> = self.shared.lock().unwrap().log.clone();
        for e in log {
            let _ = barter::engine::process_with_audit(&mut engine, e);
        }
        (
            observe_state(&self.labels, &engine.state, false),
            engine.meta.sequence.0,
            engine.strategy.disabled_calls,
        )
    }

    /// observations of the engine handed back by shutdown / abort / join
    fn final_block(&mut self, how: &str, engine: &Eng, audit: &Audit, lines: &mut Vec<String>) {
        lines.push(format!("res {how}"));
        self.new_events(lines);
        lines.push(format!(
            "shutdown_audit {}",
            match audit {
                EngineAudit::FeedEnded => "feed_ended".to_string(),
                EngineAudit::Process(p) => format!(
                    "{}{}",
                    tag(&self.labels, &p.event),
                    if p.errors.is_empty() { "" } else { "!fatal" }
                ),
            }
        ));
        lines.push(format!("seq {}", engine.meta.sequence.0));
        lines.push(format!("processed {}", self.log_len()));
        // the sequence number counts exactly the processed events (+1 for the audit snapshot)
        lines.push(format!("seq_off {}", engine.meta.sequence.0 as i64 - self.log_len() as i64));
        lines.push(format!("disabled_calls {}", engine.strategy.disabled_calls));
        lines.push(format!("disconnects {}", engine.strategy.disconnects));
        let obs = observe_state(&self.labels, &engine.state, false);
        lines.extend(obs.iter().cloned());
        // the returned engine is a fresh engine fed exactly the recorded feed
        let audit_on = self.cfg.audit == "on";
        let (robs, rseq, rdis) = self.replay(audit_on);
        let own = robs == obs && rseq == engine.meta.sequence.0 && rdis == engine.strategy.disabled_calls;
        lines.push(format!("own {}", own as u8));
        if !own {
            lines.push(format!("# own differs: replay {robs:?} seq {rseq}"));
        }
        // audit stream
        match self.audit.take() {
            None => lines.push("audit none".into()),
            Some(SnapUpdates { snapshot, mut updates }) => {
                let mut ticks: Vec<Tick> = vec![];
                while let Ok(t) = updates.rx.try_recv() {
                    ticks.push(t);
                }
                let closed = matches!(
                    updates.rx.try_recv(),
                    Err(tokio::sync::mpsc::error::TryRecvError::Disconnected)
                );
                lines.push(format!("audit snap_seq={} ticks={} closed={}", snapshot.context.sequence.0, ticks.len(), closed as u8));
                let seqs: Vec<u64> = ticks.iter().map(|t| t.context.sequence.0).collect();
                let first = snapshot.context.sequence.0 + 1;
                let consecutive = seqs.iter().enumerate().all(|(i, s)| *s == first + i as u64);
                lines.push(format!("audit_consecutive {}", consecutive as u8));
                let terminal_last = ticks.last().map(|t| t.event.is_terminal()).unwrap_or(false)
                    && ticks.iter().rev().skip(1).all(|t| !t.event.is_terminal());
                lines.push(format!("audit_terminal_last {}", terminal_last as u8));
                // the ticks carry exactly the recorded feed from the moment the audit began
                let log = self.shared.lock().unwrap();
                let tick_events: Vec<&Ev> = ticks
                    .iter()
                    .filter_map(|t| match &t.event {
                        EngineAudit::Process(p) => Some(&p.event),
                        _ => None,
                    })
                    .collect();
                let same = tick_events.len() == log.log.len()
                    && tick_events.iter().zip(log.log.iter()).all(|(a, b)| *a == b);
                drop(log);
                lines.push(format!("audit_events_eq_feed {}", same as u8));
                // snapshot + ticks through the real StateReplicaManager
                let mut rep = StateReplicaManager::new(snapshot, ticks.into_iter());
                let ok = rep.run::<(), ()>().is_ok();
                let robs = observe_state(&self.labels, rep.replica_engine_state(), true);
                let eobs = observe_state(&self.labels, &engine.state, true);
                lines.push(format!("replica_ok {}", ok as u8));
                lines.push(format!("replica_eq {}", (robs == eobs) as u8));
                lines.push(format!("replica_seq {}", rep.state_replica.context.sequence.0));
                if robs != eobs {
                    lines.push(format!("# replica differs: {robs:?} vs {eobs:?}"));
                }
            }
        }
    }
}

fn run_case(case: &Case, lines: &mut Vec<String>) {
    let rt = tokio::runtime::Builder::new_current_thread()
        .enable_all()
        .start_paused(true)
        .build()
        .unwrap();
    rt.block_on(async {
        let mut run: Option<Running> = None;
        for op in case.ops.iter() {
            lines.push("@".into());
            match op[0].as_str() {
                "sys" => {
                    let cfg = Cfg {
                        feed: op[1].clone(),
                        audit: op[2].clone(),
                        trading: op[3].clone(),
                        k: op[4].parse().unwrap(),
                        x2: op[5] != "0",
                        x2_first: op[5] == "2",
                        calls: None,
                        quote: parse_dec(&op[6]),
                        base: parse_dec(&op[7]),
                        latency_ms: op[8].parse().unwrap(),
                    };
                    if !["0", "1", "2"].contains(&op[5].as_str()) {
                        lines.push("bad-op".into());
                        continue;
                    }
                    run = Some(build(cfg, lines).await);
                }
                // configuration shape: `sysb <calls|-> <k> <x2> <quote> <base> <latency>`: the builder calls
                // (`f=iter|f=stream|a=on|a=off|t=on|t=off`, comma separated) in ANY order, setters repeated
                "sysb" => {
                    let calls: Vec<String> =
                        if op[1] == "-" { vec![] } else { op[1].split(',').map(|c| c.to_string()).collect() };
                    let ok = calls.iter().all(|c| ["f=iter", "f=stream", "a=on", "a=off", "t=on", "t=off"].contains(&c.as_str()))
                        && ["0", "1", "2"].contains(&op[3].as_str())
                        && op.len() == 7;
                    if !ok {
                        lines.push("bad-op".into());
                        continue;
                    }
                    let last = |p: &str| -> String {
                        calls.iter().rev().find(|c| c.starts_with(p)).map(|c| c[2..].to_string()).unwrap_or("dflt".into())
                    };
                    let cfg = Cfg {
                        feed: last("f="),
                        audit: last("a="),
                        trading: last("t="),
                        k: op[2].parse().unwrap(),
                        x2: op[3] != "0",
                        x2_first: op[3] == "2",
                        calls: Some(calls),
                        quote: parse_dec(&op[4]),
                        base: parse_dec(&op[5]),
                        latency_ms: op[6].parse().unwrap(),
                    };
                    run = Some(build(cfg, lines).await);
                }
                _ => {
                    let r = run.as_mut().expect("sys first");
                    if r.system.is_none() {
                        lines.push("nosys".into());
                        continue;
                    }
                    match op[0].as_str() {
                        "mkt" => {
                            // input-level guard (Lean `SysHandle.MktOk`): positive price, positive
                            // reaction quantity; anything else is rejected on both sides (the engine
                            // panics on positions of quantity 0 / entry price 0: 0/0 in position.rs:522,554)
                            let ok = op[1..].iter().all(|t| {
                                let f: Vec<&str> = t.split(':').collect();
                                parse_dec(f[1]) > Decimal::ZERO
                                    && f.get(3).map(|q| parse_dec(q) > Decimal::ZERO).unwrap_or(true)
                            });
                            if !ok || op.len() < 2 {
                                lines.push("bad-op".into());
                                continue;
                            }
                            for t in &op[1..] {
                                let f: Vec<&str> = t.splitn(3, ':').collect();
                                let i: usize = f[0].parse().unwrap();
                                let id = r.mkt_count;
                                r.mkt_count += 1;
                                let trade_id = match f.get(2) {
                                    Some(react) => format!("{id}:{react}"),
                                    None => format!("{id}"),
                                };
                                let ex = if i < r.cfg.k { EX[0] } else { ex1(&r.cfg) };
                                let ev = MarketStreamEvent::Item(MarketEvent {
                                    time_exchange: time_ms(id as i64 + 1),
                                    time_received: time_ms(id as i64 + 1),
                                    exchange: ex,
                                    instrument: InstrumentIndex(r.labels.ins_idx[i]),
                                    kind: DataKind::Trade(PublicTrade {
                                        id: trade_id,
                                        price: f[1].parse::<f64>().unwrap(),
                                        amount: 1.0,
                                        side: Side::Buy,
                                    }),
                                });
                                if r.market_tx.send(ev).is_ok() {
                                    r.mkt_pushed += 1;
                                }
                            }
                            lines.push(format!("pushed {}", op.len() - 1));
                        }
                        "mktre" => {
                            if r.market_tx.send(MarketStreamEvent::Reconnecting(EX[0])).is_ok() {
                                r.mkt_pushed += 1;
                            }
                            lines.push("pushed 1".into());
                        }
                        "call" => {
                            // input-level guard (Lean `SysHandle.ActOk`): open requests carry a
                            // positive price and a positive quantity
                            if op[1] == "open"
                                && op[2..].iter().any(|t| {
                                    let f: Vec<&str> = t.split(':').collect();
                                    f.len() != 7 || parse_dec(f[5]) <= Decimal::ZERO || parse_dec(f[6]) <= Decimal::ZERO
                                })
                            {
                                lines.push("bad-op".into());
                                continue;
                            }
                            let sys = r.system.as_ref().unwrap();
                            let l = &r.labels;
                            let res = std::panic::catch_unwind(AssertUnwindSafe(|| match op[1].as_str() {
                                "open" => sys.send_open_requests(OneOrMany::from_iter(parse_reqs(l, &op[2..]).1)),
                                "cancel" => sys.send_cancel_requests(OneOrMany::from_iter(parse_reqs(l, &op[2..]).0)),
                                "close" => sys.close_positions(parse_filter(l, &op[2])),
                                "cancel_orders" => sys.cancel_orders(parse_filter(l, &op[2])),
                                "trading" => sys.trading_state(if op[2] == "on" {
                                    TradingState::Enabled
                                } else {
                                    TradingState::Disabled
                                }),
                                other => panic!("bad call {other}"),
                            }));
                            match res {
                                Ok(()) => {
                                    r.handle_sent += 1;
                                    lines.push("sent".into());
                                }
                                Err(_) => lines.push("panic".into()),
                            }
                        }
                        "settle" | "sleep" => {
                            if op[0] == "sleep" {
                                let ms: u64 = op[1].parse().unwrap();
                                tokio::time::advance(std::time::Duration::from_millis(ms)).await;
                            }
                            r.settle().await;
                            r.new_events(lines);
                            lines.push(format!("alive {}", !r.engine_finished() as u8));
                        }
                        "take_audit" => {
                            let got = r.system.as_mut().unwrap().take_audit();
                            lines.push(format!("audit {}", if got.is_some() { "some" } else { "none" }));
                            if got.is_some() {
                                r.audit = got;
                            }
                        }
                        "shutdown" | "abort" | "join" => {
                            let system = r.system.take().unwrap();
                            let how = op[0].clone();
                            // real-time watchdog: if shutdown() / abort() / the join handle do not
                            // return (an engine that never processes the Shutdown, an execution task
                            // that is never told to stop), the case ends with `panic` instead of
                            // hanging. A pending receiver does not keep the paused clock from
                            // auto-advancing, so the awaited future is scheduled exactly as before
                            let (wd_tx, wd_rx) = tokio::sync::oneshot::channel::<()>();
                            let wd_done = Arc::new(std::sync::atomic::AtomicBool::new(false));
                            let wd_flag = Arc::clone(&wd_done);
                            std::thread::spawn(move || {
                                let t0 = std::time::Instant::now();
                                while !wd_flag.load(Ordering::SeqCst) {
                                    if t0.elapsed() > std::time::Duration::from_secs(10) {
                                        let _ = wd_tx.send(());
                                        return;
                                    }
                                    std::thread::sleep(std::time::Duration::from_millis(5));
                                }
                            });
                            let fut = async move {
                                let work = async move {
                                    match how.as_str() {
                                        "shutdown" => system.shutdown().await,
                                        "abort" => system.abort().await,
                                        _ => {
                                            let System { engine, handles, feed_tx: _, audit: _ } = system;
                                            let out = engine.await;
                                            handles.abort();
                                            out
                                        }
                                    }
                                };
                                tokio::pin!(work);
                                tokio::select! {
                                    biased;
                                    out = &mut work => out,
                                    Ok(()) = wd_rx => panic!("settle: no quiescence (shutdown / abort / join does not return)"),
                                }
                            };
                            let closed = AssertUnwindSafe(fut).catch_unwind().await;
                            wd_done.store(true, Ordering::SeqCst);
                            match closed {
                                Err(_) => lines.push("panic".into()),
                                Ok(Err(e)) => lines.push(format!("res joinerr {}", e.is_panic() as u8)),
                                Ok(Ok((engine, audit))) => {
                                    r.handle_sent += 1;
                                    let how = op[0].clone();
                                    r.final_block(&how, &engine, &audit, lines);
                                }
                            }
                        }
                        other => panic!("bad op {other}"),
                    }
                }
            }
        }
    });
    rt.shutdown_background();
}

fn run() {
    run_cases(run_case);
}

/// one random case; `dead_allowed`: may contain a request for the exchange without execution link
/// `dom` = the input-domain family (cases `d<n>`, own PRNG stream): zero / exact-fit / huge balances (quote 0 / 100 / 2e12,
/// base 0 / 1), latencies 1 / 500 ms, prices 0.5 / 99.99 / 1e12 and quantities 3 / 1e-8, up to three open and two cancel
/// requests in one call
fn gen_case(out: &mut Out, rng: &mut Rng, id: &str, thorough: bool, dom: bool, shape: bool) {
    out.case(id);
    let k = rng.range(1, 3) as usize;
    let x2 = rng.chance(35);
    // the configuration-shape family (cases `cfg<n>`, own PRNG stream): the unlinked exchange sorts FIRST (x2 = 2: the
    // mocked exchange is ExchangeIndex(1)) in 2 of 3 cases; the builder calls in any order / repeated (`sysb`) in 2 of 3
    let x2_first = shape && rng.chance(66);
    let x2 = x2 || x2_first;
    let sysb = shape && (!x2_first || rng.chance(50));
    let quote = if dom { *rng.pick(&["0", "100", "1000", "2000000000000"]) } else { *rng.pick(&["300", "1000", "100000"]) };
    let base = if dom { *rng.pick(&["0", "1", "2"]) } else { *rng.pick(&["2", "10"]) };
    let feed = *rng.pick(&["iter", "stream", "stream", "dflt"]);
    let audit = *rng.pick(&["on", "on", "off", "dflt"]);
    let trading = *rng.pick(&["on", "on", "off", "dflt"]);
    let latency = if dom { *rng.pick(&[0u64, 1, 50, 500]) } else { *rng.pick(&[0u64, 0, 50, 50, 200]) };
    let open_prices: &[&str] = if dom { &["50", "100", "100", "0.5", "99.99", "1000000000000"] } else { &["50", "100"] };
    let open_qtys: &[&str] = if dom { &["1", "1", "2", "0.5", "3", "0.00000001"] } else { &["1", "1", "2", "0.5", "20"] };
    let x2_tok = if x2_first { 2 } else { x2 as u8 };
    if sysb {
        let all = ["f=iter", "f=stream", "a=on", "a=off", "t=on", "t=off"];
        let n = rng.below(6) as usize;
        let calls: Vec<&str> = (0..n).map(|_| *rng.pick(&all)).collect();
        let calls = if calls.is_empty() { "-".to_string() } else { calls.join(",") };
        out.line(format!("sysb {calls} {k} {x2_tok} {quote} {base} {latency}"));
    } else {
        out.line(format!("sys {feed} {audit} {trading} {k} {x2_tok} {quote} {base} {latency}"));
    }
    let cid_pool = [1u64, 2, 3, 4, 7000, 7001, 9000, 9001];
    let gen_filter = |rng: &mut Rng| -> String {
        match rng.below(6) {
            0 | 1 | 2 => "none".into(),
            3 => if x2 && rng.chance(50) { "ex:1".into() } else { "ex:0".into() },
            4 => format!("ins:{}", rng.below(k as u64)),
            _ => if k >= 2 { "ins:0,1".into() } else { "ins:0".into() },
        }
    };
    let gen_open = |rng: &mut Rng| -> String {
        let i = rng.below(k as u64);
        let cid = *rng.pick(&cid_pool[..4]);
        let side = if rng.chance(60) { "B" } else { "S" };
        let price = *rng.pick(open_prices);
        let qty = *rng.pick(open_qtys);
        format!("o:0:{i}:{cid}:{side}:{price}:{qty}")
    };
    let gen_cancel = |rng: &mut Rng| -> String {
        let i = rng.below(k as u64);
        let cid = *rng.pick(&cid_pool);
        if rng.chance(30) { format!("c:0:{i}:{cid}:5") } else { format!("c:0:{i}:{cid}") }
    };
    let mut dead = false;
    let mut will_die = x2 && rng.chance(45);
    let segments = rng.range(1, if thorough { 8 } else { 5 });
    let mut took = 0;
    for seg in 0..segments {
        let n_ops = rng.range(0, 3);
        for _ in 0..n_ops {
            match rng.below(12) {
                0 | 1 | 2 => {
                    let n = rng.range(1, 3);
                    let mut line = String::from("mkt");
                    for _ in 0..n {
                        let i = if x2 && rng.chance(15) { k } else { rng.below(k as u64) as usize };
                        let price = *rng.pick(&["50", "100", "101"]);
                        if i < k && rng.chance(55) {
                            let side = if rng.chance(60) { "B" } else { "S" };
                            let qty = *rng.pick(&["1", "2", "0.5", "20"]);
                            line.push_str(&format!(" {i}:{price}:{side}:{qty}"));
                        } else {
                            line.push_str(&format!(" {i}:{price}"));
                        }
                    }
                    out.line(line);
                }
                3 => out.line("mktre"),
                4 | 5 => {
                    let mut line = format!("call open {}", gen_open(rng));
                    if rng.chance(35) {
                        line.push_str(&format!(" {}", gen_open(rng)));
                        if dom && rng.chance(40) {
                            line.push_str(&format!(" {}", gen_open(rng)));
                        }
                    }
                    out.line(line);
                }
                6 if dom && rng.chance(40) => out.line(format!("call cancel {} {}", gen_cancel(rng), gen_cancel(rng))),
                6 => out.line(format!("call cancel {}", gen_cancel(rng))),
                7 => out.line(format!("call close {}", gen_filter(rng))),
                8 => out.line(format!("call cancel_orders {}", gen_filter(rng))),
                9 | 10 => out.line(format!("call trading {}", if rng.chance(50) { "on" } else { "off" })),
                _ => {
                    if took < 2 {
                        took += 1;
                        out.line("take_audit");
                    }
                }
            }
        }
        if !dead && will_die && (seg == segments - 1 || rng.chance(35)) {
            // a request for the exchange that has no execution link: always directly followed by `settle`
            if rng.chance(70) {
                out.line(format!("call open o:1:{}:5:B:10:1", if rng.chance(80) { k } else { 0 }));
            } else {
                out.line(format!("call cancel c:1:{k}:5"));
            }
            out.line("settle");
            dead = true;
            will_die = false;
            continue;
        }
        match rng.below(10) {
            0..=4 => out.line("settle"),
            5..=7 => out.line(format!("sleep {}", *rng.pick(&[10u64, 50, 50, 100, 250]))),
            _ => {}
        }
    }
    if rng.chance(30) && took < 2 {
        out.line("take_audit");
    }
    // a request sent to the mocked exchange for the instrument that lives on the OTHER exchange: the
    // ExecutionManager task of the mocked exchange panics (manager.rs:244-268); always the LAST request
    // of the case and directly followed by `settle` (what the engine does with a later request for
    // that exchange - its link is closed then - is not modelled); shutdown() then returns the join
    // error, abort() the engine (review B C20S-1)
    if x2 && !dead && rng.chance(12) {
        // everything requested so far has been answered (250 ms >= every latency): what a panicking
        // manager task does to futures still in flight is tokio's select! order, not modelled
        out.line("sleep 250");
        if rng.chance(65) {
            out.line(format!("call open o:0:{k}:{}:B:10:1", *rng.pick(&cid_pool[..4])));
        } else {
            out.line(format!("call cancel c:0:{k}:{}", *rng.pick(&cid_pool[..4])));
        }
        out.line("settle");
        if rng.chance(40) {
            out.line("call trading off");
            out.line("settle");
        }
        out.line(if rng.chance(60) { "shutdown" } else { "abort" });
        return;
    }
    if dead {
        out.line(*rng.pick(&["join", "join", "shutdown", "abort"]));
    } else if !rng.chance(4) {
        out.line(if rng.chance(55) { "shutdown" } else { "abort" });
    }
    if rng.chance(10) {
        out.line("call trading on");
    }
}

fn generate(seed: u64, n_cases: usize, tier: &str) {
    let mut out = Out::new();
    let mut rng = Rng::new(seed);
    let thorough = tier == "thorough";
    let mut id = 0usize;
    if thorough {
        // small scope, exhaustively: every op sequence of length <= 3 over 8 symbols, for both feed
        // modes and both audit modes (exchange latency 50 ms), closed by take_audit + shutdown / abort
        let syms = [
            "mkt 0:100:B:1",
            "call trading on",
            "call trading off",
            "call open o:0:0:1:B:100:1",
            "call close none",
            "call cancel_orders none",
            "settle",
            "sleep 50",
        ];
        for feed in ["iter", "stream"] {
            for audit in ["on", "off"] {
                for len in 0..=3usize {
                    let total = syms.len().pow(len as u32);
                    for mut code in 0..total {
                        id += 1;
                        out.case(format!("x{id}"));
                        out.line(format!("sys {feed} {audit} off 1 0 1000 10 50"));
                        for _ in 0..len {
                            out.line(syms[code % syms.len()]);
                            code /= syms.len();
                        }
                        out.line("take_audit");
                        out.line(if id % 2 == 0 { "shutdown" } else { "abort" });
                    }
                }
            }
        }
    }
    for c in 0..n_cases {
        gen_case(&mut out, &mut rng, &format!("r{}", c + 1), thorough, false, false);
    }
    // the input-domain family (own PRNG stream, so the cases above stay as they are): one case per 8 random ones
    let mut drng = Rng::new(seed ^ 0x444f_4d53);
    for c in 0..n_cases / 8 {
        gen_case(&mut out, &mut drng, &format!("d{}", c + 1), thorough, true, false);
    }
    // the configuration-shape family (own PRNG stream): one case per 8 random ones
    let mut crng = Rng::new(seed ^ 0x4346_4753);
    for c in 0..n_cases / 8 {
        gen_case(&mut out, &mut crng, &format!("cfg{}", c + 1), thorough, false, true);
    }
    out.flush();
}

fn main() {
    let a = args();
    match a.cmd.as_str() {
        "gen" => generate(a.seed, a.n, &a.tier),
        "run" => run(),
        _ => {
            eprintln!("usage: c20s gen <seed> <n> <tier> | run < cases");
            std::process::exit(2)
        }
    }
}
