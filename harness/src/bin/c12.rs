//! C12 — reconnecting streams and `merge`.
//!
//! Reconnecting-stream ops (`policy`, `mode`, `conn …`): every `conn` op appends one scripted
//! outcome of the `init` closure and re-runs the *real* composition
//! `init_reconnecting_stream(init).with_reconnect_backoff(..).with_termination_on_error(..)
//!  .with_reconnection_events(..)[.with_error_handler(..) | .forward_to(tx)]`
//! on the script so far, on a fresh current-thread runtime with a paused clock; everything observed
//! (init invocations, delivered items, handler calls) is stamped with `tokio::time::Instant`.
//! Merge ops (`l x`, `r x`, `lend`, `rend`, `poll`, `drain`) drive the real
//! `barter_integration::stream::merge::merge` over two `mpsc_unbounded` receivers with a no-op waker.
use barter_data::streams::{
    consumer::StreamKey,
    reconnect::{
        Event,
        stream::{ReconnectingStream, ReconnectionBackoffPolicy, init_reconnecting_stream},
    },
};
use barter_instrument::exchange::ExchangeId;
use barter_integration::{
    channel::{Tx, UnboundedRx, UnboundedTx, mpsc_unbounded},
    stream::merge::merge,
};
use futures::{Stream, StreamExt, stream::BoxStream};
use std::{
    collections::VecDeque,
    pin::Pin,
    sync::{Arc, Mutex},
    task::{Context, Poll},
    time::Duration,
};
use vh::*;

// ------------------------------------------------------------------------------- script types

#[derive(Debug, Clone, Copy, PartialEq, Eq)]
struct ScriptErr {
    id: u64,
    terminal: bool,
}

#[derive(Debug, Clone, Copy)]
enum Elem {
    Item(u64),
    Error(u64, bool),
    Delay(u64),
}

#[derive(Debug, Clone)]
enum Conn {
    Fail,
    Ok(Vec<Elem>, bool),
}

#[derive(Debug, Clone, Copy)]
enum Mode {
    Events,
    Handler,
    Forward(Option<usize>),
    /// events -> with_error_handler -> forward_to (the assembly of `SystemBuilder` / the examples)
    HFwd(Option<usize>),
    /// TWO pipelines (own script, own policy) live on one runtime, merged by the real `merge()`;
    /// `true` = both carry the same `StreamKey` and origin (two subscription batches of one exchange)
    Duo(bool),
}

type Inner = BoxStream<'static, Result<u64, ScriptErr>>;
type Ev = Event<ExchangeId, Result<u64, ScriptErr>>;
type EvH = Event<ExchangeId, u64>;

fn parse_conn(toks: &[String]) -> Conn {
    match toks[0].as_str() {
        "fail" => Conn::Fail,
        "ok" => {
            let mut elems = vec![];
            let mut hang = false;
            for t in &toks[1..] {
                if t == "hang" {
                    hang = true;
                    continue;
                }
                let n: u64 = t[1..].parse().expect("elem payload");
                elems.push(match &t[..1] {
                    "i" => Elem::Item(n),
                    "e" => Elem::Error(n, false),
                    "T" => Elem::Error(n, true),
                    "d" => Elem::Delay(n),
                    other => panic!("bad elem {other}"),
                });
            }
            Conn::Ok(elems, hang)
        }
        other => panic!("bad conn {other}"),
    }
}

/// The inner stream a successful `init` hands out.
fn inner_stream(elems: Vec<Elem>, hang: bool) -> Inner {
    let s = futures::stream::iter(elems).filter_map(|el| async move {
        match el {
            Elem::Item(x) => Some(Ok(x)),
            Elem::Error(id, terminal) => Some(Err(ScriptErr { id, terminal })),
            Elem::Delay(ms) => {
                tokio::time::sleep(Duration::from_millis(ms)).await;
                None
            }
        }
    });
    if hang {
        s.chain(futures::stream::pending()).boxed()
    } else {
        s.boxed()
    }
}

// ------------------------------------------------------------------------------- shared log

#[derive(Clone)]
struct Log {
    lines: Arc<Mutex<Vec<String>>>,
    start: tokio::time::Instant,
    /// key of the event lines (`ev`; `bev` for the second pipeline of `mode duo`)
    key: &'static str,
    /// the origin this pipeline was assembled with: a notice must carry it
    origin: ExchangeId,
}

impl Log {
    fn t(&self) -> u128 {
        self.start.elapsed().as_millis()
    }
    fn push(&self, s: String) {
        self.lines.lock().unwrap().push(s);
    }
    fn event(&self, ev: &Ev) {
        let t = self.t();
        let k = self.key;
        self.push(match ev {
            Event::Reconnecting(o) if *o != self.origin => format!("{k} notice-foreign-origin {t}"),
            Event::Reconnecting(_) => format!("{k} notice {t}"),
            Event::Item(Ok(x)) => format!("{k} item {x} {t}"),
            Event::Item(Err(e)) => format!("{k} err {} {t}", e.id),
        });
    }
    fn event_h(&self, ev: &EvH) {
        let t = self.t();
        let k = self.key;
        self.push(match ev {
            Event::Reconnecting(o) if *o != self.origin => format!("{k} notice-foreign-origin {t}"),
            Event::Reconnecting(_) => format!("{k} notice {t}"),
            Event::Item(x) => format!("{k} item {x} {t}"),
        });
    }
    fn att(&self) {
        self.push(format!("{} att {}", self.key, self.t()));
    }
}

// ------------------------------------------------------------------------------- forward_to target

/// A `Tx` over the real `UnboundedTx`: the receiving side takes every item as it arrives, and is
/// dropped once it has taken `cap` items, so that the next `send` fails as it does in production when
/// the consumer is gone.
struct ScriptTx<T = Ev> {
    tx: UnboundedTx<T>,
    rx: Arc<Mutex<Option<UnboundedRx<T>>>>,
    cap: Option<usize>,
    taken: Arc<Mutex<usize>>,
    log: Log,
    show: fn(&Log, &T),
}

impl<T> Clone for ScriptTx<T> {
    fn clone(&self) -> Self {
        ScriptTx {
            tx: UnboundedTx::new(self.tx.tx.clone()),
            rx: self.rx.clone(),
            cap: self.cap,
            taken: self.taken.clone(),
            log: self.log.clone(),
            show: self.show,
        }
    }
}

impl<T> std::fmt::Debug for ScriptTx<T> {
    fn fmt(&self, f: &mut std::fmt::Formatter<'_>) -> std::fmt::Result {
        write!(f, "ScriptTx")
    }
}

impl<T> ScriptTx<T> {
    fn close_if_full(&self) {
        if Some(*self.taken.lock().unwrap()) == self.cap {
            *self.rx.lock().unwrap() = None;
        }
    }
}

impl<T: std::fmt::Debug + Clone + Send> Tx for ScriptTx<T> {
    type Item = T;
    type Error = tokio::sync::mpsc::error::SendError<T>;

    fn send<Item: Into<Self::Item>>(&self, item: Item) -> Result<(), Self::Error> {
        let res = self.tx.send(item);
        if res.is_ok() {
            let mut guard = self.rx.lock().unwrap();
            if let Some(rx) = guard.as_mut() {
                while let Ok(ev) = rx.rx.try_recv() {
                    (self.show)(&self.log, &ev);
                    *self.taken.lock().unwrap() += 1;
                }
            }
            drop(guard);
            self.close_if_full();
        }
        res
    }
}

// ------------------------------------------------------------------------------- one run

fn run_script(policy: &ReconnectionBackoffPolicy, mode: Mode, script: &[Conn]) -> Vec<String> {
    let rt = tokio::runtime::Builder::new_current_thread()
        .enable_time()
        .start_paused(true)
        .build()
        .unwrap();
    let policy = policy.clone();
    let script: Arc<Mutex<VecDeque<Conn>>> = Arc::new(Mutex::new(script.iter().cloned().collect()));
    rt.block_on(async move {
        let log = Log {
            lines: Arc::new(Mutex::new(vec![])),
            start: tokio::time::Instant::now(),
            key: "ev",
            origin: ExchangeId::BinanceSpot,
        };
        let initialised = Arc::new(Mutex::new(false));

        let init = {
            let log = log.clone();
            move || {
                let next = script.lock().unwrap().pop_front();
                let log = log.clone();
                async move {
                    match next {
                        None => {
                            futures::future::pending::<()>().await;
                            unreachable!()
                        }
                        Some(Conn::Fail) => {
                            log.push(format!("ev att {}", log.t()));
                            Err(())
                        }
                        Some(Conn::Ok(elems, hang)) => {
                            log.push(format!("ev att {}", log.t()));
                            Ok(inner_stream(elems, hang))
                        }
                    }
                }
            }
        };

        let key = StreamKey::new_general("c12", ExchangeId::BinanceSpot);
        let fut = {
            let log = log.clone();
            let initialised = initialised.clone();
            async move {
                let stream = match init_reconnecting_stream(init).await {
                    Ok(s) => s,
                    Err(()) => return "init-error",
                };
                *initialised.lock().unwrap() = true;
                let stream = stream
                    .with_reconnect_backoff(policy, key)
                    .with_termination_on_error(|e: &ScriptErr| e.terminal, key)
                    .with_reconnection_events(ExchangeId::BinanceSpot);
                match mode {
                    Mode::Events => {
                        let mut stream = Box::pin(stream);
                        while let Some(ev) = stream.next().await {
                            log.event(&ev);
                        }
                        "ended"
                    }
                    Mode::Handler => {
                        let hlog = log.clone();
                        let stream = stream.with_error_handler(move |e: ScriptErr| {
                            hlog.push(format!("ev handled {} {}", e.id, hlog.t()));
                        });
                        let mut stream = Box::pin(stream);
                        while let Some(ev) = stream.next().await {
                            let t = log.t();
                            log.push(match ev {
                                Event::Reconnecting(_) => format!("ev notice {t}"),
                                Event::Item(x) => format!("ev item {x} {t}"),
                            });
                        }
                        "ended"
                    }
                    Mode::Forward(cap) => {
                        let (tx, rx) = mpsc_unbounded::<Ev>();
                        let tx = ScriptTx {
                            tx,
                            rx: Arc::new(Mutex::new(Some(rx))),
                            cap,
                            taken: Arc::new(Mutex::new(0)),
                            log: log.clone(),
                            show: Log::event,
                        };
                        tx.close_if_full();
                        stream.forward_to(tx).await;
                        "ended"
                    }
                    Mode::HFwd(cap) => {
                        let hlog = log.clone();
                        let stream = stream.with_error_handler(move |e: ScriptErr| {
                            hlog.push(format!("ev handled {} {}", e.id, hlog.t()));
                        });
                        let (tx, rx) = mpsc_unbounded::<EvH>();
                        let tx = ScriptTx {
                            tx,
                            rx: Arc::new(Mutex::new(Some(rx))),
                            cap,
                            taken: Arc::new(Mutex::new(0)),
                            log: log.clone(),
                            show: Log::event_h,
                        };
                        tx.close_if_full();
                        stream.forward_to(tx).await;
                        "ended"
                    }
                    Mode::Duo(_) => unreachable!("mode duo runs in run_duo"),
                }
            }
        };

        // far beyond any scripted wait: when it fires the stream is pending for good
        let fin = match tokio::time::timeout(Duration::from_secs(100_000_000), fut).await {
            Ok(fin) => fin,
            Err(_) => {
                if *initialised.lock().unwrap() {
                    "pending"
                } else {
                    "init-pending"
                }
            }
        };
        let mut lines = log.lines.lock().unwrap().clone();
        // how many `ev` lines the run produced: the spec STATES the count (oracle review C12-M1), so
        // anything the stream does after the prescribed trace is a failure of its own key
        let evn = lines.iter().filter(|l| l.starts_with("ev ")).count();
        lines.push(format!("evn {evn}"));
        lines.push(format!("fin {fin}"));
        lines
    })
}


// ------------------------------------------------------------------------------- two live pipelines

fn scripted_init(
    script: &[Conn],
    log: Log,
) -> impl Fn() -> futures::future::BoxFuture<'static, Result<Inner, ()>> + Send + 'static {
    let script: Arc<Mutex<VecDeque<Conn>>> = Arc::new(Mutex::new(script.iter().cloned().collect()));
    move || {
        let next = script.lock().unwrap().pop_front();
        let log = log.clone();
        Box::pin(async move {
            match next {
                None => {
                    futures::future::pending::<()>().await;
                    unreachable!()
                }
                Some(Conn::Fail) => {
                    log.att();
                    Err(())
                }
                Some(Conn::Ok(elems, hang)) => {
                    log.att();
                    Ok(inner_stream(elems, hang))
                }
            }
        })
    }
}

/// One side of `mode duo`: the production assembly (init + back-off + termination + events) as a stream that
/// first initialises; a failed first init leaves the side silent for ever (so that it does not end the merge).
fn duo_side(
    policy: ReconnectionBackoffPolicy,
    key: StreamKey,
    script: &[Conn],
    log: Log,
    status: Arc<Mutex<&'static str>>,
    tag: bool,
) -> BoxStream<'static, (bool, Ev)> {
    let init = scripted_init(script, log.clone());
    let origin = log.origin;
    futures::stream::once(async move {
        match init_reconnecting_stream(init).await {
            Ok(s) => {
                *status.lock().unwrap() = "pending";
                Some(
                    s.with_reconnect_backoff(policy, key)
                        .with_termination_on_error(|e: &ScriptErr| e.terminal, key)
                        .with_reconnection_events(origin),
                )
            }
            Err(()) => {
                *status.lock().unwrap() = "init-error";
                None
            }
        }
    })
    .filter_map(std::future::ready)
    .flatten()
    .chain(futures::stream::pending())
    .map(move |ev| (tag, ev))
    .boxed()
}

/// Both pipelines live at once on ONE paused-clock runtime, merged by the real `merge()` and consumed by one
/// loop. Neither side ever ends, so each side's trace must be exactly what it is when run alone.
fn run_duo(
    pa: &ReconnectionBackoffPolicy,
    sa: &[Conn],
    pb: &ReconnectionBackoffPolicy,
    sb: &[Conn],
    same: bool,
) -> Vec<String> {
    let rt = tokio::runtime::Builder::new_current_thread()
        .enable_time()
        .start_paused(true)
        .build()
        .unwrap();
    let (pa, pb, sa, sb) = (pa.clone(), pb.clone(), sa.to_vec(), sb.to_vec());
    rt.block_on(async move {
        let lines = Arc::new(Mutex::new(vec![]));
        let start = tokio::time::Instant::now();
        let (oa, ob) = (
            ExchangeId::BinanceSpot,
            if same { ExchangeId::BinanceSpot } else { ExchangeId::Kraken },
        );
        let la = Log { lines: lines.clone(), start, key: "ev", origin: oa };
        let lb = Log { lines: lines.clone(), start, key: "bev", origin: ob };
        // the keys `init_market_stream` builds: equal for two subscription batches of one exchange and kind
        let ka = StreamKey::new("market_stream", oa, Some("public_trades"));
        let kb = StreamKey::new("market_stream", ob, Some("public_trades"));
        let (fa, fb) = (Arc::new(Mutex::new("init-pending")), Arc::new(Mutex::new("init-pending")));
        let a = duo_side(pa, ka, &sa, la.clone(), fa.clone(), true);
        let b = duo_side(pb, kb, &sb, lb.clone(), fb.clone(), false);
        let fut = async {
            let mut merged = Box::pin(merge(a, b));
            while let Some((left, ev)) = merged.next().await {
                if left { la.event(&ev) } else { lb.event(&ev) }
            }
        };
        let ended = tokio::time::timeout(Duration::from_secs(100_000_000), fut).await.is_ok();
        let all = lines.lock().unwrap().clone();
        let mut out = vec![];
        for (key, fin) in [("ev", fa), ("bev", fb)] {
            let mine: Vec<String> = all.iter().filter(|l| l.starts_with(&format!("{key} "))).cloned().collect();
            let n = mine.len();
            out.extend(mine);
            out.push(format!("{key}n {n}"));
            let fin = if ended { "ended" } else { *fin.lock().unwrap() };
            out.push(format!("{}fin {fin}", &key[..key.len() - 2]));
        }
        out
    })
}

// ------------------------------------------------------------------------------- merge

struct MergeRig {
    ltx: Option<UnboundedTx<(bool, u64)>>,
    rtx: Option<UnboundedTx<(bool, u64)>>,
    stream: Pin<Box<dyn Stream<Item = (bool, u64)>>>,
}

impl MergeRig {
    fn new() -> Self {
        let (ltx, lrx) = mpsc_unbounded::<(bool, u64)>();
        let (rtx, rrx) = mpsc_unbounded::<(bool, u64)>();
        MergeRig {
            ltx: Some(ltx),
            rtx: Some(rtx),
            stream: Box::pin(merge(lrx.into_stream(), rrx.into_stream())),
        }
    }
    fn poll(&mut self) -> String {
        let waker = futures::task::noop_waker_ref();
        let mut cx = Context::from_waker(waker);
        match self.stream.as_mut().poll_next(&mut cx) {
            Poll::Pending => "pending".into(),
            Poll::Ready(None) => "end".into(),
            Poll::Ready(Some((true, x))) => format!("L {x}"),
            Poll::Ready(Some((false, x))) => format!("R {x}"),
        }
    }
}

// ------------------------------------------------------------------------------- run

fn run() {
    run_cases(|case, lines| {
        let mut policy = ReconnectionBackoffPolicy::new(125, 2, 60000);
        let mut mode = Mode::Events;
        let mut script: Vec<Conn> = vec![];
        let mut bpolicy = ReconnectionBackoffPolicy::new(125, 2, 60000);
        let mut bscript: Vec<Conn> = vec![];
        let mut rig: Option<MergeRig> = None;
        for op in &case.ops {
            lines.push("@".into());
            match op[0].as_str() {
                "policy" => {
                    policy = ReconnectionBackoffPolicy::new(
                        op[1].parse().unwrap(),
                        op[2].parse().unwrap(),
                        op[3].parse().unwrap(),
                    );
                }
                "mode" => {
                    mode = match op[1].as_str() {
                        "events" => Mode::Events,
                        "handler" => Mode::Handler,
                        "forward" => Mode::Forward(if op[2] == "inf" {
                            None
                        } else {
                            Some(op[2].parse().unwrap())
                        }),
                        "hfwd" => Mode::HFwd(if op[2] == "inf" {
                            None
                        } else {
                            Some(op[2].parse().unwrap())
                        }),
                        "duo" => Mode::Duo(match op[2].as_str() {
                            "same" => true,
                            "diff" => false,
                            other => panic!("bad duo {other}"),
                        }),
                        other => panic!("bad mode {other}"),
                    }
                }
                "bpolicy" => {
                    bpolicy = ReconnectionBackoffPolicy::new(
                        op[1].parse().unwrap(),
                        op[2].parse().unwrap(),
                        op[3].parse().unwrap(),
                    );
                }
                "bconn" => {
                    bscript.push(parse_conn(&op[1..]));
                }
                "conn" => {
                    script.push(parse_conn(&op[1..]));
                    match mode {
                        Mode::Duo(same) => lines.extend(run_duo(&policy, &script, &bpolicy, &bscript, same)),
                        _ => lines.extend(run_script(&policy, mode, &script)),
                    }
                }
                "l" | "r" => {
                    let rig = rig.get_or_insert_with(MergeRig::new);
                    let left = op[0] == "l";
                    let x: u64 = op[1].parse().unwrap();
                    match if left { &rig.ltx } else { &rig.rtx } {
                        Some(tx) => {
                            // once the merged stream has ended its `Fuse` drops both receivers
                            if tx.send((left, x)).is_err() {
                                lines.push("gone".into())
                            }
                        }
                        None => lines.push("closed".into()),
                    }
                }
                "lend" => {
                    rig.get_or_insert_with(MergeRig::new).ltx = None;
                }
                "rend" => {
                    rig.get_or_insert_with(MergeRig::new).rtx = None;
                }
                "poll" => {
                    let o = rig.get_or_insert_with(MergeRig::new).poll();
                    lines.push(format!("out {o}"));
                }
                "drain" => {
                    let rig = rig.get_or_insert_with(MergeRig::new);
                    let (mut gl, mut gr) = (vec![], vec![]);
                    let fin;
                    loop {
                        let o = rig.poll();
                        lines.push(format!("out {o}"));
                        if let Some(x) = o.strip_prefix("L ") {
                            gl.push(x.to_string());
                        } else if let Some(x) = o.strip_prefix("R ") {
                            gr.push(x.to_string());
                        } else {
                            fin = o;
                            break;
                        }
                    }
                    lines.push(format!("gotL {}", gl.join(" ")));
                    lines.push(format!("gotR {}", gr.join(" ")));
                    lines.push(format!("dfin {fin}"));
                }
                other => panic!("bad op {other}"),
            }
        }
    });
}

// ------------------------------------------------------------------------------- generators

fn gen_elems(rng: &mut Rng, max_len: i64, terminal_pct: u64) -> String {
    let len = rng.range(0, max_len);
    let mut toks = vec![];
    for _ in 0..len {
        let r = rng.below(100);
        // few distinct payloads so that duplicates across and within connections occur
        let x = rng.below(4) + 1;
        if r < terminal_pct {
            toks.push(format!("T{x}"));
        } else if r < terminal_pct + 15 {
            toks.push(format!("e{x}"));
        } else if r < terminal_pct + 25 {
            toks.push(format!("d{}", rng.pick(&[0u64, 1, 7, 50])));
        } else {
            toks.push(format!("i{x}"));
        }
    }
    toks.join(" ")
}

fn gen_conn(rng: &mut Rng, fail_pct: u64, max_len: i64, terminal_pct: u64, hang_pct: u64) -> String {
    if rng.chance(fail_pct) {
        "conn fail".into()
    } else {
        let e = gen_elems(rng, max_len, terminal_pct);
        let hang = if rng.chance(hang_pct) { " hang" } else { "" };
        format!("conn ok {e}{hang}").replace("  ", " ").trim_end().to_string()
    }
}

fn gen_policy(rng: &mut Rng) -> String {
    // includes mult 0/1, initial 0, initial > max, max 0
    let initial = *rng.pick(&[0u64, 1, 10, 100, 125, 700]);
    let mult = *rng.pick(&[0u64, 1, 2, 2, 3, 10]);
    let max = *rng.pick(&[0u64, 5, 500, 500, 1000, 60000]);
    format!("policy {initial} {mult} {max}")
}

fn gen_mode(rng: &mut Rng) -> String {
    match rng.below(10) {
        0..=4 => "mode events".into(),
        5..=7 => "mode handler".into(),
        8 => "mode forward inf".into(),
        _ => format!("mode forward {}", rng.below(8)),
    }
}

fn generate(seed: u64, n_cases: usize, tier: &str) {
    let mut out = Out::new();
    let mut rng = Rng::new(seed);
    let mut id = 0usize;
    let thorough = tier == "thorough";
    if thorough {
        // small-scope exhaustive: every script of <= 4 connections over a 7-symbol alphabet, two
        // policies, events mode
        let alphabet = [
            "conn fail",
            "conn ok",
            "conn ok i1",
            "conn ok i1 T2 i3",
            "conn ok e1 i2",
            "conn ok i1 hang",
            "conn ok T1 hang",
        ];
        for pol in ["policy 100 3 500", "policy 700 2 500"] {
            for len in 1..=4usize {
                let total = alphabet.len().pow(len as u32);
                for mut code in 0..total {
                    id += 1;
                    out.case(format!("x{id}"));
                    out.line(pol);
                    out.line("mode events");
                    for _ in 0..len {
                        out.line(alphabet[code % alphabet.len()]);
                        code /= alphabet.len();
                    }
                }
            }
        }
        // merge: every history of length <= 6 over {l, r, lend, rend, poll} followed by a drain
        let m = ["l", "r", "lend", "rend", "poll"];
        for len in 0..=6usize {
            let total = m.len().pow(len as u32);
            for mut code in 0..total {
                id += 1;
                out.case(format!("y{id}"));
                let mut k = 0;
                for _ in 0..len {
                    let s = m[code % m.len()];
                    code /= m.len();
                    if s == "l" || s == "r" {
                        k += 1;
                        out.line(format!("{s} {k}"));
                    } else {
                        out.line(s);
                    }
                }
                out.line("drain");
                out.line("poll");
            }
        }
    }
    for _ in 0..n_cases {
        id += 1;
        if rng.chance(30) {
            // merge case
            out.case(format!("m{id}"));
            let len = rng.range(1, if thorough { 60 } else { 30 });
            let close_pct = *rng.pick(&[0u64, 3, 10]);
            let mut k = 0u64;
            for _ in 0..len {
                let r = rng.below(100);
                if r < close_pct {
                    out.line(*rng.pick(&["lend", "rend"]));
                } else if r < close_pct + 35 {
                    out.line("poll");
                } else if r < close_pct + 45 {
                    out.line("drain");
                } else {
                    k += 1;
                    let side = if rng.chance(50) { "l" } else { "r" };
                    out.line(format!("{side} {k}"));
                }
            }
            out.line("drain");
            continue;
        }
        out.case(format!("r{id}"));
        out.line(gen_policy(&mut rng));
        out.line(gen_mode(&mut rng));
        let n_conn = rng.range(1, if thorough { 12 } else { 8 });
        let fail_pct = *rng.pick(&[20u64, 50, 75]);
        let terminal_pct = *rng.pick(&[0u64, 10, 30]);
        let hang_pct = *rng.pick(&[0u64, 10, 30]);
        // the first connection mostly succeeds, otherwise nothing else is reachable
        out.line(gen_conn(&mut rng, 8, 5, terminal_pct, hang_pct / 3));
        for _ in 1..n_conn {
            out.line(gen_conn(&mut rng, fail_pct, 5, terminal_pct, hang_pct / 3));
        }
    }
    gen_domain_families(seed, n_cases, thorough, &mut id, &mut out);
    gen_cfg_families(seed, n_cases, thorough, &mut id, &mut out);
    out.flush();
}

// ------------------------------------------------------------- set-up shape families (configuration audit)
//
// Separately seeded, appended AFTER everything else. Assemblies a user of the API builds and the cases above
// never do: `cfgduo` - TWO reconnecting pipelines alive at once on one runtime (own script, own policy; equal
// or different `StreamKey` / origin), merged by the real `merge()` as `ExecutionManager::init` and the
// multi-exchange builders do; `cfghfwd` - events -> with_error_handler -> forward_to, the assembly of
// `SystemBuilder` and of every example (handler and forward_to were only ever run one at a time).
fn gen_cfg_families(seed: u64, n_cases: usize, thorough: bool, id: &mut usize, out: &mut Out) {
    let mut rng = Rng::new(seed ^ 0xCF6_0C12_5E7_0B5);
    let n_extra = if thorough { n_cases / 12 } else { std::cmp::max(36, n_cases / 8) };
    for k in 0..n_extra {
        *id += 1;
        if k % 3 == 2 {
            out.case(format!("cfghfwd{id}"));
            out.line(gen_policy(&mut rng));
            out.line(if rng.chance(30) {
                "mode hfwd inf".to_string()
            } else {
                format!("mode hfwd {}", rng.below(8))
            });
            let n_conn = rng.range(1, if thorough { 10 } else { 7 });
            let fail_pct = *rng.pick(&[20u64, 50]);
            out.line(gen_conn(&mut rng, 5, 5, 15, 5));
            for _ in 1..n_conn {
                out.line(gen_conn(&mut rng, fail_pct, 5, 15, 5));
            }
            continue;
        }
        out.case(format!("cfgduo{id}"));
        out.line(gen_policy(&mut rng));
        out.line(format!("b{}", gen_policy(&mut rng)));
        out.line(if rng.chance(60) { "mode duo same" } else { "mode duo diff" });
        let fail_pct = *rng.pick(&[30u64, 50, 75]);
        let terminal_pct = *rng.pick(&[0u64, 10, 30]);
        // the second pipeline first (mostly alive), then both scripts grow in a drawn interleaving
        if !rng.chance(10) {
            out.line(format!("b{}", gen_conn(&mut rng, 8, 4, terminal_pct, 5)));
        }
        out.line(gen_conn(&mut rng, 8, 4, terminal_pct, 5));
        let steps = rng.range(2, if thorough { 12 } else { 8 });
        for _ in 0..steps {
            if rng.chance(50) {
                out.line(format!("b{}", gen_conn(&mut rng, fail_pct, 4, terminal_pct, 5)));
            } else {
                out.line(gen_conn(&mut rng, fail_pct, 4, terminal_pct, 5));
            }
        }
        out.line(gen_conn(&mut rng, fail_pct, 4, terminal_pct, 10));
    }
}

// ------------------------------------------------------------- input-domain families (domain audit)
//
// Separately seeded, appended AFTER the random cases (which stay what they were). Classes the random
// generator above never reaches: failure runs long enough to hit the cap of slowly growing policies
// (and to stay there), scripts of >= 50 connections, back-off values beyond u32, multiplier = u8::MAX,
// initial == max / initial * mult^k == max (+-1), connections with tens of elements, bursts of
// non-terminal errors, payloads 0 and u64::MAX, merge inputs with equal / repeated payloads and very
// unbalanced lengths, an input ending at every position of a long history.
//
// Virtual time of a run must stay below 29 * 2^30 ms (3.1e10): beyond it tokio's paused-clock timer wheel
// (6 levels x 6 bits of ms; the harness's own far-future timeout sits in its top level) panics in
// `Wheel::set_elapsed` — a limit of tokio's test clock, not of the code under test. The big-value
// family therefore keeps the sum of its waits below 2.6e10 ms.

const U64_MAX: u64 = u64::MAX;

fn gen_payload(rng: &mut Rng) -> u64 {
    *rng.pick(&[0u64, 0, 1, 1, 2, 3, U64_MAX, U64_MAX, 4294967296, 9223372036854775808])
}

/// a connection with `len` elements: items with error bursts, optionally a terminal error at `t_at`
fn gen_long_conn(rng: &mut Rng, len: usize, t_at: Option<usize>, hang: bool) -> String {
    let mut toks = vec![];
    let mut k = 0;
    while k < len {
        if Some(k) == t_at {
            toks.push(format!("T{}", gen_payload(rng)));
            k += 1;
        } else if rng.chance(12) {
            // a burst of non-terminal errors, mostly with one id
            let id = gen_payload(rng);
            for _ in 0..rng.range(3, 9) {
                toks.push(format!("e{}", if rng.chance(80) { id } else { gen_payload(rng) }));
                k += 1;
            }
        } else if rng.chance(5) {
            toks.push(format!("d{}", rng.pick(&[0u64, 1, 999, 60000])));
            k += 1;
        } else {
            toks.push(format!("i{}", gen_payload(rng)));
            k += 1;
        }
    }
    format!("conn ok {}{}", toks.join(" "), if hang { " hang" } else { "" })
}

fn gen_domain_families(seed: u64, n_cases: usize, thorough: bool, id: &mut usize, out: &mut Out) {
    let mut rng = Rng::new(seed ^ 0xD0_12_D0_12_5EED);
    let n_extra = if thorough { n_cases / 10 } else { std::cmp::max(48, n_cases / 5) };
    for k in 0..n_extra {
        *id += 1;
        match k % 6 {
            0 => {
                // long failure runs: cap reached late (and held), then a success (reset), then again
                out.case(format!("dfail{id}"));
                out.line(*rng.pick(&[
                    "policy 125 2 60000",
                    "policy 1 2 60000",
                    "policy 1 255 1000000",
                    "policy 7 3 100000",
                    "policy 500 2 500",
                    "policy 0 5 100",
                    "policy 3 1 1000",
                    "policy 1 2 100000000",
                    "policy 1000 10 999999",
                ]));
                out.line(gen_mode(&mut rng));
                out.line(gen_conn(&mut rng, 0, 3, 10, 0));
                let run = rng.range(12, if thorough { 70 } else { 40 });
                for _ in 0..run {
                    out.line("conn fail");
                }
                out.line(gen_conn(&mut rng, 0, 3, 10, 0));
                for _ in 0..rng.range(0, 12) {
                    out.line(gen_conn(&mut rng, 80, 2, 10, 0));
                }
                if rng.chance(50) {
                    out.line("conn ok i1 hang");
                }
            }
            1 => {
                // long scripts: >= 50 connections
                out.case(format!("dlong{id}"));
                out.line(gen_policy(&mut rng));
                out.line(gen_mode(&mut rng));
                let n_conn = rng.range(50, if thorough { 90 } else { 60 });
                let fail_pct = *rng.pick(&[20u64, 50, 75]);
                out.line(gen_conn(&mut rng, 0, 3, 20, 0));
                for _ in 1..n_conn {
                    out.line(gen_conn(&mut rng, fail_pct, 3, 20, 0));
                }
            }
            2 => {
                // back-off values beyond u32 / multiplier u8::MAX; at most 3 failures in all (virtual-time bound)
                out.case(format!("dbig{id}"));
                let initial = *rng.pick(&[4294967295u64, 4294967296, 4294967297, 5000000000, 1000000]);
                let mult = *rng.pick(&[1u64, 2, 255]);
                let max = *rng.pick(&[4294967296u64, 4294967297, 5000000000, 8589934592]);
                out.line(format!("policy {initial} {mult} {max}"));
                out.line(gen_mode(&mut rng));
                let mut fails = 0;
                out.line(gen_conn(&mut rng, 0, 3, 10, 0));
                for _ in 0..rng.range(2, 7) {
                    if fails < 3 && rng.chance(60) {
                        fails += 1;
                        out.line("conn fail");
                    } else {
                        out.line(gen_conn(&mut rng, 0, 3, 20, 0));
                    }
                }
            }
            3 => {
                // boundary-exact policies: initial == max, initial * mult^k == max, one off either side
                out.case(format!("dedge{id}"));
                out.line(*rng.pick(&[
                    "policy 500 2 500",
                    "policy 1 1 1",
                    "policy 60000 2 60000",
                    "policy 1 0 1",
                    "policy 125 4 500",
                    "policy 125 2 1000",
                    "policy 125 2 999",
                    "policy 125 2 1001",
                    "policy 100 3 899",
                    "policy 100 3 900",
                    "policy 100 3 901",
                    "policy 1 255 65025",
                    "policy 1 255 65024",
                    "policy 1 255 65026",
                    "policy 2 255 130050",
                    "policy 501 2 500",
                    "policy 499 2 500",
                    "policy 0 255 0",
                    "policy 1 2 0",
                ]));
                out.line(gen_mode(&mut rng));
                out.line(gen_conn(&mut rng, 0, 2, 10, 0));
                for _ in 0..rng.range(1, 3) {
                    for _ in 0..rng.range(2, 7) {
                        out.line("conn fail");
                    }
                    out.line(gen_conn(&mut rng, 0, 2, 10, 0));
                }
            }
            4 => {
                // long connections, error bursts, payload extremes, large forward capacities
                out.case(format!("dconn{id}"));
                out.line(gen_policy(&mut rng));
                out.line(match rng.below(4) {
                    0 => "mode events".to_string(),
                    1 => "mode handler".to_string(),
                    _ => format!("mode forward {}", rng.pick(&[10u64, 25, 50, 100, 1000])),
                });
                for _ in 0..rng.range(1, 4) {
                    let len = rng.range(20, if thorough { 120 } else { 60 }) as usize;
                    let t_at = match rng.below(5) {
                        0 => Some(0),
                        1 => Some(len - 1),
                        2 => Some(rng.below(len as u64) as usize),
                        _ => None,
                    };
                    let hang = rng.chance(15);
                    out.line(gen_long_conn(&mut rng, len, t_at, hang));
                    if rng.chance(50) {
                        out.line("conn fail");
                    }
                }
                out.line("conn ok i7");
            }
            _ => {
                // merge: few distinct payloads (equal on both sides, repeated within a side, 0, u64::MAX), very
                // unbalanced lengths, one side (or both) never sending, an input ending at a chosen position of a
                // long history, sends after the end
                out.case(format!("dmerge{id}"));
                let (nl, nr) = match rng.below(6) {
                    0 => (rng.range(40, 80), 0),
                    1 => (0, rng.range(40, 80)),
                    2 => (rng.range(40, 80), 1),
                    3 => (1, rng.range(40, 80)),
                    4 => (0, 0),
                    _ => (rng.range(5, 30), rng.range(5, 30)),
                };
                let total = (nl + nr) as u64;
                let end_at = rng.below(total + 2);
                let end_op = *rng.pick(&["lend", "rend"]);
                let poll_pct = *rng.pick(&[0u64, 20, 50, 100]);
                let pool: &[u64] = if rng.chance(50) { &[1, 1, 1, 2] } else { &[0, 1, U64_MAX, U64_MAX] };
                let (mut l, mut r) = (nl, nr);
                let mut sent = 0u64;
                loop {
                    if sent == end_at {
                        out.line(end_op);
                    }
                    if l + r == 0 {
                        break;
                    }
                    let left = if l == 0 {
                        false
                    } else if r == 0 {
                        true
                    } else {
                        rng.below((l + r) as u64) < l as u64
                    };
                    if left {
                        l -= 1;
                    } else {
                        r -= 1;
                    }
                    out.line(format!("{} {}", if left { "l" } else { "r" }, rng.pick(pool)));
                    sent += 1;
                    if rng.chance(poll_pct) {
                        out.line(if rng.chance(10) { "drain" } else { "poll" });
                    }
                }
                if end_at > total {
                    out.line(end_op);
                }
                out.line("drain");
                if rng.chance(50) {
                    out.line(if end_op == "lend" { "rend" } else { "lend" });
                    out.line("drain");
                }
                out.line("l 1");
                out.line("r 1");
                out.line("poll");
            }
        }
    }
}

fn main() {
    let a = args();
    match a.cmd.as_str() {
        "gen" => generate(a.seed, a.n, &a.tier),
        "run" => run(),
        _ => {
            eprintln!("usage: c12 gen <seed> <n> <tier> | run < cases");
            std::process::exit(2)
        }
    }
}
