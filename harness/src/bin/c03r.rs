//! C03R — risk-check utilities and default risk manager (sub-check of C03).
//!
//! Every op is independent and calls the REAL functions of `barter::risk`:
//!   `chk dec|int|f64 <limit> <input>`   `CheckHigherThan::<Decimal|i64|f64>::new(limit).check(&input)`, `name()`
//!   `notional <q> <p> <cs>`             `calculate_quote_notional`
//!   `notionalk <kind> <cs> <q> <p>`     `InstrumentKind::contract_size()` fed into `calculate_quote_notional`
//!                                       (kind: spot perp fut opt | opt-put-eu opt-put-am opt-put-bm opt-call-am opt-call-bm perp-s7 fut-s7)
//!   `apd <current> <other>`             `calculate_abs_percent_difference`
//!   `delta <d> <cs> <B|S> <q>`          `calculate_delta` (panics are caught per op and printed as `panic`)
//!   `rm <state> C <cancel>… O <open>…`  `DefaultRiskManager::<u64>::default().check(&state, cancels, opens)`
//!   `appr <int>` / `refuse <int> <rec|unrec>` / `refuses <int> <word>`   the wrapper types
//! Observation lines as documented in `lean/BarterModel/Driver/C03R.lean`.
use barter::{
    engine::error::{EngineError, RecoverableEngineError, UnrecoverableEngineError},
    risk::{
        DefaultRiskManager, RiskApproved, RiskManager, RiskRefused,
        check::{
            CheckHigherThan, RiskCheck,
            util::{calculate_abs_percent_difference, calculate_delta, calculate_quote_notional},
        },
    },
};
use barter_execution::order::{
    OrderEvent, OrderKey, OrderKind, TimeInForce,
    id::{ClientOrderId, OrderId, StrategyId},
    request::{OrderRequestCancel, OrderRequestOpen, RequestCancel, RequestOpen},
};
use barter_instrument::{
    Side,
    exchange::ExchangeIndex,
    instrument::{
        InstrumentIndex,
        kind::{
            InstrumentKind,
            future::FutureContract,
            option::{OptionContract, OptionExercise, OptionKind},
            perpetual::PerpetualContract,
        },
    },
};
use barter_integration::Unrecoverable;
use rust_decimal::Decimal;
use vh::*;

fn s2s(s: Side) -> &'static str {
    match s {
        Side::Buy => "B",
        Side::Sell => "S",
    }
}

fn parse_side(s: &str) -> Side {
    match s {
        "B" => Side::Buy,
        "S" => Side::Sell,
        other => panic!("bad side {other}"),
    }
}

fn parse_f64(s: &str) -> f64 {
    s.parse::<f64>().unwrap_or_else(|e| panic!("bad f64 {s:?}: {e}"))
}

fn fmt_f64(x: f64) -> String {
    if x.is_nan() {
        "nan".into()
    } else if x.is_infinite() {
        if x > 0.0 { "inf".into() } else { "-inf".into() }
    } else {
        fmt_dec(Decimal::from_f64_retain(x).expect("finite f64"))
    }
}

fn check_lines<T, F>(limit: T, input: T, fmt: F, lines: &mut Vec<String>) -> Option<String>
where
    T: Clone + PartialOrd + std::fmt::Display,
    F: Fn(&T) -> String,
{
    lines.push(format!("name {}", <CheckHigherThan<T> as RiskCheck>::name()));
    let check = CheckHigherThan::new(limit);
    match check.check(&input) {
        Ok(()) => {
            lines.push("check ok".into());
            None
        }
        Err(e) => {
            lines.push(format!("check fail {} {}", fmt(&e.limit), fmt(&e.input)));
            Some(e.to_string().replace(' ', "_"))
        }
    }
}

fn parse_cancel(t: &str) -> OrderRequestCancel<ExchangeIndex, InstrumentIndex> {
    let f: Vec<&str> = t.split(':').collect();
    assert_eq!(f.len(), 5, "bad cancel {t}");
    OrderEvent {
        key: OrderKey {
            exchange: ExchangeIndex(f[0].parse().unwrap()),
            instrument: InstrumentIndex(f[1].parse().unwrap()),
            strategy: StrategyId::new(f[2]),
            cid: ClientOrderId::new(f[3]),
        },
        state: RequestCancel {
            id: if f[4] == "-" { None } else { Some(OrderId::new(f[4])) },
        },
    }
}

fn fmt_key(k: &OrderKey<ExchangeIndex, InstrumentIndex>) -> String {
    format!(
        "{}:{}:{}:{}",
        k.exchange.index(),
        k.instrument.index(),
        k.strategy.0,
        k.cid.0
    )
}

fn fmt_cancel(r: &OrderRequestCancel<ExchangeIndex, InstrumentIndex>) -> String {
    format!(
        "{}:{}",
        fmt_key(&r.key),
        r.state.id.as_ref().map(|i| i.0.to_string()).unwrap_or_else(|| "-".into())
    )
}

fn parse_open(t: &str) -> OrderRequestOpen<ExchangeIndex, InstrumentIndex> {
    let f: Vec<&str> = t.split(':').collect();
    assert_eq!(f.len(), 9, "bad open {t}");
    OrderEvent {
        key: OrderKey {
            exchange: ExchangeIndex(f[0].parse().unwrap()),
            instrument: InstrumentIndex(f[1].parse().unwrap()),
            strategy: StrategyId::new(f[2]),
            cid: ClientOrderId::new(f[3]),
        },
        state: RequestOpen {
            side: parse_side(f[4]),
            price: parse_dec(f[5]),
            quantity: parse_dec(f[6]),
            kind: match f[7] {
                "M" => OrderKind::Market,
                "L" => OrderKind::Limit,
                other => panic!("bad kind {other}"),
            },
            time_in_force: match f[8] {
                "gtc" => TimeInForce::GoodUntilCancelled { post_only: false },
                "gtcp" => TimeInForce::GoodUntilCancelled { post_only: true },
                "day" => TimeInForce::GoodUntilEndOfDay,
                "fok" => TimeInForce::FillOrKill,
                "ioc" => TimeInForce::ImmediateOrCancel,
                other => panic!("bad tif {other}"),
            },
        },
    }
}

fn fmt_open(r: &OrderRequestOpen<ExchangeIndex, InstrumentIndex>) -> String {
    format!(
        "{}:{}:{}:{}:{}:{}",
        fmt_key(&r.key),
        s2s(r.state.side),
        fmt_dec(r.state.price),
        fmt_dec(r.state.quantity),
        match r.state.kind {
            OrderKind::Market => "M",
            OrderKind::Limit => "L",
        },
        match r.state.time_in_force {
            TimeInForce::GoodUntilCancelled { post_only: false } => "gtc",
            TimeInForce::GoodUntilCancelled { post_only: true } => "gtcp",
            TimeInForce::GoodUntilEndOfDay => "day",
            TimeInForce::FillOrKill => "fok",
            TimeInForce::ImmediateOrCancel => "ioc",
        }
    )
}

fn list_line(key: &str, items: Vec<String>) -> String {
    let mut s = key.to_string();
    for i in items {
        s.push(' ');
        s.push_str(&i);
    }
    s
}

fn kind_of(k: &str, cs: Decimal) -> InstrumentKind<u8> {
    let expiry = chrono::DateTime::<chrono::Utc>::from_timestamp(1_700_000_000, 0).unwrap();
    match k {
        "spot" => InstrumentKind::Spot,
        "perp" => InstrumentKind::Perpetual(PerpetualContract {
            contract_size: cs,
            settlement_asset: 0,
        }),
        "fut" => InstrumentKind::Future(FutureContract {
            contract_size: cs,
            settlement_asset: 0,
            expiry,
        }),
        "opt" => InstrumentKind::Option(OptionContract {
            contract_size: cs,
            settlement_asset: 0,
            kind: OptionKind::Call,
            exercise: OptionExercise::European,
            expiry,
            strike: Decimal::ONE_HUNDRED,
        }),
        // configuration-shape variants (`cfg` family): the other option kinds / exercise styles and another
        // settlement asset - `contract_size()` must not depend on any of them
        "opt-put-eu" | "opt-put-am" | "opt-put-bm" | "opt-call-am" | "opt-call-bm" => InstrumentKind::Option(OptionContract {
            contract_size: cs,
            settlement_asset: 7,
            kind: if k.starts_with("opt-put") { OptionKind::Put } else { OptionKind::Call },
            exercise: match &k[k.len() - 2..] {
                "am" => OptionExercise::American,
                "bm" => OptionExercise::Bermudan,
                _ => OptionExercise::European,
            },
            expiry: chrono::DateTime::<chrono::Utc>::from_timestamp(0, 0).unwrap(),
            strike: Decimal::ZERO,
        }),
        "perp-s7" => InstrumentKind::Perpetual(PerpetualContract { contract_size: cs, settlement_asset: 7 }),
        "fut-s7" => InstrumentKind::Future(FutureContract {
            contract_size: cs,
            settlement_asset: 7,
            expiry: chrono::DateTime::<chrono::Utc>::from_timestamp(0, 0).unwrap(),
        }),
        other => panic!("bad kind {other}"),
    }
}

pub const CFG_KINDS: &[&str] = &["opt-put-eu", "opt-put-am", "opt-put-bm", "opt-call-am", "opt-call-bm", "perp-s7", "fut-s7"];

fn run() {
    run_cases(|case, lines| {
        for op in case.ops.iter() {
            lines.push("@".into());
            let a: Vec<&str> = op.iter().map(|s| s.as_str()).collect();
            match a.as_slice() {
                ["chk", "dec", l, i] => {
                    check_lines(parse_dec(l), parse_dec(i), |d| fmt_dec(*d), lines);
                }
                ["chk", "int", l, i] => {
                    let (l, i): (i64, i64) = (l.parse().unwrap(), i.parse().unwrap());
                    if let Some(msg) = check_lines(l, i, |x| x.to_string(), lines) {
                        lines.push(format!("msg {msg}"));
                    }
                }
                ["chk", "f64", l, i] => {
                    check_lines(parse_f64(l), parse_f64(i), |x| fmt_f64(*x), lines);
                }
                ["notional", q, p, c] => {
                    let r = calculate_quote_notional(parse_dec(q), parse_dec(p), parse_dec(c));
                    lines.push(format!("notional {}", fmt_opt_dec(r)));
                }
                ["notionalk", k, c, q, p] => {
                    let kind = kind_of(k, parse_dec(c));
                    let cs = kind.contract_size();
                    lines.push(format!("csize {}", fmt_dec(cs)));
                    let r = calculate_quote_notional(parse_dec(q), parse_dec(p), cs);
                    lines.push(format!("notional {}", fmt_opt_dec(r)));
                }
                ["apd", c, o] => {
                    let r = calculate_abs_percent_difference(parse_dec(c), parse_dec(o));
                    lines.push(format!("apd {}", fmt_opt_dec_approx(r)));
                }
                ["delta", d, c, sd, q] => {
                    let (d, c, sd, q) = (parse_dec(d), parse_dec(c), parse_side(sd), parse_dec(q));
                    // `Decimal`'s unchecked `*` panics on overflow: an observation of this op only
                    match std::panic::catch_unwind(|| calculate_delta(d, c, sd, q)) {
                        Ok(v) => lines.push(format!("delta {}", fmt_dec(v))),
                        Err(_) => lines.push("panic".into()),
                    }
                }
                ["rm", st, rest @ ..] => {
                    let state: u64 = st.parse().unwrap();
                    assert_eq!(rest.first(), Some(&"C"), "rm: expected C");
                    let split = rest.iter().position(|t| *t == "O").expect("rm: expected O");
                    let cancels: Vec<_> = rest[1..split].iter().map(|t| parse_cancel(t)).collect();
                    let opens: Vec<_> = rest[split + 1..].iter().map(|t| parse_open(t)).collect();
                    let rm = DefaultRiskManager::<u64>::default();
                    let (ac, ao, rc, ro) = rm.check(&state, cancels, opens);
                    lines.push(list_line(
                        "ac",
                        ac.into_iter().map(|r| fmt_cancel(&r.into_item())).collect(),
                    ));
                    lines.push(list_line(
                        "ao",
                        ao.into_iter().map(|r| fmt_open(&r.into_item())).collect(),
                    ));
                    lines.push(list_line(
                        "rc",
                        rc.into_iter().map(|r| fmt_cancel(&r.into_item())).collect(),
                    ));
                    lines.push(list_line(
                        "ro",
                        ro.into_iter().map(|r| fmt_open(&r.into_item())).collect(),
                    ));
                }
                ["appr", x] => {
                    let x: i64 = x.parse().unwrap();
                    let a = RiskApproved::new(x);
                    lines.push(format!("item {}", a.clone().into_item()));
                    lines.push(format!("disp {a}"));
                }
                ["refuse", x, k] => {
                    let x: i64 = x.parse().unwrap();
                    let reason = match *k {
                        "rec" => EngineError::Recoverable(
                            RecoverableEngineError::ExecutionChannelUnhealthy("x".into()),
                        ),
                        "unrec" => EngineError::Unrecoverable(UnrecoverableEngineError::Custom("x".into())),
                        other => panic!("bad reason {other}"),
                    };
                    let r = RiskRefused { item: x, reason };
                    let unrec = r.is_unrecoverable();
                    lines.push(format!("item {}", r.into_item()));
                    lines.push(format!("unrec {}", unrec as u8));
                }
                ["refuses", x, w] => {
                    let x: i64 = x.parse().unwrap();
                    let r = RiskRefused::new(x, *w);
                    let reason = r.reason.clone();
                    lines.push(format!("item {}", r.into_item()));
                    lines.push(format!("reason {reason}"));
                }
                other => panic!("bad op {other:?}"),
            }
        }
    });
}

// ------------------------------------------------------------------------------------------ generator

const MAX: &str = "79228162514264337593543950335";
const HUGE_INT: &[&str] = &[
    MAX,
    "-79228162514264337593543950335",
    "39614081257132168796771975168", // 2^95
    "39614081257132168796771975167", // 2^95 - 1
    "7922816251426433759354395033",  // floor(MAX / 10)
    "7922816251426433759354395034",
    "10000000000000000000000000000", // 1e28
    "1000000000000000",              // 1e15
    "100000000000000",               // 1e14
    "-1000000000000000",
];
const SMALL_INT: &[&str] = &["0", "1", "2", "-1", "-2", "3", "10"];
const POW10: &[&str] = &["10000000000000000000000000000", "1000000000000000", "100000000000000", "10", "1"];
const NEGPOW10: &[&str] = &["0.0001", "0.1", "0.0000000001", "-0.0001"];
/// small decimals (scale <= 2, few distinct values so that equal / adjacent values collide)
const POOL: &[&str] = &[
    "0", "0.5", "1", "1.5", "2", "2.5", "10", "100", "100.5", "99.5", "0.05", "0.1", "-1", "-0.5", "-100", "50", "50.01", "49.99",
];

fn small(rng: &mut Rng) -> String {
    if rng.chance(70) {
        rng.pick(POOL).to_string()
    } else {
        let scale = rng.range(0, 4) as u32;
        let m = rng.range(-99999, 99999);
        dec_str(m, scale)
    }
}

fn positive(rng: &mut Rng) -> String {
    loop {
        let s = small(rng);
        if !s.starts_with('-') && parse_dec(&s) != Decimal::ZERO {
            return s;
        }
    }
}

fn huge_or_small_int(rng: &mut Rng) -> String {
    if rng.chance(60) {
        rng.pick(HUGE_INT).to_string()
    } else {
        rng.pick(SMALL_INT).to_string()
    }
}

/// a value next to `x`: equal, one unit of the last place above / below, or unrelated
fn near(rng: &mut Rng, x: &str) -> String {
    let d = parse_dec(x);
    let ulp = Decimal::new(1, d.scale().max(2));
    match rng.below(5) {
        0 | 1 => d.normalize().to_string(),
        2 => (d + ulp).normalize().to_string(),
        3 => (d - ulp).normalize().to_string(),
        _ => small(rng),
    }
}

fn f64_tok(rng: &mut Rng) -> String {
    if rng.chance(20) {
        "nan".into()
    } else if rng.chance(15) {
        rng.pick(&["inf", "-inf", "-0.0"]).to_string()
    } else {
        // multiples of 1/4: exact in binary and in decimal
        dec_str(rng.range(-12, 12) * 25, 2)
    }
}

/// Mantissas at the edge of the 96-bit range and around the powers of two at which `rust_decimal`'s
/// multiplication switches paths (32 / 64 bits), plus the small odd ones that make exact ties.
const EDGE_MANT: &[u128] = &[
    79228162514264337593543950335, // 2^96 - 1
    79228162514264337593543950334,
    39614081257132168796771975168, // 2^95
    39614081257132168796771975167,
    7922816251426433759354395033,  // floor(MAX / 10)
    7922816251426433759354395034,
    26409387504754779197847983445, // MAX / 3
    10000000000000000000000000000, // 1e28
    9999999999999999999999999999,
    18446744073709551616,          // 2^64
    18446744073709551615,
    4294967296,                    // 2^32
    4294967295,
    1, 2, 3, 5, 15, 25, 35, 45, 631, 11447,
];

/// A `Decimal` anywhere in its range: mantissa up to 96 bits (edge pool, few digits, or uniformly
/// random), any scale 0..=28 (biased to 0, 1, 14, 27, 28), either sign — products of two of these
/// round, underflow to zero and overflow after rounding.
fn edge_dec(rng: &mut Rng) -> String {
    let m: u128 = match rng.below(10) {
        0 | 1 | 2 => *rng.pick(EDGE_MANT),
        3 | 4 | 5 => {
            let digits = rng.range(1, 28) as u32;
            (((rng.next_u64() as u128) << 64) | rng.next_u64() as u128) % 10u128.pow(digits)
        }
        _ => (((rng.next_u64() as u128) << 64) | rng.next_u64() as u128) % (1u128 << 96),
    };
    let scale = match rng.below(8) {
        0 | 1 => 0,
        2 => 1,
        3 => 28,
        4 => *rng.pick(&[14u32, 15, 27]),
        _ => rng.range(0, 28) as u32,
    };
    let d = Decimal::from_parts(m as u32, (m >> 32) as u32, (m >> 64) as u32, rng.chance(15), scale);
    d.to_string()
}

/// mostly edge-of-range decimals, sometimes a small one (so that one factor is harmless)
fn edge_or_small(rng: &mut Rng) -> String {
    if rng.chance(65) {
        edge_dec(rng)
    } else if rng.chance(50) {
        small(rng)
    } else {
        rng.pick(&["1", "2", "10", "0.5", "0.1", "3"]).to_string()
    }
}

fn side(rng: &mut Rng) -> &'static str {
    if rng.chance(50) { "B" } else { "S" }
}

fn cancel_tok(rng: &mut Rng) -> String {
    format!(
        "{}:{}:{}:{}:{}",
        rng.below(2),
        rng.below(3),
        rng.below(2),
        rng.below(4),
        if rng.chance(50) { "-".to_string() } else { rng.below(3).to_string() }
    )
}

fn open_tok(rng: &mut Rng) -> String {
    format!(
        "{}:{}:{}:{}:{}:{}:{}:{}:{}",
        rng.below(2),
        rng.below(3),
        rng.below(2),
        rng.below(4),
        side(rng),
        rng.pick(&["100", "100.5", "0", "99.5"]),
        rng.pick(&["1", "0.5", "0", "2"]),
        rng.pick(&["M", "L"]),
        rng.pick(&["gtc", "gtcp", "day", "fok", "ioc"]),
    )
}

fn rm_op(rng: &mut Rng, max_len: u64) -> String {
    let nc = rng.below(max_len + 1);
    let no = rng.below(max_len + 1);
    let mut s = format!("rm {} C", rng.below(1000));
    // duplicates on purpose: few distinct tokens, and sometimes the same request twice in a row
    let mut last: Option<String> = None;
    for _ in 0..nc {
        let t = match (&last, rng.chance(25)) {
            (Some(l), true) => l.clone(),
            _ => cancel_tok(rng),
        };
        s.push(' ');
        s.push_str(&t);
        last = Some(t);
    }
    s.push_str(" O");
    let mut last: Option<String> = None;
    for _ in 0..no {
        let t = match (&last, rng.chance(25)) {
            (Some(l), true) => l.clone(),
            _ => open_tok(rng),
        };
        s.push(' ');
        s.push_str(&t);
        last = Some(t);
    }
    s
}

fn random_op(rng: &mut Rng, thorough: bool) -> String {
    match rng.below(15) {
        0 | 1 => {
            let l = small(rng);
            let i = near(rng, &l);
            format!("chk dec {l} {i}")
        }
        2 => {
            let l = rng.range(-5, 5);
            let i = l + rng.range(-2, 2);
            format!("chk int {l} {i}")
        }
        3 => format!("chk f64 {} {}", f64_tok(rng), f64_tok(rng)),
        4 | 5 => {
            if rng.chance(15) {
                // the whole `Decimal` range: rounding, underflow to zero, overflow after rounding
                format!("notional {} {} {}", edge_or_small(rng), edge_or_small(rng), edge_or_small(rng))
            } else if rng.chance(25) {
                if rng.chance(50) {
                    format!("notional {} {} {}", huge_or_small_int(rng), huge_or_small_int(rng), huge_or_small_int(rng))
                } else {
                    format!("notional {} {} {}", rng.pick(POW10), rng.pick(POW10), rng.pick(NEGPOW10))
                }
            } else {
                format!("notional {} {} {}", small(rng), small(rng), small(rng))
            }
        }
        6 => {
            let k = *rng.pick(&["spot", "perp", "fut", "opt"]);
            if rng.chance(15) {
                format!("notionalk {k} {} {} {}", huge_or_small_int(rng), huge_or_small_int(rng), huge_or_small_int(rng))
            } else {
                format!("notionalk {k} {} {} {}", small(rng), small(rng), small(rng))
            }
        }
        7 | 8 | 9 => {
            if rng.chance(15) {
                if rng.chance(50) {
                    format!("apd {} {}", huge_or_small_int(rng), huge_or_small_int(rng))
                } else {
                    format!("apd {} {}", rng.pick(POW10), rng.pick(NEGPOW10))
                }
            } else if rng.chance(70) {
                // prices: positive reference, current close to it
                let o = positive(rng);
                let c = near(rng, &o);
                format!("apd {c} {o}")
            } else {
                format!("apd {} {}", small(rng), small(rng))
            }
        }
        10 | 11 => {
            if rng.chance(15) {
                format!("delta {} {} {} {}", edge_or_small(rng), edge_or_small(rng), side(rng), edge_or_small(rng))
            } else if rng.chance(20) {
                format!("delta {} {} {} {}", huge_or_small_int(rng), huge_or_small_int(rng), side(rng), huge_or_small_int(rng))
            } else {
                let d = if rng.chance(50) {
                    "1".to_string()
                } else {
                    rng.pick(&["-1", "-0.5", "0", "0.25", "0.5", "0.75"]).to_string()
                };
                format!("delta {d} {} {} {}", small(rng), side(rng), small(rng))
            }
        }
        12 | 13 => rm_op(rng, if thorough { 12 } else { 6 }),
        _ => match rng.below(3) {
            0 => format!("appr {}", rng.range(-9, 9)),
            1 => format!("refuse {} {}", rng.range(-9, 9), rng.pick(&["rec", "unrec"])),
            _ => format!("refuses {} {}", rng.range(-9, 9), rng.pick(&["too-big", "refused", "x"])),
        },
    }
}

fn generate(seed: u64, n_cases: usize, tier: &str) {
    let mut out = Out::new();
    let mut rng = Rng::new(seed);
    let thorough = tier == "thorough";
    let mut id = 0usize;
    // fixed boundary cases (both tiers): equal values, one step either side, NaN, zero reference,
    // overflow of an intermediate product, overflow of the final product
    id += 1;
    out.case(format!("b{id}"));
    for l in [
        "chk dec 50 50", "chk dec 50 50.01", "chk dec 50 49.99", "chk dec 0.1 0.10", "chk dec -1 -1", "chk dec 0 -0",
        "chk int 3 3", "chk int 3 4", "chk int 3 2", "chk int -1 0",
        "chk f64 1.5 1.5", "chk f64 1.5 1.75", "chk f64 nan 1", "chk f64 1 nan", "chk f64 nan nan",
        "chk f64 inf inf", "chk f64 inf 1", "chk f64 1 inf", "chk f64 -inf 1", "chk f64 1 -inf", "chk f64 -inf -inf",
        "chk f64 inf nan", "chk f64 nan -inf", "chk f64 -inf inf", "chk f64 -0.0 0", "chk f64 0 -0.0", "chk f64 -0.0 0.25",
        "apd 105 100", "apd 95 100", "apd 100 100", "apd 100 0", "apd 0 0", "apd 1 -1", "apd -105 -100", "apd 0 100",
        "notional 2 100.5 1", "notional 2 100.5 0.01", "notional 0 100 1", "notional -2 100 1",
        "notional 1000000000000000 1000000000000000 0.0000000001",
        "notional 39614081257132168796771975168 2 1", "notional 39614081257132168796771975167 2 1",
        "notional 79228162514264337593543950335 1 1", "notional 79228162514264337593543950335 1 2",
        // rounding of `rust_decimal`'s multiplication: round-then-overflow, underflow to zero, rounding into
        // range, ties to even
        "notional 79228162514264337593543950335 0.5 2",
        "notional 0.0000000000000000000000000001 0.0000000000000000000000000001 1",
        "notional 631 125559687027360281447771712.1 1", "notional 11447 6921303617914242822883196.5 1",
        "notional 7922816251426433759354395033.5 3 1", "notional 0.0000000000000000000000000003 0.5 1",
        "notional 1.1111111111111111111111111111 1.1111111111111111111111111111 1",
        "delta 1 0.0000000000000000000000000001 B 0.0000000000000000000000000001",
        "delta 0.3333333333333333333333333333 3 S 0.3333333333333333333333333333",
        "delta 79228162514264337593543950335 1 B 1.0000000000000000000000000001",
        "notionalk spot 5 2 100", "notionalk perp 5 2 100", "notionalk fut 0.01 2 100", "notionalk opt 100 2 100",
        "delta 1 1 B 2", "delta 1 1 S 2", "delta 0.5 100 B 3", "delta -0.5 100 B 3", "delta -0.5 100 S 3", "delta 1 1 S 0",
        "delta 2 79228162514264337593543950335 B 1", "delta 1 79228162514264337593543950335 B 2",
        "rm 0 C O", "rm 1 C 0:0:0:1:- 0:0:0:1:- 0:1:0:2:7 O 0:0:0:3:B:100:1:L:gtc 0:0:0:3:B:100:1:L:gtc",
        "appr 5", "refuse 5 rec", "refuse 5 unrec", "refuses 5 too-big",
    ] {
        out.line(l);
    }
    if thorough {
        // small-scope exhaustive grids
        let grid = ["-1", "0", "0.5", "1", "1.01", "2", "100"];
        id += 1;
        out.case(format!("x{id}"));
        for l in grid {
            for i in grid {
                out.line(format!("chk dec {l} {i}"));
                out.line(format!("apd {l} {i}"));
            }
        }
        let f = ["nan", "-inf", "-1", "-0.0", "0", "0.25", "1", "inf"];
        id += 1;
        out.case(format!("x{id}"));
        for l in f {
            for i in f {
                out.line(format!("chk f64 {l} {i}"));
            }
        }
        for l in -3..=3i64 {
            for i in -3..=3i64 {
                out.line(format!("chk int {l} {i}"));
            }
        }
        let g3 = ["-1", "0", "0.5", "2", "100", MAX, "39614081257132168796771975168"];
        for q in g3 {
            id += 1;
            out.case(format!("x{id}"));
            for p in g3 {
                for c in g3 {
                    // fractional factors meet 29-digit ones: 0.5 x (2^96-1) rounds (the model rounds too)
                    out.line(format!("notional {q} {p} {c}"));
                    for sd in ["B", "S"] {
                        out.line(format!("delta {q} {p} {sd} {c}"));
                    }
                }
            }
        }
        // every pair of request lists of length <= 2 over 2 cancels / 2 opens
        let cs = ["0:0:0:1:-", "1:2:1:3:7"];
        let os = ["0:0:0:1:B:100:1:L:gtc", "1:2:1:3:S:99.5:0.5:M:ioc"];
        let lists = |xs: [&str; 2]| -> Vec<Vec<String>> {
            let mut v: Vec<Vec<String>> = vec![vec![]];
            for a in xs {
                v.push(vec![a.to_string()]);
                for b in xs {
                    v.push(vec![a.to_string(), b.to_string()]);
                }
            }
            v
        };
        id += 1;
        out.case(format!("x{id}"));
        for c in lists(cs) {
            for o in lists(os) {
                out.line(format!("rm 3 C {} O {}", c.join(" "), o.join(" ")).replace("  ", " ").trim_end().to_string());
            }
        }
    }
    for _ in 0..n_cases {
        id += 1;
        out.case(format!("r{id}"));
        let len = rng.range(3, if thorough { 16 } else { 10 });
        for _ in 0..len {
            out.line(random_op(&mut rng, thorough));
        }
    }
    // input-domain family (`d<id>`, own random stream; the cases above stay as they are): the value classes of
    // the public types the random ops never draw - i64 limits of `chk int` / `appr` / `refuse`, `chk dec` at the
    // ends of the Decimal range (2^96-1, 1e-28, either sign), request lists whose opens carry SIGNED prices /
    // quantities (negative, 1e-28, 2^96-1), indices / ids / the u64 state at their limits
    let mut drng = Rng::new(seed ^ 0xD0_3A_11_5E_ED);
    for _ in 0..n_cases / 8 {
        id += 1;
        out.case(format!("d{id}"));
        let len = drng.range(3, if thorough { 16 } else { 10 });
        for _ in 0..len {
            out.line(domain_op(&mut drng));
        }
    }
    // configuration-shape family (`cfg<id>`, own random stream; the cases above stay as they are): `notionalk`
    // always built a European call settled in asset 0; here puts, American / Bermudan exercise, another
    // settlement asset, expiry at the epoch, strike 0
    let mut crng = Rng::new(seed ^ 0xCF_61_C0_3B_5E_ED);
    for _ in 0..n_cases / 16 {
        id += 1;
        out.case(format!("cfg{id}"));
        for _ in 0..crng.range(2, 6) {
            let k = *crng.pick(CFG_KINDS);
            let l = if crng.chance(15) {
                format!("notionalk {k} {} {} {}", huge_or_small_int(&mut crng), huge_or_small_int(&mut crng), huge_or_small_int(&mut crng))
            } else {
                format!("notionalk {k} {} {} {}", small(&mut crng), small(&mut crng), small(&mut crng))
            };
            out.line(l);
        }
    }
    out.flush();
}

const I64_EDGE: &[i64] = &[i64::MIN, i64::MIN + 1, -1, 0, 1, i64::MAX - 1, i64::MAX];
const DEC_EDGE: &[&str] = &[
    "79228162514264337593543950335", "-79228162514264337593543950335", "79228162514264337593543950334",
    "7922816251426433759354395033.5", "0.0000000000000000000000000001", "-0.0000000000000000000000000001",
    "0.0000000000000000000000000002", "0", "-0", "1", "-1",
];
const SIGNED_REQ_DEC: &[&str] = &[
    "-1", "-0.5", "-100", "0", "0.0000000000000000000000000001", "79228162514264337593543950335",
    "-79228162514264337593543950335", "1", "100.5",
];

fn domain_op(rng: &mut Rng) -> String {
    match rng.below(10) {
        0 | 1 => format!("chk int {} {}", rng.pick(I64_EDGE), rng.pick(I64_EDGE)),
        2 | 3 => format!("chk dec {} {}", rng.pick(DEC_EDGE), rng.pick(DEC_EDGE)),
        4..=7 => {
            let nc = rng.below(4);
            let no = 1 + rng.below(4);
            let big = |rng: &mut Rng, small: u64| if rng.chance(25) { 1_000_000 } else { rng.below(small) };
            let mut s = format!("rm {} C", rng.pick(&[0u64, 1, u64::MAX, u64::MAX - 1, 1u64 << 63]));
            for _ in 0..nc {
                let (ex, ins, cid) = (big(rng, 2), big(rng, 3), big(rng, 4));
                s.push_str(&format!(
                    " {ex}:{ins}:{}:{cid}:{}",
                    rng.below(2),
                    if rng.chance(50) { "-".to_string() } else { big(rng, 3).to_string() }
                ));
            }
            s.push_str(" O");
            for _ in 0..no {
                let (ex, ins, cid) = (big(rng, 2), big(rng, 3), big(rng, 4));
                s.push_str(&format!(
                    " {ex}:{ins}:{}:{cid}:{}:{}:{}:{}:{}",
                    rng.below(2),
                    side(rng),
                    rng.pick(SIGNED_REQ_DEC),
                    rng.pick(SIGNED_REQ_DEC),
                    rng.pick(&["M", "L"]),
                    rng.pick(&["gtc", "gtcp", "day", "fok", "ioc"]),
                ));
            }
            s
        }
        8 => format!("appr {}", rng.pick(I64_EDGE)),
        _ => {
            if rng.chance(50) {
                format!("refuse {} {}", rng.pick(I64_EDGE), rng.pick(&["rec", "unrec"]))
            } else {
                format!("refuses {} {}", rng.pick(I64_EDGE), rng.pick(&["too-big", "refused", "x"]))
            }
        }
    }
}

fn main() {
    let a = args();
    match a.cmd.as_str() {
        "gen" => generate(a.seed, a.n, &a.tier),
        "run" => run(),
        _ => {
            eprintln!("usage: c03r gen <seed> <n> <tier> | run < cases");
            std::process::exit(2)
        }
    }
}
