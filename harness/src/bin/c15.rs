//! C15 — unrealised PnL of an open position tracks the instrument's latest price.
//!
//! Every op goes through the real `Engine::process` (trading disabled):
//!   `init <n> [<x>]`                                     engine with `n` instruments; on one exchange, or (with
//!                                                        `x` in 1..=5) instrument `k` on exchange label `k % x`
//!   `fill <id> <instr> <time> <B|S> <price> <qty> <fee>` `EngineEvent::Account(Item(Trade))`
//!   `trade <instr> <time> <price> [B|S]`                 `EngineEvent::Market(Item(DataKind::Trade))` (taker side, default B)
//!   `l1 <instr> <te> <tl> <bidP> <bidA> <askP> <askA>`   `EngineEvent::Market(Item(DataKind::OrderBookL1))`
//!   `other <instr> <time> [candle|liq|book]`             a price-less item: `Candle` / `Liquidation` / L2 `OrderBook`
//!                                                        snapshot; without the kind: candle (even time) / liquidation (odd)
//!
//! Configuration shapes (`init <n> <x> <kinds> <on|off> <links> <via>`, seven tokens, family `cfg…`):
//!   kinds  non-empty string over `s p f o q`, cycled over the instruments: spot / perpetual (contract size 10,
//!          settled in the quote) / future (contract size 0.01, settled in the base) / option (contract size 100,
//!          settled in a third asset) / spot with an `InstrumentSpec` whose quantities are in contracts
//!   on|off trading state; with `on` (and via != state) the scripted strategy emits one open request for the
//!          event's instrument after every event (sent or failing according to the exchange's link; audit
//!          errors are then expected and not printed)
//!   links  non-empty string over `H C M U`, cycled over the exchange labels (healthy / closed / missing = tracked
//!          but not traded / refusing)
//!   via    `proc` = `Engine::process`, `audit` = `process_with_audit`, `state` =
//!          `EngineState::update_from_market` / `update_from_account` directly
//! None of them is read by the documented estimate.
//!
//! Observations after each op, per instrument `i` (label = position in `init`):
//!   `price<i>`  `InstrumentDataState::price()`
//!   `pos<i>`    side, entry average, quantity, max quantity, entry fees of `position.current`
//!   `upnl<i>`   `position.current.pnl_unrealised`
use barter::{
    EngineEvent,
    engine::{
        Processor,
        audit::EngineAudit,
        state::{instrument::data::InstrumentDataState, trading::TradingState},
    },
    execution::AccountStreamEvent,
};
use barter_data::{
    books::{Level, OrderBook},
    event::{DataKind, MarketEvent},
    streams::consumer::MarketStreamEvent,
    subscription::{
        book::{OrderBookEvent, OrderBookL1},
        candle::Candle,
        liquidation::Liquidation,
        trade::PublicTrade,
    },
};
use barter_execution::{
    AccountEvent, AccountEventKind,
    order::{
        OrderEvent, OrderKey, OrderKind, TimeInForce,
        id::{ClientOrderId, OrderId, StrategyId},
        request::RequestOpen,
    },
    trade::{AssetFees, Trade, TradeId},
};
use barter_instrument::{
    Side, Underlying,
    asset::Asset,
    exchange::ExchangeIndex,
    index::IndexedInstruments,
    instrument::{
        Instrument, InstrumentIndex,
        kind::{
            InstrumentKind,
            future::FutureContract,
            option::{OptionContract, OptionExercise, OptionKind},
            perpetual::PerpetualContract,
        },
        quote::InstrumentQuoteAsset,
        spec::{
            InstrumentSpec, InstrumentSpecNotional, InstrumentSpecPrice, InstrumentSpecQuantity,
            OrderQuantityUnits,
        },
    },
};
use rust_decimal::Decimal;
use vh::{engine_util::*, *};

fn s2s(s: Side) -> &'static str {
    match s {
        Side::Buy => "B",
        Side::Sell => "S",
    }
}

/// As `engine_util::build_instruments` (same names), instrument `k` of kind `kinds[k % len]`.
fn build_instruments_kinds(defs: &[(usize, &str, &str)], kinds: &[char]) -> IndexedInstruments {
    let mut builder = IndexedInstruments::builder();
    for (k, (ex, base, quote)) in defs.iter().enumerate() {
        let c = kinds[k % kinds.len()];
        let kind = match c {
            'p' => InstrumentKind::Perpetual(PerpetualContract {
                contract_size: Decimal::TEN,
                settlement_asset: Asset::new_from_exchange(*quote),
            }),
            'f' => InstrumentKind::Future(FutureContract {
                contract_size: Decimal::new(1, 2),
                settlement_asset: Asset::new_from_exchange(*base),
                expiry: time_ms(1_000_000),
            }),
            'o' => InstrumentKind::Option(OptionContract {
                contract_size: Decimal::ONE_HUNDRED,
                settlement_asset: Asset::new_from_exchange("usdc"),
                kind: OptionKind::Call,
                exercise: OptionExercise::European,
                expiry: time_ms(1_000_000),
                strike: Decimal::ONE_HUNDRED,
            }),
            _ => InstrumentKind::Spot,
        };
        let spec = (c == 'q').then(|| InstrumentSpec {
            price: InstrumentSpecPrice { min: Decimal::new(1, 2), tick_size: Decimal::new(1, 2) },
            quantity: InstrumentSpecQuantity {
                unit: OrderQuantityUnits::Contract,
                min: Decimal::ONE,
                increment: Decimal::ONE,
            },
            notional: InstrumentSpecNotional { min: Decimal::TEN },
        });
        builder = builder.add_instrument(Instrument::new(
            EXCHANGES[*ex],
            format!("{base}_{quote}_x{ex}"),
            format!("{}{}", base.to_uppercase(), quote.to_uppercase()),
            Underlying::new(Asset::new_from_exchange(*base), Asset::new_from_exchange(*quote)),
            InstrumentQuoteAsset::UnderlyingQuote,
            kind,
            spec,
        ));
    }
    builder.build()
}

#[derive(Clone, Copy, PartialEq)]
enum Via {
    Proc,
    Audit,
    State,
}

/// `<kinds> <on|off> <links> <via>` of the seven-token `init`
fn parse_cfg(t: &[String]) -> Option<(Vec<char>, TradingState, Vec<Link>, Via)> {
    let kinds: Vec<char> = t[0].chars().collect();
    if kinds.is_empty() || !kinds.iter().all(|c| "spfoq".contains(*c)) {
        return None;
    }
    let trading = match t[1].as_str() {
        "on" => TradingState::Enabled,
        "off" => TradingState::Disabled,
        _ => return None,
    };
    let links: Option<Vec<Link>> = t[2]
        .chars()
        .map(|c| match c {
            'H' => Some(Link::Healthy),
            'C' => Some(Link::Closed),
            'M' => Some(Link::Missing),
            'U' => Some(Link::Unhealthy),
            _ => None,
        })
        .collect();
    let links = links.filter(|l| !l.is_empty())?;
    let via = match t[3].as_str() {
        "proc" => Via::Proc,
        "audit" => Via::Audit,
        "state" => Via::State,
        _ => return None,
    };
    Some((kinds, trading, links, via))
}

/// per instrument label: (position in the engine's instrument table, exchange label, `ExchangeIndex`)
type Slot = (usize, usize, usize);

fn observe(engine: &TestEngine, map: &[Slot], lines: &mut Vec<String>) {
    for (i, (idx, _, _)) in map.iter().enumerate() {
        let st = engine.state.instruments.instrument_index(&InstrumentIndex(*idx));
        lines.push(format!("price{i} {}", fmt_opt_dec_approx(st.data.price())));
        lines.push(match &st.position.current {
            None => format!("pos{i} none"),
            Some(p) => format!(
                "pos{i} {} {} {} {} {}",
                s2s(p.side),
                fmt_dec_approx(p.price_entry_average),
                fmt_dec(p.quantity_abs),
                fmt_dec(p.quantity_abs_max),
                fmt_dec_approx(p.fees_enter.fees)
            ),
        });
        lines.push(format!(
            "upnl{i} {}",
            fmt_opt_dec_approx(st.position.current.as_ref().map(|p| p.pnl_unrealised))
        ));
    }
}

/// `None` = malformed (`bad-op`). An instrument label the engine was not built with becomes an
/// `InstrumentIndex` the engine does not have (the real code then panics by itself).
fn parse_event(op: &[String], map: &[Slot]) -> Option<Event> {
    let idx = |label: usize| {
        map.get(label).map(|k| InstrumentIndex(k.0)).unwrap_or(InstrumentIndex(map.len() + 7))
    };
    // exchange of the instrument (label 0 / index 0 for an unknown instrument: the code panics on the instrument)
    let ex_label = |label: usize| map.get(label).map(|k| k.1).unwrap_or(0);
    let ex_index = |label: usize| map.get(label).map(|k| k.2).unwrap_or(0);
    match (op[0].as_str(), op.len()) {
        ("fill", 8) => {
            let id: u64 = op[1].parse().ok()?;
            let label: usize = op[2].parse().ok()?;
            let time: i64 = op[3].parse().ok()?;
            let side = match op[4].as_str() {
                "B" => Side::Buy,
                "S" => Side::Sell,
                _ => return None,
            };
            let price: Decimal = op[5].parse().ok()?;
            let qty: Decimal = op[6].parse().ok()?;
            let fee: Decimal = op[7].parse().ok()?;
            // fill price > 0: a position whose entry average is exactly 0 panics when it is exited (the tear
            // sheet's calculate_pnl_return divides by price_entry_average * quantity_abs_max; C16's boundary)
            if qty <= Decimal::ZERO || price <= Decimal::ZERO {
                return None;
            }
            let instrument = idx(label);
            Some(EngineEvent::Account(AccountStreamEvent::Item(AccountEvent {
                    exchange: ExchangeIndex(ex_index(label)),
                    kind: AccountEventKind::Trade(Trade {
                        id: TradeId::new(id.to_string()),
                        order_id: OrderId::new(format!("o{id}")),
                        instrument,
                        strategy: StrategyId::new("verif"),
                        time_exchange: time_ms(time),
                        side,
                        price,
                        quantity: qty,
                        fees: AssetFees::quote_fees(fee),
                    }),
                })))
        }
        ("trade", 4) | ("trade", 5) | ("other", 3) | ("other", 4) | ("l1", 8) => {
            let label: usize = op[1].parse().ok()?;
            let te: i64 = op[2].parse().ok()?;
            let kind = match op[0].as_str() {
                "trade" => {
                    // validated as a decimal literal first so that both sides reject the same text
                    let _: Decimal = op[3].parse().ok()?;
                    let side = match op.get(4).map(|s| s.as_str()) {
                        None | Some("B") => Side::Buy,
                        Some("S") => Side::Sell,
                        _ => return None,
                    };
                    DataKind::Trade(PublicTrade {
                        id: "t".into(),
                        price: op[3].parse::<f64>().ok()?,
                        amount: 1.0,
                        side,
                    })
                }
                "l1" => {
                    let tl: i64 = op[3].parse().ok()?;
                    let bp: Decimal = op[4].parse().ok()?;
                    let ba: Decimal = op[5].parse().ok()?;
                    let ap: Decimal = op[6].parse().ok()?;
                    let aa: Decimal = op[7].parse().ok()?;
                    if ba < Decimal::ZERO || aa < Decimal::ZERO || (ba + aa).is_zero() {
                        return None;
                    }
                    DataKind::OrderBookL1(OrderBookL1 {
                        last_update_time: time_ms(tl),
                        best_bid: Some(Level::new(bp, ba)),
                        best_ask: Some(Level::new(ap, aa)),
                    })
                }
                _ => {
                    let k = match op.get(3).map(|s| s.as_str()) {
                        None => if te % 2 == 0 { "candle" } else { "liq" },
                        Some(k @ ("candle" | "liq" | "book")) => k,
                        _ => return None,
                    };
                    if k == "book" {
                        // an L2 snapshot whose levels would give a mid price of 777 if anything read it
                        DataKind::OrderBook(OrderBookEvent::Snapshot(OrderBook::new(
                            te.unsigned_abs(),
                            Some(time_ms(te)),
                            vec![Level::new(Decimal::from(776), Decimal::ONE)],
                            vec![Level::new(Decimal::from(778), Decimal::ONE)],
                        )))
                    } else if k == "candle" {
                        DataKind::Candle(Candle {
                            close_time: time_ms(te),
                            open: 1.0,
                            high: 1000.0,
                            low: 1.0,
                            close: 777.0,
                            volume: 3.0,
                            trade_count: 2,
                        })
                    } else {
                        DataKind::Liquidation(Liquidation {
                            side: Side::Sell,
                            price: 777.0,
                            quantity: 1.0,
                            time: time_ms(te),
                        })
                    }
                }
            };
            let instrument = idx(label);
            Some(EngineEvent::Market(MarketStreamEvent::Item(MarketEvent {
                time_exchange: time_ms(te),
                // received later than any exchange timestamp used by the generators
                time_received: time_ms(te + 100_000),
                exchange: EXCHANGES[ex_label(label)],
                instrument,
                kind,
            })))
        }
        _ => None,
    }
}

fn run() {
    run_cases(|case, lines| {
        let mut built: Option<Built> = None;
        let mut map: Vec<Slot> = vec![];
        let mut via = Via::Proc;
        let mut emit = false;
        for (k, op) in case.ops.iter().enumerate() {
            lines.push("@".into());
            if op[0] == "init" {
                let cfg = if op.len() == 7 {
                    match parse_cfg(&op[3..]) {
                        Some(c) => Some(c),
                        None => {
                            lines.push("bad-op".into());
                            continue;
                        }
                    }
                } else {
                    None
                };
                let x = match op.get(2) {
                    None => Some(1usize),
                    Some(s) => s.parse::<usize>().ok().filter(|x| (1..=EXCHANGES.len()).contains(x)),
                };
                let (Some(n), Some(x)) =
                    (op.get(1).and_then(|s| s.parse::<usize>().ok()).filter(|_| op.len() <= 3 || cfg.is_some()), x)
                else {
                    lines.push("bad-op".into());
                    continue;
                };
                let names: Vec<String> = (0..n).map(|k| format!("b{k}")).collect();
                let defs: Vec<(usize, &str, &str)> =
                    names.iter().enumerate().map(|(k, b)| (k % x, b.as_str(), "usdt")).collect();
                via = Via::Proc;
                emit = false;
                let b = match &cfg {
                    None => build_engine(&build_instruments(&defs), &[], TradingState::Disabled),
                    Some((kinds, trading, links, v)) => {
                        via = *v;
                        emit = *trading == TradingState::Enabled && via != Via::State;
                        let ii = build_instruments_kinds(&defs, kinds);
                        // `build_engine` wants the links in ExchangeIndex order; the op gives them by label
                        let by_index: Vec<Link> = ii
                            .exchanges()
                            .iter()
                            .map(|e| links[EXCHANGES.iter().position(|x| *x == e.value).unwrap() % links.len()])
                            .collect();
                        build_engine(&ii, &by_index, *trading)
                    }
                };
                map = (0..n)
                    .map(|i| {
                        let ex = i % x;
                        let pos = b
                            .engine
                            .state
                            .instruments
                            .0
                            .values()
                            .position(|s| {
                                s.instrument.name_internal.name().as_str() == format!("b{i}_usdt_x{ex}")
                            })
                            .unwrap();
                        let ex_index =
                            b.engine.state.connectivity.exchanges.get_index_of(&EXCHANGES[ex]).unwrap();
                        (pos, ex, ex_index)
                    })
                    .collect();
                observe(&b.engine, &map, lines);
                built = Some(b);
                continue;
            }
            let Some(b) = built.as_mut() else {
                // the drivers start from an engine with no instrument
                match parse_event(op, &map) {
                    None => lines.push("bad-op".into()),
                    Some(_) => lines.push("panic".into()),
                }
                continue;
            };
            let engine = &mut b.engine;
            match parse_event(op, &map) {
                None => lines.push("bad-op".into()),
                Some(ev) => {
                    // trading enabled: the strategy emits an open request for the event's instrument
                    let label = op[if op[0] == "fill" { 2 } else { 1 }].parse::<usize>().ok();
                    if let (true, Some(slot)) = (emit, label.and_then(|l| map.get(l))) {
                        engine.strategy.script.borrow_mut().push_back((
                            vec![],
                            vec![OrderEvent {
                                key: OrderKey {
                                    exchange: ExchangeIndex(slot.2),
                                    instrument: InstrumentIndex(slot.0),
                                    strategy: StrategyId::new("verif"),
                                    cid: ClientOrderId::new(format!("g{k}")),
                                },
                                state: RequestOpen {
                                    side: Side::Buy,
                                    price: Decimal::ONE_HUNDRED,
                                    quantity: Decimal::ONE,
                                    kind: OrderKind::Limit,
                                    time_in_force: TimeInForce::GoodUntilCancelled { post_only: false },
                                },
                            }],
                        ));
                    }
                    let r = std::panic::catch_unwind(std::panic::AssertUnwindSafe(|| match (via, ev) {
                        (Via::Proc, ev) => Some(engine.process(ev)),
                        (Via::Audit, ev) => Some(barter::engine::process_with_audit(engine, ev).event),
                        (Via::State, EngineEvent::Market(MarketStreamEvent::Item(ev))) => {
                            engine.state.update_from_market(&ev);
                            None
                        }
                        (Via::State, EngineEvent::Account(AccountStreamEvent::Item(ev))) => {
                            let _exit = engine.state.update_from_account(&ev);
                            None
                        }
                        (Via::State, _) => unreachable!(),
                    }));
                    match r {
                        Err(_) => {
                            // an emitted request that was not consumed must not leak into the next event
                            engine.strategy.script.borrow_mut().clear();
                            lines.push("panic".into());
                            continue;
                        }
                        Ok(None) => {}
                        // with an emitting strategy and unhealthy links, send errors are expected
                        Ok(Some(_)) if emit => {}
                        Ok(Some(audit)) => {
                            if let EngineAudit::Process(p) = &audit {
                                if !p.errors.is_empty() {
                                    lines.push("audit-errors".into());
                                }
                            } else {
                                lines.push("audit-feed-ended".into());
                            }
                        }
                    }
                    observe(engine, &map, lines);
                }
            }
        }
    });
}

// ------------------------------------------------------------------------------------ generator

const PRICES: &[&str] = &["100", "101", "99.5", "150", "80", "100.25"];
/// negative = a maker rebate (legal input: `Trade.fees` is signed and the realised-PnL code handles rebates)
const FEES: &[&str] = &["0", "0", "0.1", "1", "2.5", "-0.2", "-1"];
/// (bid price, bid amount, ask price, ask amount)
const BOOKS: &[(&str, &str, &str, &str)] = &[
    ("99", "1", "101", "3"),
    ("104", "2", "106", "2"),
    ("99.5", "0.7", "100.5", "0.3"),
    ("149", "5", "151", "1"),
    ("80", "0", "82", "4"),
];

fn qty_str(q: i64) -> String {
    dec_str(q, 1)
}

fn gen_case(rng: &mut Rng, out: &mut Out, id: String, tier: &str) {
    out.case(id);
    let n = rng.range(1, 3) as usize;
    out.line(format!("init {n}"));
    let max_len = if tier == "thorough" { 60 } else { 30 };
    let len = rng.range(1, max_len);
    // probability (percent) of a fill; the rest are market events
    let fill_pct = *rng.pick(&[30u64, 50, 70]);
    let stale_pct = *rng.pick(&[0u64, 20, 50]);
    let wild = rng.chance(8);
    // net position per instrument, in tenths
    let mut nets = vec![0i64; n];
    let mut time = 0i64;
    let mut next_id = 1u64;
    for _ in 0..len {
        let mut instr = rng.below(n as u64) as usize;
        if wild && rng.chance(5) {
            instr = n; // unknown instrument: the engine panics, nothing changes
        }
        if rng.chance(70) {
            time += rng.range(1, 4);
        }
        // market events may carry an old exchange time (the registers keep the newer data, the
        // unrealised PnL is still re-evaluated at the current price)
        let t_ev = if rng.chance(stale_pct) { rng.range(0, time.max(1)) } else { time };
        if rng.chance(fill_pct) {
            let net = if instr < n { nets[instr] } else { 0 };
            let (buy, q) = if net != 0 && rng.chance(55) {
                let a = net.abs();
                let q = match rng.below(6) {
                    0 => a,                                // exact close
                    1 => a * 2,                            // flip to the mirror position
                    2 => a + *rng.pick(&[5i64, 10, 20]),   // flip with a remainder
                    3 | 4 => (a / 2).max(1),               // reduce
                    _ => a + 5,                            // flip by the smallest step
                };
                (net < 0, q)
            } else if net != 0 && rng.chance(50) {
                (net > 0, *rng.pick(&[5i64, 10, 15, 20, 30])) // increase
            } else {
                (rng.chance(50), *rng.pick(&[5i64, 10, 15, 20, 30]))
            };
            let price = *rng.pick(PRICES);
            let fee = *rng.pick(FEES);
            let id = next_id;
            next_id += 1;
            // fills, too, may be delivered out of exchange-time order (partial fills of one order
            // swapped, a late or replayed fill after a reconnect): the estimate after a fill does not
            // depend on the fill's timestamp
            let t_fill = if rng.chance(stale_pct) { rng.range(0, time.max(1)) } else { time };
            out.line(format!(
                "fill {id} {instr} {t_fill} {} {price} {} {fee}",
                if buy { "B" } else { "S" },
                qty_str(q)
            ));
            if instr < n {
                nets[instr] += if buy { q } else { -q };
            }
        } else {
            match rng.below(100) {
                0..=44 => out.line(format!("trade {instr} {t_ev} {}", rng.pick(PRICES))),
                45..=89 => {
                    let (bp, ba, ap, aa) = *rng.pick(BOOKS);
                    // 10 %: the payload's own time differs from the event time
                    let tl = if rng.chance(10) { rng.range(0, time.max(1)) } else { t_ev };
                    out.line(format!("l1 {instr} {t_ev} {tl} {bp} {ba} {ap} {aa}"));
                }
                _ => out.line(format!("other {instr} {t_ev}")),
            }
        }
    }
}

// ------------------------------------------------------- input-domain family (`d…`, separately seeded)

/// Value tables of one magnitude regime. Every product quantity x price stays below 1e8 and every literal has
/// at most 9 significant digits, so `+ - x` are exact in `Decimal` and the division-derived fields stay within
/// the 1e-18 comparison tolerance.
struct Regime {
    /// market prices (public trades)
    prices: &'static [&'static str],
    /// fill prices (must be > 0)
    fill_prices: &'static [&'static str],
    fees: &'static [&'static str],
    books: &'static [(&'static str, &'static str, &'static str, &'static str)],
    /// fill quantities in units of 10^-qty_scale
    qty: &'static [i64],
    qty_scale: u32,
}

const REGIMES: &[Regime] = &[
    // the original tables (for the structural classes: many instruments, several exchanges, item kinds)
    Regime { prices: PRICES, fill_prices: PRICES, fees: FEES, books: BOOKS, qty: &[5, 10, 15, 20, 30], qty_scale: 1 },
    // tiny prices (down to 1e-8), large quantities
    Regime {
        prices: &["0.00001234", "0.0000125", "0.00000001", "0.00012", "0.000015", "0.00001234"],
        fill_prices: &["0.00001234", "0.0000125", "0.00000001", "0.00012", "0.000015", "0.00001234"],
        fees: &["0", "0.00000012", "0.0001", "-0.00000005", "0.02"],
        books: &[
            ("0.00001233", "1000", "0.00001235", "3000"),
            ("0.0000124", "250000", "0.0000126", "250000"),
            ("0.00000001", "1", "0.00000003", "1"),
            ("0.00011", "0", "0.00013", "5000"),
        ],
        qty: &[1000, 2500, 100000, 1234567, 1],
        qty_scale: 0,
    },
    // large prices (up to 1e7), small quantities (down to 1e-4)
    Regime {
        prices: &["1234567.89", "98765.4321", "1000000", "999999.99", "1000000.01", "9999999.9"],
        fill_prices: &["1234567.89", "98765.4321", "1000000", "999999.99", "1000000.01", "9999999.9"],
        fees: &["0", "0.00123", "12.5", "-0.75", "1000"],
        books: &[
            ("999999.99", "0.0005", "1000000.01", "0.0015"),
            ("1234567.88", "0.0123", "1234567.9", "0.0123"),
            ("98765", "2", "98766", "0.0001"),
        ],
        qty: &[1, 5, 123, 15000, 40],
        qty_scale: 4,
    },
    // zero and negative MARKET prices (legal `Decimal` / `f64` values; spreads and some futures trade below
    // zero); fills stay at small positive prices
    Regime {
        prices: &["0", "-5", "-0.5", "3", "100", "-100.25"],
        fill_prices: &["0.5", "3", "5", "100"],
        fees: FEES,
        books: &[
            ("-1", "1", "1", "1"),
            ("-6", "2", "-4", "2"),
            ("0", "1", "0", "3"),
            ("-0.5", "0.7", "0.5", "0.3"),
            ("99", "1", "101", "3"),
        ],
        qty: &[5, 10, 15, 20, 30],
        qty_scale: 1,
    },
];

fn gen_case_dom(rng: &mut Rng, out: &mut Out, id: String, tier: &str, cfg: Option<String>) {
    out.case(id);
    let r = &REGIMES[rng.below(REGIMES.len() as u64) as usize];
    // up to 8 instruments on up to 3 exchanges (instrument k on exchange k % x)
    let n = if rng.chance(50) { rng.range(1, 3) } else { rng.range(4, 8) } as usize;
    let x = rng.range(1, 3.min(n as i64));
    if let Some(cfg) = cfg {
        // configuration-shape family: the set-up tokens follow `init n x`
        out.line(format!("init {n} {x} {cfg}"));
    } else if x == 1 && rng.chance(50) {
        out.line(format!("init {n}"));
    } else {
        out.line(format!("init {n} {x}"));
    }
    // traffic concentrates on few instruments so that positions live long enough
    let hot = rng.range(1, 3.min(n as i64)) as u64;
    let max_len = if tier == "thorough" { 60 } else { 30 };
    let len = rng.range(1, max_len);
    let fill_pct = *rng.pick(&[30u64, 50, 70]);
    let stale_pct = *rng.pick(&[0u64, 20, 50]);
    let mut nets = vec![0i64; n];
    let mut time = 0i64;
    let mut next_id = 1u64;
    let q0 = r.qty[0];
    for _ in 0..len {
        let instr = if rng.chance(80) { rng.below(hot) as usize } else { rng.below(n as u64) as usize };
        if rng.chance(70) {
            time += rng.range(1, 4);
        }
        let t_ev = if rng.chance(stale_pct) { rng.range(0, time.max(1)) } else { time };
        if rng.chance(fill_pct) {
            let net = nets[instr];
            let (buy, q) = if net != 0 && rng.chance(55) {
                let a = net.abs();
                let q = match rng.below(6) {
                    0 => a,
                    1 => a * 2,
                    2 => a + *rng.pick(r.qty),
                    3 | 4 => (a / 2).max(1),
                    _ => a + q0,
                };
                (net < 0, q)
            } else if net != 0 && rng.chance(50) {
                (net > 0, *rng.pick(r.qty))
            } else {
                (rng.chance(50), *rng.pick(r.qty))
            };
            let price = *rng.pick(r.fill_prices);
            let fee = *rng.pick(r.fees);
            let id = next_id;
            next_id += 1;
            let t_fill = if rng.chance(stale_pct) { rng.range(0, time.max(1)) } else { time };
            out.line(format!(
                "fill {id} {instr} {t_fill} {} {price} {} {fee}",
                if buy { "B" } else { "S" },
                dec_str(q, r.qty_scale)
            ));
            nets[instr] += if buy { q } else { -q };
        } else {
            match rng.below(100) {
                0..=44 => {
                    let side = match rng.below(3) {
                        0 => "",
                        1 => " B",
                        _ => " S",
                    };
                    out.line(format!("trade {instr} {t_ev} {}{side}", rng.pick(r.prices)))
                }
                45..=84 => {
                    let (bp, ba, ap, aa) = *rng.pick(r.books);
                    // 15 %: the payload's own time differs from the event time, in both directions (a payload
                    // time ahead of the event times blocks later books until the event time passes it)
                    let tl = if rng.chance(15) { rng.range(0, time + 6) } else { t_ev };
                    out.line(format!("l1 {instr} {t_ev} {tl} {bp} {ba} {ap} {aa}"));
                }
                _ => out.line(format!("other {instr} {t_ev} {}", rng.pick(&["candle", "liq", "book", "book"]))),
            }
        }
    }
}

fn generate(seed: u64, n_cases: usize, tier: &str) {
    let mut out = Out::new();
    let mut rng = Rng::new(seed);
    let mut id = 0usize;
    // fixed scenarios, always first: the two findings' witnesses and the F5 witness
    let fixed: &[&[&str]] = &[
        &["init 1", "fill 1 0 1 B 100 2 1", "trade 0 2 150", "l1 0 3 3 99 1 101 3", "other 0 4"],
        &["init 1", "fill 1 0 1 B 100 2 0", "fill 2 0 2 S 110 3 3", "trade 0 3 90"],
        &["init 2", "trade 1 1 90", "fill 1 1 2 S 100 1 0.5", "fill 2 1 3 S 120 1 0.5", "fill 3 1 4 B 110 0.5 0.1", "trade 1 2 70", "l1 1 5 5 104 2 106 2", "trade 0 9 1"],
    ];
    for ops in fixed {
        id += 1;
        out.case(format!("f{id}"));
        for o in ops.iter() {
            out.line(o);
        }
    }
    if tier == "thorough" {
        // exhaustive: every event sequence of length <= 4 over 13 symbols on one instrument
        let mut syms: Vec<String> = vec![];
        for side in ["B", "S"] {
            for q in [1, 2] {
                for (p, f) in [(100, 1), (150, 0)] {
                    syms.push(format!("fill {{id}} 0 {{t}} {side} {p} {q} {f}"));
                }
            }
        }
        syms.push("trade 0 1 90".into());
        syms.push("trade 0 2 110".into());
        syms.push("l1 0 1 1 99 1 101 3".into());
        syms.push("l1 0 2 2 104 2 106 2".into());
        syms.push("other 0 3".into());
        let a = syms.len();
        for len in 1..=4usize {
            for mut code in 0..a.pow(len as u32) {
                id += 1;
                out.case(format!("x{id}"));
                out.line("init 1");
                for k in 0..len {
                    let s = syms[code % a]
                        .replace("{id}", &(k + 1).to_string())
                        .replace("{t}", &(k * 10).to_string());
                    out.line(s);
                    code /= a;
                }
            }
        }
    }
    for _ in 0..n_cases {
        id += 1;
        gen_case(&mut rng, &mut out, format!("r{id}"), tier);
    }
    let mut rng = Rng::new(seed ^ 0xD0D0_15);
    for _ in 0..(n_cases / 2).max(16) {
        id += 1;
        gen_case_dom(&mut rng, &mut out, format!("d{id}"), tier, None);
    }
    // Separately seeded family `cfg…` (configuration-shape audit): instrument kinds, trading enabled with an
    // emitting strategy, execution links per exchange, and the API the events are fed through.
    let mut rng = Rng::new(seed ^ 0xCF6_0015);
    for _ in 0..(n_cases / 2).max(16) {
        id += 1;
        let kinds: String =
            (0..rng.range(1, 4)).map(|_| *rng.pick(&['s', 'p', 'f', 'o', 'q', 'p', 'f'])).collect();
        let links: String = if rng.chance(25) {
            "H".into()
        } else {
            (0..rng.range(1, 3)).map(|_| *rng.pick(&['H', 'M', 'M', 'C', 'U'])).collect()
        };
        let via = *rng.pick(&["proc", "proc", "audit", "state"]);
        let trading = if rng.chance(60) { "on" } else { "off" };
        gen_case_dom(&mut rng, &mut out, format!("cfg{id}"), tier, Some(format!("{kinds} {trading} {links} {via}")));
    }
    out.flush();
}

fn main() {
    let a = args();
    match a.cmd.as_str() {
        "gen" => generate(a.seed, a.n, &a.tier),
        "run" => run(),
        _ => {
            eprintln!("usage: c15 gen <seed> <n> <tier> | run < cases");
            std::process::exit(2)
        }
    }
}
