//! C15 — unrealised PnL of an open position tracks the instrument's latest price.
//!
//! Every op goes through the real `Engine::process` (trading disabled):
//!   `init <n>`                                           engine with `n` instruments on one exchange
//!   `fill <id> <instr> <time> <B|S> <price> <qty> <fee>` `EngineEvent::Account(Item(Trade))`
//!   `trade <instr> <time> <price>`                       `EngineEvent::Market(Item(DataKind::Trade))`
//!   `l1 <instr> <te> <tl> <bidP> <bidA> <askP> <askA>`   `EngineEvent::Market(Item(DataKind::OrderBookL1))`
//!   `other <instr> <time>`                               a `Candle` (even time) / `Liquidation` (odd time) item
//!
//! Observations after each op, per instrument `i` (label = position in `init`):
//!   `price<i>`  `InstrumentDataState::price()`
//!   `pos<i>`    side, entry average, quantity, max quantity, entry fees of `position.current`
//!   `upnl<i>`   `position.current.pnl_unrealised`
use barter::{
    EngineEvent,
    engine::{
        Processor,
        audit::EngineAudit,
        state::{instrument::data::InstrumentDataState, trading::TradingState},
    },
    execution::AccountStreamEvent,
};
use barter_data::{
    books::Level,
    event::{DataKind, MarketEvent},
    streams::consumer::MarketStreamEvent,
    subscription::{book::OrderBookL1, candle::Candle, liquidation::Liquidation, trade::PublicTrade},
};
use barter_execution::{
    AccountEvent, AccountEventKind,
    order::id::{OrderId, StrategyId},
    trade::{AssetFees, Trade, TradeId},
};
use barter_instrument::{Side, exchange::ExchangeIndex, instrument::InstrumentIndex};
use rust_decimal::Decimal;
use vh::{engine_util::*, *};

fn s2s(s: Side) -> &'static str {
    match s {
        Side::Buy => "B",
        Side::Sell => "S",
    }
}

fn observe(engine: &TestEngine, map: &[usize], lines: &mut Vec<String>) {
    for (i, idx) in map.iter().enumerate() {
        let st = engine.state.instruments.instrument_index(&InstrumentIndex(*idx));
        lines.push(format!("price{i} {}", fmt_opt_dec_approx(st.data.price())));
        lines.push(match &st.position.current {
            None => format!("pos{i} none"),
            Some(p) => format!(
                "pos{i} {} {} {} {} {}",
                s2s(p.side),
                fmt_dec_approx(p.price_entry_average),
                fmt_dec(p.quantity_abs),
                fmt_dec(p.quantity_abs_max),
                fmt_dec_approx(p.fees_enter.fees)
            ),
        });
        lines.push(format!(
            "upnl{i} {}",
            fmt_opt_dec_approx(st.position.current.as_ref().map(|p| p.pnl_unrealised))
        ));
    }
}

/// `None` = malformed (`bad-op`). An instrument label the engine was not built with becomes an
/// `InstrumentIndex` the engine does not have (the real code then panics by itself).
fn parse_event(op: &[String], map: &[usize]) -> Option<Event> {
    let idx = |label: usize| {
        map.get(label).map(|k| InstrumentIndex(*k)).unwrap_or(InstrumentIndex(map.len() + 7))
    };
    match (op[0].as_str(), op.len()) {
        ("fill", 8) => {
            let id: u64 = op[1].parse().ok()?;
            let label: usize = op[2].parse().ok()?;
            let time: i64 = op[3].parse().ok()?;
            let side = match op[4].as_str() {
                "B" => Side::Buy,
                "S" => Side::Sell,
                _ => return None,
            };
            let price: Decimal = op[5].parse().ok()?;
            let qty: Decimal = op[6].parse().ok()?;
            let fee: Decimal = op[7].parse().ok()?;
            if qty <= Decimal::ZERO {
                return None;
            }
            let instrument = idx(label);
            Some(EngineEvent::Account(AccountStreamEvent::Item(AccountEvent {
                    exchange: ExchangeIndex(0),
                    kind: AccountEventKind::Trade(Trade {
                        id: TradeId::new(id.to_string()),
                        order_id: OrderId::new(format!("o{id}")),
                        instrument,
                        strategy: StrategyId::new("verif"),
                        time_exchange: time_ms(time),
                        side,
                        price,
                        quantity: qty,
                        fees: AssetFees::quote_fees(fee),
                    }),
                })))
        }
        ("trade", 4) | ("other", 3) | ("l1", 8) => {
            let label: usize = op[1].parse().ok()?;
            let te: i64 = op[2].parse().ok()?;
            let kind = match op[0].as_str() {
                "trade" => {
                    // validated as a decimal literal first so that both sides reject the same text
                    let _: Decimal = op[3].parse().ok()?;
                    DataKind::Trade(PublicTrade {
                        id: "t".into(),
                        price: op[3].parse::<f64>().ok()?,
                        amount: 1.0,
                        side: Side::Buy,
                    })
                }
                "l1" => {
                    let tl: i64 = op[3].parse().ok()?;
                    let bp: Decimal = op[4].parse().ok()?;
                    let ba: Decimal = op[5].parse().ok()?;
                    let ap: Decimal = op[6].parse().ok()?;
                    let aa: Decimal = op[7].parse().ok()?;
                    if ba < Decimal::ZERO || aa < Decimal::ZERO || (ba + aa).is_zero() {
                        return None;
                    }
                    DataKind::OrderBookL1(OrderBookL1 {
                        last_update_time: time_ms(tl),
                        best_bid: Some(Level::new(bp, ba)),
                        best_ask: Some(Level::new(ap, aa)),
                    })
                }
                _ => {
                    if te % 2 == 0 {
                        DataKind::Candle(Candle {
                            close_time: time_ms(te),
                            open: 1.0,
                            high: 1000.0,
                            low: 1.0,
                            close: 777.0,
                            volume: 3.0,
                            trade_count: 2,
                        })
                    } else {
                        DataKind::Liquidation(Liquidation {
                            side: Side::Sell,
                            price: 777.0,
                            quantity: 1.0,
                            time: time_ms(te),
                        })
                    }
                }
            };
            let instrument = idx(label);
            Some(EngineEvent::Market(MarketStreamEvent::Item(MarketEvent {
                time_exchange: time_ms(te),
                // received later than any exchange timestamp used by the generators
                time_received: time_ms(te + 100_000),
                exchange: EXCHANGES[0],
                instrument,
                kind,
            })))
        }
        _ => None,
    }
}

fn run() {
    run_cases(|case, lines| {
        let mut built: Option<Built> = None;
        let mut map: Vec<usize> = vec![];
        for op in case.ops.iter() {
            lines.push("@".into());
            if op[0] == "init" {
                let Some(n) = op.get(1).and_then(|s| s.parse::<usize>().ok()).filter(|_| op.len() == 2)
                else {
                    lines.push("bad-op".into());
                    continue;
                };
                let names: Vec<String> = (0..n).map(|k| format!("b{k}")).collect();
                let defs: Vec<(usize, &str, &str)> =
                    names.iter().map(|b| (0usize, b.as_str(), "usdt")).collect();
                let instruments = build_instruments(&defs);
                let b = build_engine(&instruments, &[], TradingState::Disabled);
                map = (0..n)
                    .map(|i| {
                        b.engine
                            .state
                            .instruments
                            .0
                            .values()
                            .position(|s| {
                                s.instrument.name_internal.name().as_str() == format!("b{i}_usdt_x0")
                            })
                            .unwrap()
                    })
                    .collect();
                observe(&b.engine, &map, lines);
                built = Some(b);
                continue;
            }
            let Some(b) = built.as_mut() else {
                // the drivers start from an engine with no instrument
                match parse_event(op, &map) {
                    None => lines.push("bad-op".into()),
                    Some(_) => lines.push("panic".into()),
                }
                continue;
            };
            let engine = &mut b.engine;
            match parse_event(op, &map) {
                None => lines.push("bad-op".into()),
                Some(ev) => {
                    let r = std::panic::catch_unwind(std::panic::AssertUnwindSafe(|| engine.process(ev)));
                    match r {
                        Err(_) => {
                            lines.push("panic".into());
                            continue;
                        }
                        Ok(audit) => {
                            if let EngineAudit::Process(p) = &audit {
                                if !p.errors.is_empty() {
                                    lines.push("audit-errors".into());
                                }
                            } else {
                                lines.push("audit-feed-ended".into());
                            }
                        }
                    }
                    observe(engine, &map, lines);
                }
            }
        }
    });
}

// ------------------------------------------------------------------------------------ generator

const PRICES: &[&str] = &["100", "101", "99.5", "150", "80", "100.25"];
/// negative = a maker rebate (legal input: `Trade.fees` is signed and the realised-PnL code handles rebates)
const FEES: &[&str] = &["0", "0", "0.1", "1", "2.5", "-0.2", "-1"];
/// (bid price, bid amount, ask price, ask amount)
const BOOKS: &[(&str, &str, &str, &str)] = &[
    ("99", "1", "101", "3"),
    ("104", "2", "106", "2"),
    ("99.5", "0.7", "100.5", "0.3"),
    ("149", "5", "151", "1"),
    ("80", "0", "82", "4"),
];

fn qty_str(q: i64) -> String {
    dec_str(q, 1)
}

fn gen_case(rng: &mut Rng, out: &mut Out, id: String, tier: &str) {
    out.case(id);
    let n = rng.range(1, 3) as usize;
    out.line(format!("init {n}"));
    let max_len = if tier == "thorough" { 60 } else { 30 };
    let len = rng.range(1, max_len);
    // probability (percent) of a fill; the rest are market events
    let fill_pct = *rng.pick(&[30u64, 50, 70]);
    let stale_pct = *rng.pick(&[0u64, 20, 50]);
    let wild = rng.chance(8);
    // net position per instrument, in tenths
    let mut nets = vec![0i64; n];
    let mut time = 0i64;
    let mut next_id = 1u64;
    for _ in 0..len {
        let mut instr = rng.below(n as u64) as usize;
        if wild && rng.chance(5) {
            instr = n; // unknown instrument: the engine panics, nothing changes
        }
        if rng.chance(70) {
            time += rng.range(1, 4);
        }
        // market events may carry an old exchange time (the registers keep the newer data, the
        // unrealised PnL is still re-evaluated at the current price)
        let t_ev = if rng.chance(stale_pct) { rng.range(0, time.max(1)) } else { time };
        if rng.chance(fill_pct) {
            let net = if instr < n { nets[instr] } else { 0 };
            let (buy, q) = if net != 0 && rng.chance(55) {
                let a = net.abs();
                let q = match rng.below(6) {
                    0 => a,                                // exact close
                    1 => a * 2,                            // flip to the mirror position
                    2 => a + *rng.pick(&[5i64, 10, 20]),   // flip with a remainder
                    3 | 4 => (a / 2).max(1),               // reduce
                    _ => a + 5,                            // flip by the smallest step
                };
                (net < 0, q)
            } else if net != 0 && rng.chance(50) {
                (net > 0, *rng.pick(&[5i64, 10, 15, 20, 30])) // increase
            } else {
                (rng.chance(50), *rng.pick(&[5i64, 10, 15, 20, 30]))
            };
            let price = *rng.pick(PRICES);
            let fee = *rng.pick(FEES);
            let id = next_id;
            next_id += 1;
            // fills, too, may be delivered out of exchange-time order (partial fills of one order
            // swapped, a late or replayed fill after a reconnect): the estimate after a fill does not
            // depend on the fill's timestamp
            let t_fill = if rng.chance(stale_pct) { rng.range(0, time.max(1)) } else { time };
            out.line(format!(
                "fill {id} {instr} {t_fill} {} {price} {} {fee}",
                if buy { "B" } else { "S" },
                qty_str(q)
            ));
            if instr < n {
                nets[instr] += if buy { q } else { -q };
            }
        } else {
            match rng.below(100) {
                0..=44 => out.line(format!("trade {instr} {t_ev} {}", rng.pick(PRICES))),
                45..=89 => {
                    let (bp, ba, ap, aa) = *rng.pick(BOOKS);
                    // 10 %: the payload's own time differs from the event time
                    let tl = if rng.chance(10) { rng.range(0, time.max(1)) } else { t_ev };
                    out.line(format!("l1 {instr} {t_ev} {tl} {bp} {ba} {ap} {aa}"));
                }
                _ => out.line(format!("other {instr} {t_ev}")),
            }
        }
    }
}

fn generate(seed: u64, n_cases: usize, tier: &str) {
    let mut out = Out::new();
    let mut rng = Rng::new(seed);
    let mut id = 0usize;
    // fixed scenarios, always first: the two findings' witnesses and the F5 witness
    let fixed: &[&[&str]] = &[
        &["init 1", "fill 1 0 1 B 100 2 1", "trade 0 2 150", "l1 0 3 3 99 1 101 3", "other 0 4"],
        &["init 1", "fill 1 0 1 B 100 2 0", "fill 2 0 2 S 110 3 3", "trade 0 3 90"],
        &["init 2", "trade 1 1 90", "fill 1 1 2 S 100 1 0.5", "fill 2 1 3 S 120 1 0.5", "fill 3 1 4 B 110 0.5 0.1", "trade 1 2 70", "l1 1 5 5 104 2 106 2", "trade 0 9 1"],
    ];
    for ops in fixed {
        id += 1;
        out.case(format!("f{id}"));
        for o in ops.iter() {
            out.line(o);
        }
    }
    if tier == "thorough" {
        // exhaustive: every event sequence of length <= 4 over 13 symbols on one instrument
        let mut syms: Vec<String> = vec![];
        for side in ["B", "S"] {
            for q in [1, 2] {
                for (p, f) in [(100, 1), (150, 0)] {
                    syms.push(format!("fill {{id}} 0 {{t}} {side} {p} {q} {f}"));
                }
            }
        }
        syms.push("trade 0 1 90".into());
        syms.push("trade 0 2 110".into());
        syms.push("l1 0 1 1 99 1 101 3".into());
        syms.push("l1 0 2 2 104 2 106 2".into());
        syms.push("other 0 3".into());
        let a = syms.len();
        for len in 1..=4usize {
            for mut code in 0..a.pow(len as u32) {
                id += 1;
                out.case(format!("x{id}"));
                out.line("init 1");
                for k in 0..len {
                    let s = syms[code % a]
                        .replace("{id}", &(k + 1).to_string())
                        .replace("{t}", &(k * 10).to_string());
                    out.line(s);
                    code /= a;
                }
            }
        }
    }
    for _ in 0..n_cases {
        id += 1;
        gen_case(&mut rng, &mut out, format!("r{id}"), tier);
    }
    out.flush();
}

fn main() {
    let a = args();
    match a.cmd.as_str() {
        "gen" => generate(a.seed, a.n, &a.tier),
        "run" => run(),
        _ => {
            eprintln!("usage: c15 gen <seed> <n> <tier> | run < cases");
            std::process::exit(2)
        }
    }
}
