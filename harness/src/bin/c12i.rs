//! C12I — `init_market_stream` (barter-data/src/streams/consumer.rs:44-80), the one place where the repository
//! composes `init_reconnecting_stream` + `with_reconnect_backoff` + `with_termination_on_error` +
//! `with_reconnection_events`, called FOR REAL with a scripted exchange.
//!
//! `Scripted<N>` is a harness-local `Connector` (associated subscriber / validator / response types reused from
//! the repository; none of them is ever called) + `StreamSelector` whose `Stream` type is `ScriptedStream`, a
//! harness-local `MarketStream`: its `init` pops the next entry of a global script (init failure, or a finite
//! list of `Ok(event)` / `Err(non-terminal DataError: each of the seven variants)` / `Err(DataError::InvalidSequence)` / latency, ending or
//! staying open) and logs the call with the number of subscriptions it was handed. Every `conn` op appends one
//! `init` outcome and re-runs `init_market_stream::<Scripted<N>, MarketDataInstrument, PublicTrades>(policy,
//! subscriptions)` on the script so far, on a fresh current-thread runtime with a paused clock; the returned
//! stream is consumed as it is (`mode events`) or with `.with_error_handler(..)` appended (`mode handler`, the
//! pattern documented in barter-data/src/lib.rs:84-86); everything observed is stamped with
//! `tokio::time::Instant` (back-off waits = stamp differences).
use barter_data::{
    Identifier, MarketStream, NoInitialSnapshots, SnapshotFetcher,
    error::DataError,
    event::MarketEvent,
    exchange::{
        Connector, StreamSelector, binance::subscription::BinanceSubResponse, subscription::ExchangeSub,
    },
    streams::{
        consumer::{STREAM_RECONNECTION_POLICY, init_market_stream},
        reconnect::{
            Event,
            stream::{ReconnectingStream, ReconnectionBackoffPolicy},
        },
    },
    subscriber::{WebSocketSubscriber, validator::WebSocketSubValidator},
    subscription::{
        SubKind, Subscription,
        trade::{PublicTrade, PublicTrades},
    },
};
use barter_instrument::{
    Side,
    exchange::ExchangeId,
    index::error::IndexError,
    instrument::market_data::{MarketDataInstrument, kind::MarketDataInstrumentKind},
};
use barter_integration::{error::SocketError, protocol::websocket::WsMessage, subscription::SubscriptionId};
use chrono::{TimeZone, Utc};
use futures::{Stream, StreamExt, stream::BoxStream};
use serde::{Deserialize, Serialize};
use std::{
    collections::VecDeque,
    future::Future,
    pin::Pin,
    sync::{Arc, Mutex},
    task::{Context, Poll},
    time::Duration,
};
use vh::*;

// ------------------------------------------------------------------------------- script types

#[derive(Debug, Clone, Copy)]
enum ErrKind {
    InvalidSequence,
    Socket,
    SnapshotMissing,
    SnapshotInvalid,
    // the four variants the repository's own streams do not yield (init / indexing errors): nothing in the types
    // keeps them out of a stream, and `is_terminal` classifies them too
    Index,
    SubscriptionsEmpty,
    UnsupportedSubKind,
    Unsupported,
}

const SUB_KINDS: [SubKind; 6] = [
    SubKind::PublicTrades,
    SubKind::OrderBooksL1,
    SubKind::OrderBooksL2,
    SubKind::OrderBooksL3,
    SubKind::Liquidations,
    SubKind::Candles,
];

#[derive(Debug, Clone, Copy)]
enum Elem {
    Item(u64),
    Error(ErrKind, u64),
    Delay(u64),
}

#[derive(Debug, Clone)]
enum Conn {
    Fail,
    Ok(Vec<Elem>, bool),
}

/// decimal digits only (what `String.toNat?` of the Lean driver accepts; `str::parse` would also take `+5`)
fn num(s: &str) -> Option<u64> {
    if s.is_empty() || !s.bytes().all(|b| b.is_ascii_digit()) {
        return None;
    }
    s.parse().ok()
}

fn parse_conn(toks: &[String]) -> Option<Conn> {
    match toks.first()?.as_str() {
        "fail" if toks.len() == 1 => Some(Conn::Fail),
        "ok" => {
            let mut elems = vec![];
            let mut hang = false;
            for (k, t) in toks[1..].iter().enumerate() {
                if t == "hang" {
                    // only as the last token (as in the Lean driver)
                    if k + 2 != toks.len() {
                        return None;
                    }
                    hang = true;
                    continue;
                }
                if t.is_empty() || !t.is_char_boundary(1) {
                    return None;
                }
                let n: u64 = num(&t[1..])?;
                elems.push(match &t[..1] {
                    "i" => Elem::Item(n),
                    "T" => Elem::Error(ErrKind::InvalidSequence, n),
                    "e" => Elem::Error(ErrKind::Socket, n),
                    "m" => Elem::Error(ErrKind::SnapshotMissing, n),
                    "v" => Elem::Error(ErrKind::SnapshotInvalid, n),
                    "n" => Elem::Error(ErrKind::Index, n),
                    // no payload
                    "s" if n == 0 => Elem::Error(ErrKind::SubscriptionsEmpty, 0),
                    // payload = SubKind #n
                    "k" if n < 6 => Elem::Error(ErrKind::UnsupportedSubKind, n),
                    // payload = (mock | simulated, SubKind #(n % 6))
                    "u" if n < 12 => Elem::Error(ErrKind::Unsupported, n),
                    "d" => Elem::Delay(n),
                    _ => return None,
                });
            }
            Some(Conn::Ok(elems, hang))
        }
        _ => None,
    }
}

fn data_error(kind: ErrKind, id: u64) -> DataError {
    match kind {
        ErrKind::InvalidSequence => DataError::InvalidSequence {
            prev_last_update_id: id,
            first_update_id: 0,
        },
        ErrKind::Socket => DataError::Socket(id.to_string()),
        ErrKind::SnapshotMissing => DataError::InitialSnapshotMissing(SubscriptionId::from(id.to_string().as_str())),
        ErrKind::SnapshotInvalid => DataError::InitialSnapshotInvalid(id.to_string()),
        ErrKind::Index => DataError::Index(IndexError::InstrumentIndex(id.to_string())),
        ErrKind::SubscriptionsEmpty => DataError::SubscriptionsEmpty,
        ErrKind::UnsupportedSubKind => DataError::UnsupportedSubKind(SUB_KINDS[id as usize]),
        ErrKind::Unsupported => DataError::Unsupported {
            exchange: if id < 6 { ExchangeId::Mock } else { ExchangeId::Simulated },
            sub_kind: SUB_KINDS[(id % 6) as usize],
        },
    }
}

fn sub_kind_index(k: &SubKind) -> Option<usize> {
    SUB_KINDS.iter().position(|x| x == k)
}

/// `<kind letter><id>` of a delivered / handled error (the inverse of `data_error`)
fn fmt_err(e: &DataError) -> String {
    match e {
        DataError::InvalidSequence {
            prev_last_update_id, ..
        } => format!("T{prev_last_update_id}"),
        DataError::Socket(s) => format!("e{s}"),
        DataError::InitialSnapshotMissing(id) => format!("m{}", id.0),
        DataError::InitialSnapshotInvalid(s) => format!("v{s}"),
        DataError::Index(IndexError::InstrumentIndex(s)) => format!("n{s}"),
        DataError::SubscriptionsEmpty => "s0".to_string(),
        DataError::UnsupportedSubKind(k) if sub_kind_index(k).is_some() => format!("k{}", sub_kind_index(k).unwrap()),
        DataError::Unsupported { exchange, sub_kind }
            if sub_kind_index(sub_kind).is_some() && matches!(exchange, ExchangeId::Mock | ExchangeId::Simulated) =>
        {
            format!("u{}", sub_kind_index(sub_kind).unwrap() + if *exchange == ExchangeId::Mock { 0 } else { 6 })
        }
        other => format!("other:{}", format!("{other:?}").replace(' ', "_")),
    }
}

// ------------------------------------------------------------------------------- shared log + global script

#[derive(Clone)]
struct Log {
    lines: Arc<Mutex<Vec<String>>>,
    start: tokio::time::Instant,
}

impl Log {
    fn t(&self) -> u128 {
        self.start.elapsed().as_millis()
    }
    fn push(&self, s: String) {
        self.lines.lock().unwrap().push(s);
    }
}

struct Shared {
    script: VecDeque<Conn>,
    log: Log,
}

/// `MarketStream::init` has no receiver: the script of the current run lives here (one run at a time).
static SHARED: Mutex<Option<Shared>> = Mutex::new(None);

// ------------------------------------------------------------------------------- the scripted exchange

/// Harness-local connector; `N` selects the `ExchangeId` (the origin of the `Reconnecting` notices).
#[derive(Clone, Default, Debug, Deserialize, Serialize)]
struct Scripted<const N: u8>;

struct ScriptChannel;
struct ScriptMarket;

impl AsRef<str> for ScriptChannel {
    fn as_ref(&self) -> &str {
        "scripted"
    }
}

impl AsRef<str> for ScriptMarket {
    fn as_ref(&self) -> &str {
        "scripted"
    }
}

impl<const N: u8> Identifier<ScriptChannel> for Subscription<Scripted<N>, MarketDataInstrument, PublicTrades> {
    fn id(&self) -> ScriptChannel {
        ScriptChannel
    }
}

impl<const N: u8> Identifier<ScriptMarket> for Subscription<Scripted<N>, MarketDataInstrument, PublicTrades> {
    fn id(&self) -> ScriptMarket {
        ScriptMarket
    }
}

impl<const N: u8> Connector for Scripted<N> {
    const ID: ExchangeId = if N == 0 { ExchangeId::Mock } else { ExchangeId::Simulated };
    type Channel = ScriptChannel;
    type Market = ScriptMarket;
    // never used: `ScriptedStream::init` replaces connect + subscribe + validate
    type Subscriber = WebSocketSubscriber;
    type SubValidator = WebSocketSubValidator;
    type SubResponse = BinanceSubResponse;

    fn url() -> Result<url::Url, SocketError> {
        unreachable!("the scripted exchange is never connected to")
    }

    fn requests(_: Vec<ExchangeSub<Self::Channel, Self::Market>>) -> Vec<WsMessage> {
        unreachable!("the scripted exchange is never subscribed to")
    }
}

type Item = Result<MarketEvent<MarketDataInstrument, PublicTrade>, DataError>;

/// The harness's `MarketStream`: one scripted connection.
struct ScriptedStream(BoxStream<'static, Item>);

impl Stream for ScriptedStream {
    type Item = Item;
    fn poll_next(mut self: Pin<&mut Self>, cx: &mut Context<'_>) -> Poll<Option<Self::Item>> {
        self.0.as_mut().poll_next(cx)
    }
}

fn inner_stream(exchange: ExchangeId, instrument: MarketDataInstrument, elems: Vec<Elem>, hang: bool) -> BoxStream<'static, Item> {
    let s = futures::stream::iter(elems).filter_map(move |el| {
        let instrument = instrument.clone();
        async move {
            match el {
                Elem::Item(x) => Some(Ok(MarketEvent {
                    time_exchange: Utc.timestamp_millis_opt(0).unwrap(),
                    time_received: Utc.timestamp_millis_opt(0).unwrap(),
                    exchange,
                    instrument,
                    kind: PublicTrade {
                        id: x.to_string(),
                        price: x as f64,
                        amount: 1.0,
                        side: Side::Buy,
                    },
                })),
                Elem::Error(kind, id) => Some(Err(data_error(kind, id))),
                Elem::Delay(ms) => {
                    tokio::time::sleep(Duration::from_millis(ms)).await;
                    None
                }
            }
        }
    });
    if hang {
        s.chain(futures::stream::pending()).boxed()
    } else {
        s.boxed()
    }
}

/// `#[async_trait] async fn init<SnapFetcher>(..)` of `MarketStream` (barter-data/src/lib.rs:175-197), written in
/// the desugared form of the `async_trait` macro (the harness crate does not depend on it).
impl<const N: u8> MarketStream<Scripted<N>, MarketDataInstrument, PublicTrades> for ScriptedStream {
    fn init<'life0, 'async_trait, SnapFetcher>(
        subscriptions: &'life0 [Subscription<Scripted<N>, MarketDataInstrument, PublicTrades>],
    ) -> Pin<Box<dyn Future<Output = Result<Self, DataError>> + Send + 'async_trait>>
    where
        SnapFetcher: SnapshotFetcher<Scripted<N>, PublicTrades>,
        Subscription<Scripted<N>, MarketDataInstrument, PublicTrades>:
            Identifier<ScriptChannel> + Identifier<ScriptMarket>,
        SnapFetcher: 'async_trait,
        'life0: 'async_trait,
        Self: 'async_trait,
    {
        Box::pin(async move {
            // the subscriptions as handed over by `init_market_stream`: `<n>`, or `<n>!` if they are not the
            // caller's list (instrument k = `s<k>`/`usdt` spot on this connector)
            let intact = subscriptions.iter().enumerate().all(|(k, s)| s.instrument == instrument(k));
            let seen = format!("{}{}", subscriptions.len(), if intact { "" } else { "!" });
            let (next, log) = {
                let mut guard = SHARED.lock().unwrap();
                let shared = guard.as_mut().expect("a run is in progress");
                (shared.script.pop_front(), shared.log.clone())
            };
            match next {
                None => {
                    futures::future::pending::<()>().await;
                    unreachable!()
                }
                Some(Conn::Fail) => {
                    log.push(format!("ev att {} {seen}", log.t()));
                    Err(DataError::Socket("scripted init failure".into()))
                }
                Some(Conn::Ok(elems, hang)) => {
                    log.push(format!("ev att {} {seen}", log.t()));
                    let first = subscriptions.first().map(|s| s.instrument.clone()).unwrap_or_else(|| instrument(0));
                    Ok(ScriptedStream(inner_stream(<Scripted<N> as Connector>::ID, first, elems, hang)))
                }
            }
        })
    }
}

impl<const N: u8> StreamSelector<MarketDataInstrument, PublicTrades> for Scripted<N> {
    type SnapFetcher = NoInitialSnapshots;
    type Stream = ScriptedStream;
}

fn instrument(k: usize) -> MarketDataInstrument {
    MarketDataInstrument::new(format!("s{k}"), "usdt".to_string(), MarketDataInstrumentKind::Spot)
}

// ------------------------------------------------------------------------------- one run

#[derive(Debug, Clone, Copy)]
enum Mode {
    Events,
    Handler,
}

fn run_script<const N: u8>(policy: &ReconnectionBackoffPolicy, mode: Mode, nsubs: usize, script: &[Conn]) -> Vec<String> {
    let rt = tokio::runtime::Builder::new_current_thread()
        .enable_time()
        .start_paused(true)
        .build()
        .unwrap();
    let policy = policy.clone();
    let script: VecDeque<Conn> = script.iter().cloned().collect();
    rt.block_on(async move {
        let log = Log {
            lines: Arc::new(Mutex::new(vec![])),
            start: tokio::time::Instant::now(),
        };
        *SHARED.lock().unwrap() = Some(Shared {
            script,
            log: log.clone(),
        });
        let returned = Arc::new(Mutex::new(false));
        let subscriptions: Vec<Subscription<Scripted<N>, MarketDataInstrument, PublicTrades>> = (0..nsubs)
            .map(|k| Subscription::new(Scripted::<N>, instrument(k), PublicTrades))
            .collect();

        let fut = {
            let log = log.clone();
            let returned = returned.clone();
            async move {
                // THE function under test
                let stream = match init_market_stream(policy, subscriptions).await {
                    Ok(stream) => stream,
                    Err(DataError::SubscriptionsEmpty) => return "no-subscriptions",
                    Err(_) => return "init-error",
                };
                *returned.lock().unwrap() = true;
                match mode {
                    Mode::Events => {
                        let mut stream = Box::pin(stream);
                        while let Some(ev) = stream.next().await {
                            let t = log.t();
                            log.push(match ev {
                                Event::Reconnecting(origin) => format!("ev notice {} {t}", origin.as_str()),
                                Event::Item(Ok(ev)) => format!("ev item {} {t}", ev.kind.price as u64),
                                Event::Item(Err(e)) => format!("ev err {} {t}", fmt_err(&e)),
                            });
                        }
                        "ended"
                    }
                    Mode::Handler => {
                        let hlog = log.clone();
                        let stream = stream.with_error_handler(move |e: DataError| {
                            hlog.push(format!("ev handled {} {}", fmt_err(&e), hlog.t()));
                        });
                        let mut stream = Box::pin(stream);
                        while let Some(ev) = stream.next().await {
                            let t = log.t();
                            log.push(match ev {
                                Event::Reconnecting(origin) => format!("ev notice {} {t}", origin.as_str()),
                                Event::Item(ev) => format!("ev item {} {t}", ev.kind.price as u64),
                            });
                        }
                        "ended"
                    }
                }
            }
        };

        // far beyond any scripted wait: when it fires the stream is pending for good
        let fin = match tokio::time::timeout(Duration::from_secs(100_000_000), fut).await {
            Ok(fin) => fin,
            Err(_) => {
                if *returned.lock().unwrap() {
                    "pending"
                } else {
                    "init-pending"
                }
            }
        };
        *SHARED.lock().unwrap() = None;
        let mut lines = log.lines.lock().unwrap().clone();
        let n = lines.iter().filter(|l| l.starts_with("ev ")).count();
        lines.push(format!("evn {n}"));
        lines.push(format!("fin {fin}"));
        lines
    })
}

// ------------------------------------------------------------------------------- run

fn run() {
    run_cases(|case, lines| {
        let mut policy = STREAM_RECONNECTION_POLICY;
        let mut mode = Mode::Events;
        let mut exchange = 0u8;
        let mut nsubs = 1usize;
        let mut script: Vec<Conn> = vec![];
        for op in &case.ops {
            lines.push("@".into());
            let toks: Vec<&str> = op.iter().map(|s| s.as_str()).collect();
            match toks.as_slice() {
                ["exchange", "mock"] => exchange = 0,
                ["exchange", "simulated"] => exchange = 1,
                ["policy", "default"] => {
                    // the constant every builder of the repository passes
                    policy = STREAM_RECONNECTION_POLICY;
                    lines.push(format!(
                        "policy {} {} {}",
                        policy.backoff_ms_initial, policy.backoff_multiplier, policy.backoff_ms_max
                    ));
                }
                ["policy", i, m, x] => match (num(i), num(m).and_then(|m| u8::try_from(m).ok()), num(x)) {
                    (Some(i), Some(m), Some(x)) => {
                        policy = ReconnectionBackoffPolicy::new(i, m, x);
                        lines.push(format!(
                            "policy {} {} {}",
                            policy.backoff_ms_initial, policy.backoff_multiplier, policy.backoff_ms_max
                        ));
                    }
                    _ => lines.push("bad-op".into()),
                },
                ["mode", "events"] => mode = Mode::Events,
                ["mode", "handler"] => mode = Mode::Handler,
                ["subs", n] => match num(n) {
                    Some(n) => nsubs = n as usize,
                    None => lines.push("bad-op".into()),
                },
                ["conn", ..] => match parse_conn(&op[1..]) {
                    Some(c) => {
                        script.push(c);
                        lines.extend(if exchange == 0 {
                            run_script::<0>(&policy, mode, nsubs, &script)
                        } else {
                            run_script::<1>(&policy, mode, nsubs, &script)
                        });
                    }
                    None => lines.push("bad-op".into()),
                },
                _ => lines.push("bad-op".into()),
            }
        }
    });
}

// ------------------------------------------------------------------------------- generators (scripts as in c12.rs)

fn gen_elems(rng: &mut Rng, max_len: i64, terminal_pct: u64) -> String {
    let len = rng.range(0, max_len);
    let mut toks = vec![];
    for _ in 0..len {
        let r = rng.below(100);
        // few distinct payloads so that duplicates across and within connections occur
        let x = rng.below(4) + 1;
        if r < terminal_pct {
            toks.push(format!("T{x}"));
        } else if r < terminal_pct + 18 {
            // every non-terminal variant of DataError (`s` = SubscriptionsEmpty carries no payload)
            let k = *rng.pick(&["e", "e", "m", "v", "n", "s", "k", "u"]);
            if k == "s" {
                toks.push("s0".to_string());
            } else if k == "u" {
                toks.push(format!("u{}", x + 6 * rng.below(2)));
            } else {
                toks.push(format!("{k}{x}"));
            }
        } else if r < terminal_pct + 28 {
            toks.push(format!("d{}", rng.pick(&[0u64, 1, 7, 50])));
        } else {
            toks.push(format!("i{x}"));
        }
    }
    toks.join(" ")
}

fn gen_conn(rng: &mut Rng, fail_pct: u64, max_len: i64, terminal_pct: u64, hang_pct: u64) -> String {
    if rng.chance(fail_pct) {
        "conn fail".into()
    } else {
        let e = gen_elems(rng, max_len, terminal_pct);
        let hang = if rng.chance(hang_pct) { " hang" } else { "" };
        format!("conn ok {e}{hang}").replace("  ", " ").trim_end().to_string()
    }
}

fn gen_policy(rng: &mut Rng) -> String {
    if rng.chance(40) {
        return "policy default".into();
    }
    // includes mult 0/1, initial 0, initial > max, max 0
    let initial = *rng.pick(&[0u64, 1, 10, 100, 125, 700]);
    let mult = *rng.pick(&[0u64, 1, 2, 2, 3, 10]);
    let max = *rng.pick(&[0u64, 5, 500, 500, 1000, 60000]);
    format!("policy {initial} {mult} {max}")
}

fn generate(seed: u64, n_cases: usize, tier: &str) {
    let mut out = Out::new();
    let mut rng = Rng::new(seed);
    let mut id = 0usize;
    let thorough = tier == "thorough";
    if thorough {
        // small-scope exhaustive: every script of <= 4 connections over a 9-symbol alphabet (every error kind,
        // terminal errors on connections that end / stay open), default policy and one with initial > max
        let alphabet = [
            "conn fail",
            "conn ok",
            "conn ok i1",
            "conn ok i1 T2 i3",
            "conn ok e1 n2 s0 i2",
            "conn ok m1 v2 k3 u7 i3",
            "conn ok i1 hang",
            "conn ok T1 hang",
            "conn ok i1 T2 i3 hang",
        ];
        for (pol, mode) in [("policy default", "mode events"), ("policy 700 2 500", "mode handler")] {
            for len in 1..=4usize {
                let total = alphabet.len().pow(len as u32);
                for mut code in 0..total {
                    id += 1;
                    out.case(format!("x{id}"));
                    out.line(pol);
                    out.line(mode);
                    for _ in 0..len {
                        out.line(alphabet[code % alphabet.len()]);
                        code /= alphabet.len();
                    }
                }
            }
        }
    }
    for _ in 0..n_cases {
        id += 1;
        out.case(format!("r{id}"));
        if rng.chance(50) {
            out.line(format!("exchange {}", rng.pick(&["mock", "simulated"])));
        }
        out.line(gen_policy(&mut rng));
        out.line(if rng.chance(60) { "mode events" } else { "mode handler" });
        // the number of subscriptions: mostly 1-3, now and then none (no stream, no init call)
        let r = rng.below(100);
        if r < 6 {
            out.line("subs 0");
        } else if r < 50 {
            out.line(format!("subs {}", rng.range(1, 4)));
        }
        let n_conn = rng.range(1, if thorough { 12 } else { 8 });
        let fail_pct = *rng.pick(&[20u64, 50, 75]);
        let terminal_pct = *rng.pick(&[0u64, 10, 30]);
        let hang_pct = *rng.pick(&[0u64, 10, 30]);
        // the first connection mostly succeeds, otherwise nothing else is reachable
        out.line(gen_conn(&mut rng, 8, 5, terminal_pct, hang_pct / 3));
        for _ in 1..n_conn {
            out.line(gen_conn(&mut rng, fail_pct, 5, terminal_pct, hang_pct / 3));
        }
    }
    gen_domain_families(seed, n_cases, thorough, &mut id, &mut out);
    out.flush();
}

// ------------------------------------------------------------- input-domain families (domain audit)
//
// Separately seeded, appended AFTER the random cases (which stay what they were): failure runs long enough for
// STREAM_RECONNECTION_POLICY to reach its cap (10 failures) and to stay there, scripts of >= 50 `init` outcomes,
// back-off values beyond u32 / multiplier u8::MAX, initial == max and exact hits of the cap, connections with tens
// of elements and bursts of non-terminal errors of every kind, payloads 0 and u64::MAX, many subscriptions.
// Virtual time of a run stays below 2.6e10 ms (see c12.rs: beyond 29 * 2^30 ms tokio's paused-clock timer wheel
// panics under the harness's far-future timeout).

fn gen_payload(rng: &mut Rng) -> u64 {
    *rng.pick(&[0u64, 0, 1, 1, 2, 3, u64::MAX, u64::MAX, 4294967296, 9223372036854775808])
}

fn gen_error_tok(rng: &mut Rng, payload: u64) -> String {
    let k = *rng.pick(&["e", "e", "m", "v", "n", "s", "k", "u"]);
    match k {
        "s" => "s0".to_string(),
        "k" => format!("k{}", payload % 6),
        "u" => format!("u{}", payload % 12),
        _ => format!("{k}{payload}"),
    }
}

fn gen_long_conn(rng: &mut Rng, len: usize, t_at: Option<usize>, hang: bool) -> String {
    let mut toks = vec![];
    let mut k = 0;
    while k < len {
        if Some(k) == t_at {
            toks.push(format!("T{}", gen_payload(rng)));
            k += 1;
        } else if rng.chance(12) {
            // a burst of non-terminal errors, mostly one and the same
            let first = { let p = gen_payload(rng); gen_error_tok(rng, p) };
            for _ in 0..rng.range(3, 9) {
                let tok = if rng.chance(70) { first.clone() } else { let p = gen_payload(rng); gen_error_tok(rng, p) };
                toks.push(tok);
                k += 1;
            }
        } else if rng.chance(5) {
            toks.push(format!("d{}", rng.pick(&[0u64, 1, 999, 60000])));
            k += 1;
        } else {
            toks.push(format!("i{}", gen_payload(rng)));
            k += 1;
        }
    }
    format!("conn ok {}{}", toks.join(" "), if hang { " hang" } else { "" })
}

fn gen_domain_families(seed: u64, n_cases: usize, thorough: bool, id: &mut usize, out: &mut Out) {
    let mut rng = Rng::new(seed ^ 0xD0_12_1D_0D_5EED);
    let n_extra = if thorough { n_cases / 10 } else { std::cmp::max(40, n_cases / 6) };
    for k in 0..n_extra {
        *id += 1;
        let fam = k % 5;
        out.case(format!("{}{id}", ["dfail", "dlong", "dbig", "dedge", "dconn"][fam]));
        if rng.chance(50) {
            out.line(format!("exchange {}", rng.pick(&["mock", "simulated"])));
        }
        let mode = if rng.chance(60) { "mode events" } else { "mode handler" };
        if rng.chance(30) {
            out.line(format!("subs {}", rng.pick(&[1u64, 2, 5, 50, 300])));
        }
        match fam {
            0 => {
                // long failure runs: the repository's policy reaches 60 000 ms after 10 failures and stays there
                out.line(*rng.pick(&[
                    "policy default",
                    "policy default",
                    "policy default",
                    "policy 1 2 60000",
                    "policy 1 255 1000000",
                    "policy 7 3 100000",
                    "policy 500 2 500",
                    "policy 1 2 100000000",
                ]));
                out.line(mode);
                out.line(gen_conn(&mut rng, 0, 3, 10, 0));
                for _ in 0..rng.range(10, if thorough { 70 } else { 36 }) {
                    out.line("conn fail");
                }
                out.line(gen_conn(&mut rng, 0, 3, 10, 0));
                for _ in 0..rng.range(0, 14) {
                    out.line(gen_conn(&mut rng, 80, 2, 10, 0));
                }
                if rng.chance(50) {
                    out.line("conn ok i1 hang");
                }
            }
            1 => {
                out.line(gen_policy(&mut rng));
                out.line(mode);
                let n_conn = rng.range(50, if thorough { 90 } else { 60 });
                let fail_pct = *rng.pick(&[20u64, 50, 75]);
                out.line(gen_conn(&mut rng, 0, 3, 20, 0));
                for _ in 1..n_conn {
                    out.line(gen_conn(&mut rng, fail_pct, 3, 20, 0));
                }
            }
            2 => {
                // at most 3 failures in all (virtual-time bound)
                let initial = *rng.pick(&[4294967295u64, 4294967296, 4294967297, 5000000000, 1000000]);
                let mult = *rng.pick(&[1u64, 2, 255]);
                let max = *rng.pick(&[4294967296u64, 4294967297, 5000000000, 8589934592]);
                out.line(format!("policy {initial} {mult} {max}"));
                out.line(mode);
                let mut fails = 0;
                out.line(gen_conn(&mut rng, 0, 3, 10, 0));
                for _ in 0..rng.range(2, 7) {
                    if fails < 3 && rng.chance(60) {
                        fails += 1;
                        out.line("conn fail");
                    } else {
                        out.line(gen_conn(&mut rng, 0, 3, 20, 0));
                    }
                }
            }
            3 => {
                out.line(*rng.pick(&[
                    "policy 500 2 500",
                    "policy 1 1 1",
                    "policy 60000 2 60000",
                    "policy 1 0 1",
                    "policy 125 4 500",
                    "policy 125 2 1000",
                    "policy 125 2 999",
                    "policy 125 2 1001",
                    "policy 125 2 64000",
                    "policy 125 2 63999",
                    "policy 1 255 65025",
                    "policy 1 255 65024",
                    "policy 1 255 65026",
                    "policy 501 2 500",
                    "policy 499 2 500",
                    "policy 0 255 0",
                    "policy 1 2 0",
                ]));
                out.line(mode);
                out.line(gen_conn(&mut rng, 0, 2, 10, 0));
                for _ in 0..rng.range(1, 3) {
                    for _ in 0..rng.range(2, 11) {
                        out.line("conn fail");
                    }
                    out.line(gen_conn(&mut rng, 0, 2, 10, 0));
                }
            }
            _ => {
                out.line(gen_policy(&mut rng));
                out.line(mode);
                for _ in 0..rng.range(1, 4) {
                    let len = rng.range(20, if thorough { 120 } else { 60 }) as usize;
                    let t_at = match rng.below(5) {
                        0 => Some(0),
                        1 => Some(len - 1),
                        2 => Some(rng.below(len as u64) as usize),
                        _ => None,
                    };
                    let hang = rng.chance(15);
                    out.line(gen_long_conn(&mut rng, len, t_at, hang));
                    if rng.chance(50) {
                        out.line("conn fail");
                    }
                }
                out.line("conn ok i7");
            }
        }
    }
}

fn main() {
    let a = args();
    match a.cmd.as_str() {
        "gen" => generate(a.seed, a.n, &a.tier),
        "run" => run(),
        _ => {
            eprintln!("usage: c12i gen <seed> <n> <tier> | run < cases");
            std::process::exit(2)
        }
    }
}
