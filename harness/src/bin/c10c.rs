//! C10C — channels, droppable transmitters, snapshot+updates pairs, merged / indexed streams and the
//! engine run loops feeding the audit stream. Drives the real code of barter-integration
//! (`channel.rs`, `snapshot.rs`, `stream/merge.rs`, `stream/indexed.rs`) and `barter::engine::run`.
//! Op syntax: see `lean/BarterModel/Driver/C10C.lean`.
use barter::{
    EngineEvent,
    engine::{
        EngineOutput,
        audit::{AuditTick, Auditor, EngineAudit},
        process_with_audit,
        run::{async_run, async_run_with_audit, sync_run, sync_run_with_audit},
    },
};
use barter_data::event::DataKind;
use barter::execution::request::ExecutionRequest;
use barter_execution::order::request::{OrderRequestCancel, OrderRequestOpen};
use barter_instrument::index::error::IndexError;
use barter_integration::{
    Terminal, Unrecoverable,
    channel::{Channel, ChannelState, ChannelTxDroppable, Tx, UnboundedRx, UnboundedTx, mpsc_unbounded},
    snapshot::{SnapUpdates, Snapshot},
    stream::{
        indexed::{IndexedStream, Indexer},
        merge::merge,
    },
};
use futures::{FutureExt, Stream};
use std::{
    cell::{Cell, RefCell},
    collections::BTreeMap,
    pin::Pin,
    rc::Rc,
    sync::{
        Arc, Mutex,
        atomic::{AtomicUsize, Ordering},
    },
    task::{Context, Poll},
};
use tokio_stream::wrappers::UnboundedReceiverStream;
use vh::{engine_proto::*, engine_util::*, *};

type Audit = EngineAudit<EngineEvent<DataKind>, EngineOutput<(), ()>>;
type Tick = AuditTick<Audit>;
type Algo = (Vec<OrderRequestCancel>, Vec<OrderRequestOpen>);

fn poll_once<S: Stream + Unpin>(s: &mut S) -> Poll<Option<S::Item>> {
    let waker = futures::task::noop_waker_ref();
    let mut cx = Context::from_waker(waker);
    Pin::new(s).poll_next(&mut cx)
}

fn join_c(v: &[u64]) -> String {
    if v.is_empty() {
        "-".into()
    } else {
        v.iter().map(|x| x.to_string()).collect::<Vec<_>>().join(",")
    }
}

// ------------------------------------------------------------------------------- channel section

enum RxKind {
    Rx(UnboundedRx<u64>),
    Stream(UnboundedReceiverStream<u64>),
    Dropped,
}

struct ChanSt {
    txs: BTreeMap<usize, UnboundedTx<u64>>,
    next_handle: usize,
    rx: RxKind,
    d: Option<ChannelTxDroppable<UnboundedTx<u64>>>,
}

fn dstate<T>(d: &Option<ChannelTxDroppable<T>>) -> &'static str {
    match d {
        None => "-",
        Some(d) => match d.state {
            ChannelState::Active(_) => "A",
            ChannelState::Disabled => "D",
        },
    }
}

impl ChanSt {
    fn obs(&self, lines: &mut Vec<String>) {
        let (q, alive, senders_rx) = match &self.rx {
            RxKind::Rx(rx) => (rx.rx.len(), 1, Some(rx.rx.sender_strong_count())),
            RxKind::Stream(s) => {
                let rx: &tokio::sync::mpsc::UnboundedReceiver<u64> = s.as_ref();
                (rx.len(), 1, Some(rx.sender_strong_count()))
            }
            RxKind::Dropped => (0, 0, None),
        };
        let senders = senders_rx.unwrap_or_else(|| {
            if let Some(tx) = self.txs.values().next() {
                tx.tx.strong_count()
            } else if let Some(ChannelTxDroppable { state: ChannelState::Active(tx) }) = &self.d {
                tx.tx.strong_count()
            } else {
                0
            }
        });
        lines.push(format!("chan {q} {senders} {alive}"));
        lines.push(format!("dstate {}", dstate(&self.d)));
    }
}

fn chan_op(st: &mut Option<ChanSt>, op: &[String], lines: &mut Vec<String>) {
    if op[0] == "chan" {
        // `Channel::new` (channel.rs:28-33) = `mpsc_unbounded` in a struct
        let Channel { tx, rx } = Channel::<u64>::new();
        let mut txs = BTreeMap::new();
        txs.insert(0, tx);
        *st = Some(ChanSt { txs, next_handle: 1, rx: RxKind::Rx(rx), d: None });
        st.as_ref().unwrap().obs(lines);
        return;
    }
    let s = st.as_mut().expect("chan first");
    let num = |i: usize| -> u64 { op[i].parse().unwrap() };
    match op[0].as_str() {
        "send" => {
            let tx = s.txs.get(&(num(1) as usize)).expect("live handle");
            let r = <UnboundedTx<u64> as Tx>::send(tx, num(2));
            lines.push(format!("sent {}", if r.is_ok() { "ok" } else { "err" }));
        }
        "sink" => {
            let tx = s.txs.get_mut(&(num(1) as usize)).expect("live handle");
            let r = futures::SinkExt::send(tx, num(2)).now_or_never().expect("sink is always ready");
            lines.push(format!("sent {}", if r.is_ok() { "ok" } else { "err" }));
        }
        "clone" => {
            let tx = s.txs.get(&(num(1) as usize)).expect("live handle").clone();
            let h = s.next_handle;
            s.next_handle += 1;
            s.txs.insert(h, tx);
            lines.push(format!("handle {h}"));
        }
        "droptx" => {
            s.txs.remove(&(num(1) as usize)).expect("live handle");
        }
        "tostream" => {
            let rx = std::mem::replace(&mut s.rx, RxKind::Dropped);
            s.rx = match rx {
                RxKind::Rx(rx) => RxKind::Stream(rx.into_stream()),
                other => other,
            };
        }
        "next" => match &mut s.rx {
            RxKind::Rx(rx) => {
                // `Iterator::next` busy-waits while the queue is empty and a transmitter exists: do not call it then
                if rx.rx.is_empty() && rx.rx.sender_strong_count() > 0 {
                    lines.push("next spins".into());
                } else {
                    match rx.next() {
                        Some(x) => lines.push(format!("next some {x}")),
                        None => lines.push("next none".into()),
                    }
                }
            }
            _ => panic!("next needs the UnboundedRx"),
        },
        "nextwait" => {
            // `Iterator::next` on an empty channel with a live transmitter: it must not return before somebody
            // sends. Another thread sends after a delay; the call is timed.
            let v = num(2);
            let RxKind::Rx(rx) = &mut s.rx else { panic!("nextwait needs the UnboundedRx") };
            if rx.rx.is_empty() {
                let tx = s.txs.get(&(num(1) as usize)).expect("live handle").clone();
                let delay = std::time::Duration::from_millis(3);
                let t0 = std::time::Instant::now();
                let sender = std::thread::spawn(move || {
                    std::thread::sleep(delay);
                    tx.send(v).unwrap();
                });
                let got = rx.next();
                let waited = t0.elapsed() >= delay;
                sender.join().unwrap();
                lines.push(format!("waited {}", if waited { 1 } else { 0 }));
                match got {
                    Some(x) => lines.push(format!("next some {x}")),
                    None => lines.push("next none".into()),
                }
            } else {
                lines.push("waited 0".into());
                match rx.next() {
                    Some(x) => lines.push(format!("next some {x}")),
                    None => lines.push("next none".into()),
                }
                s.txs.get(&(num(1) as usize)).expect("live handle").send(v).unwrap();
            }
        }
        "poll" => {
            let r = match &mut s.rx {
                RxKind::Rx(rx) => poll_once(rx),
                RxKind::Stream(st) => poll_once(st),
                RxKind::Dropped => panic!("poll after droprx"),
            };
            lines.push(match r {
                Poll::Pending => "poll pending".into(),
                Poll::Ready(Some(x)) => format!("poll item {x}"),
                Poll::Ready(None) => "poll done".into(),
            });
        }
        "droprx" => {
            s.rx = RxKind::Dropped;
        }
        "wrap" => {
            let tx = s.txs.remove(&(num(1) as usize)).expect("live handle");
            s.d = Some(ChannelTxDroppable::new(tx));
        }
        "wrapoff" => {
            s.d = Some(ChannelTxDroppable::new_disabled());
        }
        "dsend" => {
            s.d.as_mut().expect("wrap first").send(num(1));
        }
        "disable" => {
            s.d.as_mut().expect("wrap first").disable();
        }
        "dropd" => {
            // the `ChannelTxDroppable` itself goes away, whatever its state
            drop(s.d.take().expect("wrap first"));
        }
        other => panic!("bad op {other}"),
    }
    s.obs(lines);
}

// ------------------------------------------------------------------------------- flaky transmitter

#[derive(Debug, Clone)]
struct FlakyTx {
    m: u64,
    log: Arc<Mutex<Vec<u64>>>,
    drops: Arc<AtomicUsize>,
}

#[derive(Debug)]
struct FlakyErr;

impl Unrecoverable for FlakyErr {
    fn is_unrecoverable(&self) -> bool {
        true
    }
}

impl Tx for FlakyTx {
    type Item = u64;
    type Error = FlakyErr;
    fn send<Item: Into<u64>>(&self, item: Item) -> Result<(), FlakyErr> {
        let x: u64 = item.into();
        if x % self.m == 0 {
            Err(FlakyErr)
        } else {
            self.log.lock().unwrap().push(x);
            Ok(())
        }
    }
}

impl Drop for FlakyTx {
    fn drop(&mut self) {
        self.drops.fetch_add(1, Ordering::SeqCst);
    }
}

struct FlakySt {
    d: ChannelTxDroppable<FlakyTx>,
    log: Arc<Mutex<Vec<u64>>>,
    drops: Arc<AtomicUsize>,
}

fn flaky_op(st: &mut Option<FlakySt>, op: &[String], lines: &mut Vec<String>) {
    match op[0].as_str() {
        "flaky" => {
            let log = Arc::new(Mutex::new(vec![]));
            let drops = Arc::new(AtomicUsize::new(0));
            let tx = FlakyTx { m: op[1].parse().unwrap(), log: log.clone(), drops: drops.clone() };
            *st = Some(FlakySt { d: ChannelTxDroppable::new(tx), log, drops });
        }
        "flakyoff" => {
            *st = Some(FlakySt {
                d: ChannelTxDroppable::new_disabled(),
                log: Arc::new(Mutex::new(vec![])),
                drops: Arc::new(AtomicUsize::new(0)),
            });
        }
        "fsend" => st.as_mut().expect("flaky first").d.send(op[1].parse().unwrap()),
        "fdisable" => st.as_mut().expect("flaky first").d.disable(),
        other => panic!("bad op {other}"),
    }
    let s = st.as_ref().unwrap();
    lines.push(format!(
        "dstate {}",
        match s.d.state {
            ChannelState::Active(_) => "A",
            ChannelState::Disabled => "D",
        }
    ));
    lines.push(format!("flog {}", join_c(&s.log.lock().unwrap())));
    lines.push(format!("fdrops {}", s.drops.load(Ordering::SeqCst)));
}

// ------------------------------------------------------------------------------- merge

type Tagged = (bool, u64);

struct MergeSt {
    ltx: Option<UnboundedTx<Tagged>>,
    rtx: Option<UnboundedTx<Tagged>>,
    stream: Pin<Box<dyn Stream<Item = Tagged>>>,
}

fn fmt_tag(t: Tagged) -> String {
    format!("{}:{}", if t.0 { "L" } else { "R" }, t.1)
}

fn merge_op(st: &mut Option<MergeSt>, op: &[String], lines: &mut Vec<String>) {
    match op[0].as_str() {
        "merge" => {
            let (ltx, lrx) = mpsc_unbounded::<Tagged>();
            let (rtx, rrx) = mpsc_unbounded::<Tagged>();
            *st = Some(MergeSt {
                ltx: Some(ltx),
                rtx: Some(rtx),
                stream: Box::pin(merge(lrx.into_stream(), rrx.into_stream())),
            });
        }
        "ml" | "mr" => {
            let s = st.as_mut().expect("merge first");
            let left = op[0] == "ml";
            let tx = if left { &s.ltx } else { &s.rtx }.as_ref().expect("transmitter alive");
            let r = tx.send((left, op[1].parse::<u64>().unwrap()));
            lines.push(format!("msend {}", if r.is_ok() { "ok" } else { "err" }));
        }
        "mcl" => {
            st.as_mut().expect("merge first").ltx.take().expect("transmitter alive");
        }
        "mcr" => {
            st.as_mut().expect("merge first").rtx.take().expect("transmitter alive");
        }
        "mpoll" => {
            let s = st.as_mut().expect("merge first");
            lines.push(match poll_once(&mut s.stream) {
                Poll::Pending => "mpoll pending".into(),
                Poll::Ready(Some(t)) => format!("mpoll {}", fmt_tag(t)),
                Poll::Ready(None) => "mpoll done".into(),
            });
        }
        "mrun" => merge_run(op, lines),
        other => panic!("bad op {other}"),
    }
}

/// `mrun W NL NR CL CR SEED`: producers and the consumer of a merged stream as tasks of a real runtime
/// (W = 0: current-thread, otherwise W worker threads). The left producer sends 1..=NL, the right one
/// 101..=100+NR, yielding to the scheduler at seeded points; a producer drops its transmitter at the end
/// iff CL / CR (otherwise the transmitter outlives the consumer). The consumer reads until the end.
fn merge_run(op: &[String], lines: &mut Vec<String>) {
    let n = |i: usize| -> u64 { op[i].parse().unwrap() };
    let (workers, nl, nr, cl, cr, seed) = (n(1) as usize, n(2), n(3), n(4) != 0, n(5) != 0, n(6));
    assert!(cl || cr, "somebody has to end the stream");
    let rt = if workers == 0 {
        tokio::runtime::Builder::new_current_thread().enable_time().build().unwrap()
    } else {
        tokio::runtime::Builder::new_multi_thread().worker_threads(workers).enable_time().build().unwrap()
    };
    let out: Vec<Tagged> = rt.block_on(async move {
        let (ltx, lrx) = mpsc_unbounded::<Tagged>();
        let (rtx, rrx) = mpsc_unbounded::<Tagged>();
        // transmitters that must outlive the consumer
        let keep_l = if cl { None } else { Some(ltx.clone()) };
        let keep_r = if cr { None } else { Some(rtx.clone()) };
        let mut rng = Rng::new(seed);
        let (mut rl, mut rr, mut rc) = (rng.fork(), rng.fork(), rng.fork());
        let consumer = tokio::spawn(async move {
            let mut stream = Box::pin(merge(lrx.into_stream(), rrx.into_stream()));
            let mut out = vec![];
            while let Some(x) = futures::StreamExt::next(&mut stream).await {
                out.push(x);
                if rc.chance(30) {
                    tokio::task::yield_now().await;
                }
            }
            out
        });
        let left = tokio::spawn(async move {
            for v in 1..=nl {
                if rl.chance(40) {
                    tokio::task::yield_now().await;
                }
                let _ = ltx.send((true, v));
            }
            drop(ltx);
        });
        let right = tokio::spawn(async move {
            for v in 1..=nr {
                if rr.chance(40) {
                    tokio::task::yield_now().await;
                }
                let _ = rtx.send((false, 100 + v));
            }
            drop(rtx);
        });
        let out = tokio::time::timeout(std::time::Duration::from_secs(2), consumer)
            .await
            .expect("merged stream did not end")
            .unwrap();
        left.await.unwrap();
        right.await.unwrap();
        drop((keep_l, keep_r));
        out
    });
    let l: Vec<u64> = out.iter().filter(|t| t.0).map(|t| t.1).collect();
    let r: Vec<u64> = out.iter().filter(|t| !t.0).map(|t| t.1).collect();
    lines.push(format!("mout L:{}/R:{}", join_c(&l), join_c(&r)));
    lines.push("mend 1".into());
    lines.push(format!("# order {}", out.iter().map(|t| fmt_tag(*t)).collect::<Vec<_>>().join(" ")));
}

// ------------------------------------------------------------------------------- indexed stream

#[derive(Debug)]
struct Ix;

impl Indexer for Ix {
    type Unindexed = u64;
    type Indexed = u64;
    fn index(&self, item: u64) -> Result<u64, IndexError> {
        if item % 3 == 0 {
            Err(IndexError::AssetIndex(item.to_string()))
        } else {
            Ok(item * 10 + 1)
        }
    }
}

struct IndexSt {
    tx: Option<UnboundedTx<u64>>,
    stream: IndexedStream<Ix, UnboundedRx<u64>>,
}

fn index_op(st: &mut Option<IndexSt>, op: &[String], lines: &mut Vec<String>) {
    match op[0].as_str() {
        "index" => {
            // `<Channel as Default>::default` (channel.rs:35-39)
            let Channel { tx, rx } = Channel::<u64>::default();
            *st = Some(IndexSt { tx: Some(tx), stream: IndexedStream::new(rx, Ix) });
        }
        "ipush" => {
            let s = st.as_mut().expect("index first");
            s.tx.as_ref().expect("transmitter alive").send(op[1].parse::<u64>().unwrap()).unwrap();
        }
        "iclose" => {
            st.as_mut().expect("index first").tx.take().expect("transmitter alive");
        }
        "ipoll" => {
            let s = st.as_mut().expect("index first");
            lines.push(match poll_once(&mut s.stream) {
                Poll::Pending => "ipoll pending".into(),
                Poll::Ready(None) => "ipoll done".into(),
                Poll::Ready(Some(Ok(v))) => format!("ipoll item ok:{v}"),
                Poll::Ready(Some(Err(IndexError::AssetIndex(e)))) => format!("ipoll item err:{e}"),
                Poll::Ready(Some(Err(e))) => format!("ipoll item other:{e:?}"),
            });
        }
        other => panic!("bad op {other}"),
    }
}

// ------------------------------------------------------------------------------- snapshot

fn snapshot_op(op: &[String], lines: &mut Vec<String>) {
    match op[0].as_str() {
        "snap" => {
            let v: u64 = op[1].parse().unwrap();
            let k: u64 = op[2].parse().unwrap();
            let s = Snapshot::new(v);
            assert_eq!(s, Snapshot::from(v));
            assert_eq!(s, Snapshot(v));
            lines.push(format!("value {}", s.value()));
            lines.push(format!("asref {}", **s.as_ref().value()));
            lines.push(format!("map {}", s.map(|x| x + k).value()));
            lines.push(format!("mapmap {}", s.map(|x| x + k).map(|x| x * 2).value()));
        }
        "snapupd" => {
            let sv: u64 = op[1].parse().unwrap();
            let us: Vec<u64> = op[2..].iter().map(|x| x.parse().unwrap()).collect();
            let su = SnapUpdates::new(Snapshot(sv), us);
            lines.push(format!("su {} {}", su.snapshot.value(), join_c(&su.updates)));
        }
        other => panic!("bad op {other}"),
    }
}

// ------------------------------------------------------------------------------- producer / consumer

fn apply_fn(s: u64, u: u64) -> u64 {
    (s * 3 + u) % 1_000_003
}

struct ProdSt {
    state: u64,
    /// `None` once the producer has dropped its transmitter
    tx: Option<ChannelTxDroppable<UnboundedTx<u64>>>,
    /// the consumer's side: what `SystemBuilder` hands out, until the consumer drops the updates
    consumer: SnapUpdates<u64, Option<UnboundedRx<u64>>>,
    replica: u64,
    got: usize,
    saw_end: bool,
}

fn prod_op(st: &mut Option<ProdSt>, op: &[String], lines: &mut Vec<String>) {
    match op[0].as_str() {
        "prod" => {
            let v0: u64 = op[1].parse().unwrap();
            let (tx, rx) = mpsc_unbounded::<u64>();
            let SnapUpdates { snapshot, updates } = SnapUpdates { snapshot: v0, updates: rx };
            *st = Some(ProdSt {
                state: v0,
                tx: Some(ChannelTxDroppable::new(tx)),
                consumer: SnapUpdates::new(snapshot, Some(updates)),
                replica: snapshot,
                got: 0,
                saw_end: false,
            });
        }
        "pupd" => {
            let s = st.as_mut().expect("prod first");
            let u: u64 = op[1].parse().unwrap();
            s.state = apply_fn(s.state, u);
            s.tx.as_mut().expect("transmitter alive").send(u);
        }
        "precv" => {
            let s = st.as_mut().expect("prod first");
            match poll_once(s.consumer.updates.as_mut().expect("receiver alive")) {
                Poll::Ready(Some(u)) => {
                    s.replica = apply_fn(s.replica, u);
                    s.got += 1;
                }
                Poll::Ready(None) => s.saw_end = true,
                Poll::Pending => {}
            }
        }
        "pdroprx" => {
            st.as_mut().expect("prod first").consumer.updates.take().expect("receiver alive");
        }
        "pdisable" => st.as_mut().expect("prod first").tx.as_mut().expect("transmitter alive").disable(),
        "pdroptx" => drop(st.as_mut().expect("prod first").tx.take().expect("transmitter alive")),
        other => panic!("bad op {other}"),
    }
    let s = st.as_ref().unwrap();
    lines.push(format!("pstate {}", s.state));
    lines.push(format!("preplica {}", s.replica));
    lines.push(format!("pgot {}", s.got));
    lines.push(format!("dstate {}", dstate(&s.tx)));
    lines.push(format!("pend {}", if s.saw_end { 1 } else { 0 }));
}

// ------------------------------------------------------------------------------- engine run loops

/// The engine's feed for `rundrop K`: before its K-th `next()` returns, the audit consumer reads what is
/// queued and drops its receiver.
struct DropFeed {
    events: std::vec::IntoIter<Event>,
    i: usize,
    k: usize,
    tick: Rc<Cell<u64>>,
    rx: Rc<RefCell<Option<UnboundedRx<Tick>>>>,
    got: Rc<RefCell<Vec<Tick>>>,
}

impl Iterator for DropFeed {
    type Item = Event;
    fn next(&mut self) -> Option<Event> {
        if self.i == self.k {
            if let Some(mut rx) = self.rx.borrow_mut().take() {
                while let Ok(t) = rx.rx.try_recv() {
                    self.got.borrow_mut().push(t);
                }
                drop(rx);
            }
        }
        self.i += 1;
        let e = self.events.next();
        if e.is_some() {
            self.tick.set(self.tick.get() + 1);
        }
        e
    }
}

fn last_kind(a: &Audit) -> &'static str {
    match a {
        EngineAudit::FeedEnded => "feed-ended",
        EngineAudit::Process(p) if !p.errors.is_empty() => "fatal",
        EngineAudit::Process(p) if matches!(p.event, EngineEvent::Shutdown(_)) => "shutdown",
        _ => "other",
    }
}

fn fresh_world(init_toks: &[String], history: &[(Event, Option<Algo>)]) -> World {
    let mut w = init_world(init_toks);
    // the snapshot record consumes sequence 0, as in `SystemBuilder::init`
    let _ = <TestEngine as Auditor<Audit>>::audit_snapshot(w.engine());
    let mut plan = w.built.engine.strategy.plan.borrow_mut();
    for (k, (_, a)) in history.iter().enumerate() {
        if let Some(a) = a {
            plan.insert(k as u64 + 1, a.clone());
        }
    }
    drop(plan);
    w
}

/// CONFIGURATION SHAPE (cfg audit) `rundrop2 <mode> J K`: audit OFF, then ON, on the same engine. Every engine
/// of `rundrop` first runs the events 0..J of the history through the runner WITHOUT audit (`sync_run` /
/// `async_run`), then - as `SystemBuilder::init` does for an audited system - takes an `audit_snapshot` of the
/// now pre-populated engine (sequence counter > 1) and runs the rest of the feed (what the first run did not
/// consume) as `rundrop K` does. Returns the number of events the first run consumed.
fn cfg_pre_run(w: &mut World, history: &[(Event, Option<Algo>)], mode: &str, j: usize, rt: &tokio::runtime::Runtime, lines: Option<&mut Vec<String>>) -> usize {
    let cell = w.built.engine.strategy.tick.clone();
    let c2 = cell.clone();
    let mut feed = history[..j.min(history.len())].iter().map(|(e, _)| e.clone()).inspect(move |_| c2.set(c2.get() + 1));
    let last: Audit = if mode == "sync" {
        sync_run(&mut feed, &mut w.built.engine)
    } else {
        let mut stream = futures::stream::iter(feed);
        rt.block_on(async_run(&mut stream, &mut w.built.engine))
    };
    let end_seq = w.built.engine.meta.sequence.value();
    let snapshot = <TestEngine as Auditor<Audit>>::audit_snapshot(w.engine());
    if let Some(lines) = lines {
        lines.push(format!("pre_last {}", last_kind(&last)));
        lines.push(format!("pre_end_seq {end_seq}"));
        lines.push(format!("snap2_seq {}", snapshot.context.sequence.value()));
    }
    cell.get() as usize
}

fn rundrop(init_toks: &[String], history: &[(Event, Option<Algo>)], mode: &str, k: usize, lines: &mut Vec<String>) {
    rundrop_from(init_toks, history, mode, k, None, lines)
}

fn rundrop_from(init_toks: &[String], history: &[(Event, Option<Algo>)], mode: &str, k: usize, pre: Option<usize>, lines: &mut Vec<String>) {
    let rt0 = tokio::runtime::Builder::new_current_thread().build().unwrap();
    let mut wa = fresh_world(init_toks, history);
    let c1 = match pre {
        Some(j) => cfg_pre_run(&mut wa, history, mode, j, &rt0, Some(lines)),
        None => 0,
    };
    let full_history = history;
    let history = &full_history[c1..];
    let fresh_world = |init_toks: &[String], _: &[(Event, Option<Algo>)]| -> World {
        let mut w = fresh_world(init_toks, full_history);
        if let Some(j) = pre {
            cfg_pre_run(&mut w, full_history, mode, j, &rt0, None);
        }
        w
    };
    let events: Vec<Event> = history.iter().map(|(e, _)| e.clone()).collect();
    let feed_for = |w: &World, k: usize, rx: Option<UnboundedRx<Tick>>| {
        let rx = Rc::new(RefCell::new(rx));
        let got = Rc::new(RefCell::new(vec![]));
        (
            DropFeed { events: events.clone().into_iter(), i: 0, k, tick: w.built.engine.strategy.tick.clone(), rx: rx.clone(), got: got.clone() },
            rx,
            got,
        )
    };
    let rt = tokio::runtime::Builder::new_current_thread().build().unwrap();

    // (a) audited run, receiver dropped before the K-th feed.next()
    let (tx, rx) = mpsc_unbounded::<Tick>();
    let mut audit_tx = ChannelTxDroppable::new(tx);
    let (mut feed, rx_cell, got) = feed_for(&wa, k, Some(rx));
    let last_a: Audit = if mode == "sync" {
        sync_run_with_audit(&mut feed, &mut wa.built.engine, &mut audit_tx)
    } else {
        let mut stream = futures::stream::iter(&mut feed);
        rt.block_on(async_run_with_audit(&mut stream, &mut wa.built.engine, &mut audit_tx))
    };
    if let Some(mut rx) = rx_cell.borrow_mut().take() {
        while let Ok(t) = rx.rx.try_recv() {
            got.borrow_mut().push(t);
        }
    }
    let got = got.borrow();
    lines.push(format!("recv_seqs {}", got.iter().map(|t| t.context.sequence.value().to_string()).collect::<Vec<_>>().join(" ")));
    lines.push(format!("recv_terminal {}", got.iter().map(|t| if t.event.is_terminal() { "1" } else { "0" }).collect::<Vec<_>>().join(" ")));
    lines.push(format!("tx_state {}", dstate(&Some(audit_tx))));
    lines.push(format!("run_last {}", last_kind(&last_a)));
    lines.push(format!("end_seq {}", wa.built.engine.meta.sequence.value()));
    observe_any(&wa, &wa.built.engine.state, "a_", lines);

    // (n) the same feed through the runner without audit
    let mut wn = fresh_world(init_toks, history);
    let (mut feed, _, _) = feed_for(&wn, usize::MAX, None);
    let last_n: Audit = if mode == "sync" {
        sync_run(&mut feed, &mut wn.built.engine)
    } else {
        let mut stream = futures::stream::iter(&mut feed);
        rt.block_on(async_run(&mut stream, &mut wn.built.engine))
    };
    lines.push(format!("plain_last {}", last_kind(&last_n)));
    lines.push(format!("plain_end_seq {}", wn.built.engine.meta.sequence.value()));
    observe_any(&wn, &wn.built.engine.state, "n_", lines);

    // (off) audited run with a transmitter that was never enabled
    let mut wo = fresh_world(init_toks, history);
    let mut off_tx: ChannelTxDroppable<UnboundedTx<Tick>> = ChannelTxDroppable::new_disabled();
    let (mut feed, _, _) = feed_for(&wo, usize::MAX, None);
    let last_o: Audit = if mode == "sync" {
        sync_run_with_audit(&mut feed, &mut wo.built.engine, &mut off_tx)
    } else {
        let mut stream = futures::stream::iter(&mut feed);
        rt.block_on(async_run_with_audit(&mut stream, &mut wo.built.engine, &mut off_tx))
    };
    lines.push(format!("off_last {}", last_kind(&last_o)));
    lines.push(format!("off_end_seq {}", wo.built.engine.meta.sequence.value()));
    lines.push(format!("off_tx_state {}", dstate(&Some(off_tx))));
    lines.push("off_recv 0".into());

    // `EngineMeta::time_start` and the times inside the shutdown record come from `HistoricalClock::time()`
    // (wall-clock dependent), so the records are compared by kind and the metadata by its sequence counter
    let same = wa.built.engine.state == wn.built.engine.state
        && wa.built.engine.state == wo.built.engine.state
        && wa.built.engine.meta.sequence == wn.built.engine.meta.sequence
        && wa.built.engine.meta.sequence == wo.built.engine.meta.sequence
        && last_kind(&last_a) == last_kind(&last_n)
        && last_kind(&last_a) == last_kind(&last_o);
    lines.push(format!("same_state {}", if same { 1 } else { 0 }));
}

// ------------------------------------------------------------------------------- the run closure of SystemBuilder::init

type ExecRxs = Arc<Mutex<Vec<Option<UnboundedRx<ExecutionRequest>>>>>;

/// The audit transmitter of `runprod`: the real `UnboundedTx`, which additionally notes how many items every
/// execution receiver holds at the moment a TERMINAL record is handed over (that is how the harness sees
/// that `engine.shutdown()` has not run yet at that point).
#[derive(Debug, Clone)]
struct ProbeTx {
    tx: UnboundedTx<Tick>,
    /// by exchange index
    exec_rxs: ExecRxs,
    at_terminal: Arc<Mutex<Vec<Vec<Option<usize>>>>>,
}

impl Tx for ProbeTx {
    type Item = Tick;
    type Error = <UnboundedTx<Tick> as Tx>::Error;
    fn send<Item: Into<Tick>>(&self, item: Item) -> Result<(), Self::Error> {
        let item: Tick = item.into();
        if item.event.is_terminal() {
            let lens = self.exec_rxs.lock().unwrap().iter().map(|rx| rx.as_ref().map(|rx| rx.rx.len())).collect();
            self.at_terminal.lock().unwrap().push(lens);
        }
        self.tx.send(item)
    }
}

/// The engine's feed for `runprod R`: before every R-th `next()` (R = 0: never) the audit consumer reads once.
struct ProdFeed {
    events: std::vec::IntoIter<Event>,
    i: usize,
    r: usize,
    tick: Rc<Cell<u64>>,
    rx: Option<Rc<RefCell<UnboundedRx<Tick>>>>,
    got: Rc<RefCell<Vec<Tick>>>,
}

impl Iterator for ProdFeed {
    type Item = Event;
    fn next(&mut self) -> Option<Event> {
        if let Some(rx) = &self.rx {
            if self.r != 0 && self.i % self.r == 0 {
                if let Poll::Ready(Some(t)) = poll_once(&mut *rx.borrow_mut()) {
                    self.got.borrow_mut().push(t);
                }
            }
        }
        self.i += 1;
        let e = self.events.next();
        if e.is_some() {
            self.tick.set(self.tick.get() + 1);
        }
        e
    }
}

/// what one execution receiver holds: `n=` order requests, `S=` Shutdowns, `last=` kind of the last item, the
/// order requests sorted (`cancel_orders` iterates a hash map)
fn xlink_line(pfx: &str, w: &World, label: usize, got: Option<Vec<ExecutionRequest>>) -> String {
    let kind = match w.links[label] {
        Link::Healthy => "H",
        Link::Closed => "C",
        Link::Unhealthy => "U",
        Link::Missing => "M",
    };
    let Some(got) = got else { return format!("{pfx}xlink{label} {kind}") };
    let last = match got.last() {
        None => "-",
        Some(ExecutionRequest::Shutdown) => "S",
        Some(_) => "R",
    };
    let nsd = got.iter().filter(|r| matches!(r, ExecutionRequest::Shutdown)).count();
    let mut reqs: Vec<String> = got
        .iter()
        .filter_map(|r| match r {
            ExecutionRequest::Cancel(c) => Some(fmt_cancel(w, c)),
            ExecutionRequest::Open(o) => Some(fmt_open_req(w, o)),
            ExecutionRequest::Shutdown => None,
        })
        .collect();
    reqs.sort();
    format!(
        "{pfx}xlink{label} {kind} n={} S={nsd} last={last} reqs={}",
        reqs.len(),
        if reqs.is_empty() { "-".to_string() } else { reqs.join(",") }
    )
}

/// `runprod MODE R`: the closures of `SystemBuilder::init` (builder.rs:377-383 / 404-408 with audit,
/// 387-392 / 412-416 without), written out with the same shape: the engine and a
/// `ChannelTxDroppable::new(audit_tx)` are MOVED into the closure, the closure calls the runner and returns
/// the engine and the shutdown record; `audit_tx` is dropped when it returns. The engine has real execution
/// transmitters whose receivers nobody reads during the run. The audit consumer keeps its receiver, reads
/// once before every R-th `feed.next()`, and after the closure has returned reads to the end of the stream.
fn runprod(init_toks: &[String], history: &[(Event, Option<Algo>)], mode: &str, r: usize, lines: &mut Vec<String>) {
    let events: Vec<Event> = history.iter().map(|(e, _)| e.clone()).collect();
    let rt = tokio::runtime::Builder::new_current_thread().build().unwrap();

    // (a) with audit
    let mut wa = fresh_world(init_toks, history);
    let exec_rxs: ExecRxs = Arc::new(Mutex::new(std::mem::take(&mut wa.built.rxs)));
    let at_terminal = Arc::new(Mutex::new(vec![]));
    let (tx, rx) = mpsc_unbounded::<Tick>();
    let rx = Rc::new(RefCell::new(rx));
    let got = Rc::new(RefCell::new(vec![]));
    let mut feed = ProdFeed {
        events: events.clone().into_iter(),
        i: 0,
        r,
        tick: wa.built.engine.strategy.tick.clone(),
        rx: Some(rx.clone()),
        got: got.clone(),
    };
    let mut audit_tx = ChannelTxDroppable::new(ProbeTx { tx, exec_rxs: exec_rxs.clone(), at_terminal: at_terminal.clone() });
    let sync = mode == "sync";
    let closure = move || {
        let shutdown_audit: Audit = if sync {
            sync_run_with_audit(&mut feed, &mut wa.built.engine, &mut audit_tx)
        } else {
            let mut stream = futures::stream::iter(&mut feed);
            rt.block_on(async_run_with_audit(&mut stream, &mut wa.built.engine, &mut audit_tx))
        };
        // (reading the state does not change it; `audit_tx` goes out of scope right after)
        let state = dstate(&Some(audit_tx));
        (wa, shutdown_audit, state, rt)
    };
    let (wa, last_a, tx_state, rt) = closure();

    let during = got.borrow().len();
    let mut rx = rx.borrow_mut();
    let queued = rx.rx.len();
    let mut early_end = false;
    for _ in 0..queued {
        match poll_once(&mut *rx) {
            Poll::Ready(Some(t)) => got.borrow_mut().push(t),
            Poll::Ready(None) => early_end = true,
            Poll::Pending => {}
        }
    }
    // one more read: the end of the stream, or (if a transmitter is still alive somewhere) pending
    let end = match poll_once(&mut *rx) {
        Poll::Ready(None) => true,
        Poll::Ready(Some(t)) => {
            got.borrow_mut().push(t);
            false
        }
        Poll::Pending => false,
    };
    let got = got.borrow();
    lines.push(format!("prod_during {during}"));
    lines.push(format!("prod_seqs {}", got.iter().map(|t| t.context.sequence.value().to_string()).collect::<Vec<_>>().join(" ")));
    lines.push(format!("prod_terminal {}", got.iter().map(|t| if t.event.is_terminal() { "1" } else { "0" }).collect::<Vec<_>>().join(" ")));
    lines.push(format!("prod_early_end {}", early_end as u8));
    lines.push(format!("prod_end {}", end as u8));
    lines.push(format!("prod_tx {tx_state}"));
    lines.push(format!("prod_last {}", last_kind(&last_a)));
    lines.push(format!("prod_end_seq {}", wa.built.engine.meta.sequence.value()));
    let at = at_terminal.lock().unwrap();
    // exactly one terminal record is ever handed over; print what the execution receivers held then, by label
    let fmt_lens = |lens: &Vec<Option<usize>>| {
        (0..wa.links.len())
            .map(|label| match lens[wa.ex_idx[label]] {
                Some(n) => n.to_string(),
                None => "-".to_string(),
            })
            .collect::<Vec<_>>()
            .join(" ")
    };
    match at.as_slice() {
        [lens] => lines.push(format!("at_terminal {}", fmt_lens(lens))),
        other => lines.push(format!("at_terminal ?{}", other.len())),
    }
    let mut rxs = exec_rxs.lock().unwrap();
    for label in 0..wa.links.len() {
        let idx = wa.ex_idx[label];
        let got = rxs[idx].as_mut().map(drain);
        lines.push(xlink_line("", &wa, label, got));
    }

    // (n) without audit
    let mut wn = fresh_world(init_toks, history);
    let mut feed = ProdFeed {
        events: events.clone().into_iter(),
        i: 0,
        r: 0,
        tick: wn.built.engine.strategy.tick.clone(),
        rx: None,
        got: Rc::new(RefCell::new(vec![])),
    };
    let closure = move || {
        let shutdown_audit: Audit = if sync {
            sync_run(&mut feed, &mut wn.built.engine)
        } else {
            let mut stream = futures::stream::iter(&mut feed);
            rt.block_on(async_run(&mut stream, &mut wn.built.engine))
        };
        (wn, shutdown_audit)
    };
    let (mut wn, last_n) = closure();
    lines.push(format!("plain_last {}", last_kind(&last_n)));
    for label in 0..wn.links.len() {
        let idx = wn.ex_idx[label];
        let got = wn.built.rxs[idx].as_mut().map(drain);
        lines.push(xlink_line("plain_", &wn, label, got));
    }
}

struct EngineSt {
    world: World,
    init_toks: Vec<String>,
    algo: Option<Algo>,
    history: Vec<(Event, Option<Algo>)>,
}

fn engine_op(st: &mut Option<EngineSt>, op: &[String], lines: &mut Vec<String>) {
    match op[0].as_str() {
        "init" => {
            let mut w = init_world(&op[1..]);
            let snapshot = <TestEngine as Auditor<Audit>>::audit_snapshot(w.engine());
            lines.push(format!("seq {}", snapshot.context.sequence.value()));
            observe_any(&w, &w.built.engine.state, "", lines);
            *st = Some(EngineSt { world: w, init_toks: op[1..].to_vec(), algo: None, history: vec![] });
        }
        "algo" => {
            let s = st.as_mut().expect("init first");
            s.algo = Some(parse_reqs(&s.world, &op[1..]));
            lines.push("algo-set".into());
        }
        "ev" => {
            let s = st.as_mut().expect("init first");
            let a = s.algo.take();
            let w = &mut s.world;
            let event = match build_event(w, &op[1..]) {
                Built2::Event(e, _) => e,
                Built2::Panic => {
                    lines.push("panic".into());
                    return;
                }
                Built2::Noop => {
                    lines.push("noop".into());
                    return;
                }
            };
            s.history.push((event.clone(), a.clone()));
            if let Some(a) = a {
                w.built.engine.strategy.script.borrow_mut().push_back(a);
            }
            let tick: Tick = process_with_audit(&mut w.built.engine, event);
            w.built.engine.strategy.script.borrow_mut().clear();
            for rx in w.built.rxs.iter_mut().flatten() {
                drain(rx);
            }
            lines.push(format!("seq {}", tick.context.sequence.value()));
            lines.push(format!("terminal {}", if tick.event.is_terminal() { 1 } else { 0 }));
            observe_any(w, &w.built.engine.state, "", lines);
        }
        "rundrop" => {
            let s = st.as_ref().expect("init first");
            rundrop(&s.init_toks, &s.history, &op[1], op[2].parse().unwrap(), lines);
        }
        "rundrop2" => {
            let s = st.as_ref().expect("init first");
            rundrop_from(&s.init_toks, &s.history, &op[1], op[3].parse().unwrap(), Some(op[2].parse().unwrap()), lines);
        }
        "runprod" => {
            let s = st.as_ref().expect("init first");
            runprod(&s.init_toks, &s.history, &op[1], op[2].parse().unwrap(), lines);
        }
        other => panic!("bad op {other}"),
    }
}

// ------------------------------------------------------------------------------- run

fn run() {
    run_cases(|case, lines| {
        let mut ch: Option<ChanSt> = None;
        let mut fl: Option<FlakySt> = None;
        let mut mg: Option<MergeSt> = None;
        let mut ix: Option<IndexSt> = None;
        let mut pr: Option<ProdSt> = None;
        let mut en: Option<EngineSt> = None;
        for op in case.ops.iter() {
            lines.push("@".into());
            match op[0].as_str() {
                "chan" | "send" | "sink" | "clone" | "droptx" | "tostream" | "next" | "nextwait" | "poll" | "droprx" | "wrap"
                | "wrapoff" | "dsend" | "disable" | "dropd" => chan_op(&mut ch, op, lines),
                "flaky" | "flakyoff" | "fsend" | "fdisable" => flaky_op(&mut fl, op, lines),
                "merge" | "ml" | "mr" | "mcl" | "mcr" | "mpoll" | "mrun" => merge_op(&mut mg, op, lines),
                "index" | "ipush" | "iclose" | "ipoll" => index_op(&mut ix, op, lines),
                "snap" | "snapupd" => snapshot_op(op, lines),
                "prod" | "pupd" | "precv" | "pdroprx" | "pdisable" | "pdroptx" => prod_op(&mut pr, op, lines),
                "init" | "algo" | "ev" | "rundrop" | "rundrop2" | "runprod" => engine_op(&mut en, op, lines),
                other => panic!("bad op {other}"),
            }
        }
    });
}

// ------------------------------------------------------------------------------- generation

fn gen_channel(rng: &mut Rng, out: &mut Out, len: i64) {
    out.line("chan");
    let mut handles: Vec<usize> = vec![0];
    let mut next = 1usize;
    let mut rx_alive = true;
    let mut stream = false;
    let mut wrapped = false;
    let mut v = 0u64;
    if rng.chance(15) {
        out.line("wrapoff");
        wrapped = true;
    }
    for _ in 0..len {
        v += 1;
        match rng.below(100) {
            0..=24 if !handles.is_empty() => {
                let h = *rng.pick(&handles);
                out.line(format!("{} {h} {v}", if rng.chance(25) { "sink" } else { "send" }));
            }
            25..=44 if wrapped => out.line(format!("dsend {v}")),
            45..=49 if !handles.is_empty() && !wrapped => {
                let h = *rng.pick(&handles);
                handles.retain(|x| *x != h);
                wrapped = true;
                out.line(format!("wrap {h}"));
            }
            50..=55 if !handles.is_empty() => {
                let h = *rng.pick(&handles);
                handles.push(next);
                next += 1;
                out.line(format!("clone {h}"));
            }
            56..=62 if !handles.is_empty() => {
                let h = *rng.pick(&handles);
                handles.retain(|x| *x != h);
                out.line(format!("droptx {h}"));
            }
            63..=80 if rx_alive => out.line("poll"),
            81..=86 if rx_alive && !stream => out.line("next"),
            87..=88 if rx_alive && !stream && !handles.is_empty() => {
                let h = *rng.pick(&handles);
                out.line(format!("nextwait {h} {v}"));
            }
            89..=91 if rx_alive && !stream => {
                stream = true;
                out.line("tostream");
            }
            92..=95 if rx_alive => {
                rx_alive = false;
                out.line("droprx");
            }
            96..=97 if wrapped => out.line("disable"),
            98 if wrapped => {
                // the ChannelTxDroppable goes away (another handle may be wrapped later)
                wrapped = false;
                out.line("dropd");
            }
            _ if wrapped => out.line(format!("dsend {v}")),
            _ if rx_alive => out.line("poll"),
            _ => {}
        }
    }
}

fn gen_flaky(rng: &mut Rng, out: &mut Out, len: i64) {
    if rng.chance(12) {
        out.line("flakyoff");
    } else {
        out.line(format!("flaky {}", rng.pick(&[2u64, 3, 5, 7, 1000])));
    }
    for _ in 0..len {
        if rng.chance(5) {
            out.line("fdisable");
        } else {
            out.line(format!("fsend {}", 1 + rng.below(12)));
        }
    }
}

fn gen_merge(rng: &mut Rng, out: &mut Out, len: i64) {
    out.line("merge");
    let (mut lo, mut ro) = (true, true);
    let (mut lv, mut rv) = (0u64, 100u64);
    let poll_pct = *rng.pick(&[30u64, 50, 70]);
    let close_pct = *rng.pick(&[2u64, 6, 15]);
    for _ in 0..len {
        if rng.chance(poll_pct) {
            out.line("mpoll");
        } else if rng.chance(close_pct) && (lo || ro) {
            if lo && (rng.chance(50) || !ro) {
                lo = false;
                out.line("mcl");
            } else {
                ro = false;
                out.line("mcr");
            }
        } else if rng.chance(50) && lo {
            lv += 1;
            out.line(format!("ml {lv}"));
        } else if ro {
            rv += 1;
            out.line(format!("mr {rv}"));
        } else {
            out.line("mpoll");
        }
    }
    // drain
    for _ in 0..rng.below(6) {
        out.line("mpoll");
    }
}

fn gen_mrun(rng: &mut Rng, out: &mut Out, tier: &str) {
    let max = if tier == "thorough" { 6 } else { 4 };
    let (cl, cr) = *rng.pick(&[(1, 0), (0, 1), (1, 1)]);
    out.line(format!(
        "mrun {} {} {} {cl} {cr} {}",
        rng.pick(&[0usize, 1, 2, 4]),
        rng.below(max + 1),
        rng.below(max + 1),
        rng.below(1_000_000)
    ));
}

fn gen_index(rng: &mut Rng, out: &mut Out, len: i64) {
    out.line("index");
    let mut open = true;
    for _ in 0..len {
        match rng.below(100) {
            0..=44 if open => out.line(format!("ipush {}", 1 + rng.below(9))),
            45..=49 if open => {
                open = false;
                out.line("iclose");
            }
            _ => out.line("ipoll"),
        }
    }
}

fn gen_snapshot(rng: &mut Rng, out: &mut Out) {
    out.line(format!("snap {} {}", rng.below(50), rng.below(10)));
    let n = rng.below(5);
    let us: Vec<String> = (0..n).map(|_| rng.below(20).to_string()).collect();
    out.line(format!("snapupd {} {}", rng.below(50), us.join(" ")).trim_end().to_string());
}

fn gen_prod(rng: &mut Rng, out: &mut Out, len: i64) {
    out.line(format!("prod {}", rng.below(10)));
    let mut rx_alive = true;
    let mut tx_alive = true;
    let recv_pct = *rng.pick(&[20u64, 45, 70]);
    // how the producer ends: keeps its transmitter / drops it at a random point / drops it at the end
    let drop_pct = *rng.pick(&[0u64, 3, 3]);
    for _ in 0..len {
        match rng.below(100) {
            0..=2 if tx_alive => out.line("pdisable"),
            3..=6 if rx_alive => {
                rx_alive = false;
                out.line("pdroprx");
            }
            x if x >= 100 - drop_pct && tx_alive => {
                tx_alive = false;
                out.line("pdroptx");
            }
            x if x < 7 + recv_pct && rx_alive => out.line("precv"),
            _ if tx_alive => out.line(format!("pupd {}", rng.below(3))),
            _ if rx_alive => out.line("precv"),
            _ => {}
        }
    }
    if rng.chance(35) && tx_alive {
        // the production ending: transmitter dropped, the consumer reads to the end
        out.line("pdroptx");
        if rx_alive {
            for _ in 0..rng.below(len as u64 + 3) {
                out.line("precv");
            }
        }
    }
}

fn gen_engine(rng: &mut Rng, out: &mut Out, tier: &str) {
    let nex = rng.range(1, 2) as usize;
    let links: String = (0..nex).map(|_| if rng.chance(80) { 'H' } else { *rng.pick(&['C', 'M', 'U']) }).collect();
    let mut defs: Vec<(usize, usize, usize)> = (0..nex).map(|e| (e, rng.below(3) as usize, 3)).collect();
    for _ in 0..rng.below(2) {
        defs.push((rng.below(nex as u64) as usize, rng.below(3) as usize, 3));
    }
    let nins = defs.len();
    out.line(format!(
        "init {} L {links} I {}",
        if rng.chance(60) { "on" } else { "off" },
        defs.iter().map(|(e, b, q)| format!("{e},{b},{q}")).collect::<Vec<_>>().join(" ")
    ));
    let len = rng.range(0, if tier == "thorough" { 16 } else { 9 });
    let mut has_pos = vec![false; nins];
    let mut next_cid = 10u64;
    let mut known: Vec<(usize, u64)> = vec![];
    let mut nev = 0usize;
    for _ in 0..len {
        if rng.chance(40) {
            let mut reqs: Vec<String> = vec![];
            for _ in 0..rng.below(3) {
                let ins = rng.below(nins as u64) as usize;
                next_cid += 1;
                known.push((ins, next_cid));
                reqs.push(format!("o:{}:{ins}:{next_cid}:B:100:10", defs[ins].0));
            }
            if !known.is_empty() && rng.chance(40) {
                let (ins, cid) = *rng.pick(&known);
                reqs.insert(0, format!("c:{}:{ins}:{cid}", defs[ins].0));
            }
            out.line(format!("algo {}", reqs.join(" ")).trim_end().to_string());
        }
        let i = rng.below(nins as u64) as usize;
        let line = match rng.below(100) {
            0..=11 => {
                next_cid += 1;
                known.push((i, next_cid));
                format!("ev cmd_open o:{}:{i}:{next_cid}:B:100:10", defs[i].0)
            }
            12..=19 if !known.is_empty() => {
                let (ins, cid) = *rng.pick(&known);
                format!("ev cmd_cancel c:{}:{ins}:{cid}", defs[ins].0)
            }
            20..=29 => format!("ev trading {}", if rng.chance(60) { "on" } else { "off" }),
            30..=49 if !known.is_empty() => {
                let (ins, cid) = *rng.pick(&known);
                format!("ev snap {ins} {cid} 10 100 O {} {} {}", 1 + rng.below(2), rng.below(6), rng.pick(&[0, 5, 10]))
            }
            50..=57 if !known.is_empty() => {
                let (ins, cid) = *rng.pick(&known);
                format!("ev resp {ins} {cid} {}", if rng.chance(50) { "ok" } else { "err" })
            }
            58..=63 => "ev shutdown".into(),
            64..=69 => "ev cancel_orders none".into(),
            70..=73 => format!("ev close_positions ins:{i}"),
            74..=84 => {
                if has_pos[i] {
                    has_pos[i] = false;
                    format!("ev flat {i}")
                } else {
                    has_pos[i] = true;
                    format!("ev fill {i} {} {}", if rng.chance(50) { "B" } else { "S" }, 1 + rng.below(3))
                }
            }
            85..=90 => format!("ev other {} {}", rng.pick(&["mktre", "accre", "bal"]), rng.below(nex as u64)),
            _ => format!("ev price {i} {}", 100 + rng.below(5)),
        };
        out.line(line);
        nev += 1;
    }
    // drop points: every interesting one for short histories, a few otherwise
    let mut ks: Vec<usize> = vec![rng.below(nev as u64 + 3) as usize];
    if rng.chance(50) {
        ks.push(rng.below(nev as u64 + 3) as usize);
    }
    if rng.chance(25) {
        ks.push(0);
    }
    for k in ks {
        out.line(format!("rundrop {} {k}", if rng.chance(50) { "sync" } else { "async" }));
    }
    // the run closure of SystemBuilder::init: runner, engine.shutdown(), audit_tx dropped; consumer listening
    if rng.chance(70) {
        out.line(format!("runprod {} {}", if rng.chance(50) { "sync" } else { "async" }, rng.below(4)));
    }
    if rng.chance(20) {
        out.line(format!("runprod {} {}", if rng.chance(50) { "sync" } else { "async" }, rng.below(4)));
    }
}

/// input-domain family of the run-loop section (separately seeded): what `gen_engine` never draws - three
/// exchanges in any instrument order (the shutdown broadcast and `xlink<x>` over three links), every link
/// kind on every position, requests on both sides / with fractions / for another or an unknown exchange
/// (fatal index error) / refused by the risk manager (cid >= 5000) / with an order id, commands with 0-3
/// requests, `und:` and non-matching filters, reports for unknown orders, the in-flight echo, shutdown
/// first / last, histories of 30-60 events and (`long`) of 120-300 events without a terminal one, drop
/// points anywhere up to beyond the end, consumers reading before every R-th event with R up to 7.
fn gen_engine_wide(rng: &mut Rng, out: &mut Out, tier: &str, long: bool) {
    let nex = rng.range(1, 3) as usize;
    let links: String = (0..nex).map(|_| if long { *rng.pick(&['H', 'H', 'U', 'M']) } else { *rng.pick(&['H', 'H', 'H', 'C', 'M', 'U']) }).collect();
    let mut defs: Vec<(usize, usize, usize)> = (0..nex).map(|e| (e, rng.below(3) as usize, 3)).collect();
    for _ in 0..rng.below(3) {
        defs.push((rng.below(nex as u64) as usize, rng.below(3) as usize, 3));
    }
    for k in (1..defs.len()).rev() {
        let j = rng.below(k as u64 + 1) as usize;
        defs.swap(k, j);
    }
    let nins = defs.len();
    out.line(format!(
        "init {} L {links} I {}",
        if rng.chance(60) { "on" } else { "off" },
        defs.iter().map(|(e, b, q)| format!("{e},{b},{q}")).collect::<Vec<_>>().join(" ")
    ));
    let len = if long {
        rng.range(120, 300)
    } else if rng.chance(15) {
        rng.range(30, 60)
    } else {
        rng.range(0, if tier == "thorough" { 16 } else { 9 })
    };
    // where a shutdown goes, if any: first / last / anywhere
    let shutdown_at: Option<i64> = if long {
        None
    } else {
        match rng.below(6) {
            0 => Some(0),
            1 => Some(len - 1),
            2 => Some(rng.below(len.max(1) as u64) as i64),
            _ => None,
        }
    };
    let prices = ["100", "101", "99.5", "0.01"];
    let qtys = ["10", "1", "0.5", "0.00000001"];
    let mut has_pos = vec![false; nins];
    let mut next_cid = 10u64;
    let mut next_refused = 5000u64;
    let mut known: Vec<(usize, u64)> = vec![];
    let mut nev = 0usize;
    for step in 0..len {
        let ex_of = |rng: &mut Rng, ins: usize| match rng.below(100) {
            0..=84 => defs[ins].0,
            85..=95 => rng.below(nex as u64) as usize,
            _ if !long => nex + rng.below(2) as usize,
            _ => defs[ins].0,
        };
        let mut created: Vec<(usize, u64)> = vec![];
        let mut open_req = |rng: &mut Rng, created: &mut Vec<(usize, u64)>, refusable: bool| {
            let ins = rng.below(nins as u64) as usize;
            let cid = if refusable && rng.chance(20) {
                next_refused += 1;
                next_refused
            } else {
                next_cid += 1;
                next_cid
            };
            created.push((ins, cid));
            format!("o:{}:{ins}:{cid}:{}:{}:{}", ex_of(rng, ins), if rng.chance(50) { "B" } else { "S" }, rng.pick(&prices), rng.pick(&qtys))
        };
        let cancel_req = |rng: &mut Rng, known: &Vec<(usize, u64)>| {
            let (ins, cid) = if known.is_empty() || rng.chance(15) { (rng.below(nins as u64) as usize, 900 + rng.below(3)) } else { *rng.pick(known) };
            if rng.chance(30) { format!("c:{}:{ins}:{cid}:{}", ex_of(rng, ins), 1 + rng.below(3)) } else { format!("c:{}:{ins}:{cid}", ex_of(rng, ins)) }
        };
        if rng.chance(40) {
            let mut reqs: Vec<String> = (0..rng.below(2)).map(|_| cancel_req(rng, &known)).collect();
            for _ in 0..rng.below(3) {
                reqs.push(open_req(rng, &mut created, true));
            }
            out.line(format!("algo {}", reqs.join(" ")).trim_end().to_string());
        }
        let i = rng.below(nins as u64) as usize;
        let pick_order = |rng: &mut Rng, known: &Vec<(usize, u64)>| -> (usize, u64) {
            if known.is_empty() || rng.chance(15) { (i, 700 + rng.below(4)) } else { *rng.pick(known) }
        };
        let filter = |rng: &mut Rng| match rng.below(9) {
            0..=1 => "none".to_string(),
            2 => format!("ex:{}", rng.below(nex as u64 + 1)),
            3 => format!("ex:{},{}", rng.below(nex as u64), rng.below(nex as u64)),
            4..=5 => format!("ins:{}", rng.below(nins as u64 + 1)),
            6 => format!("ins:{},{}", rng.below(nins as u64), rng.below(nins as u64)),
            7 => format!("und:{}-3", rng.below(3)),
            _ => format!("und:{}-3,{}-4", rng.below(3), rng.below(3)),
        };
        let line = if shutdown_at == Some(step) {
            "ev shutdown".to_string()
        } else {
            match rng.below(100) {
                0..=11 => {
                    let reqs: Vec<String> = (0..rng.below(4)).map(|_| open_req(rng, &mut created, false)).collect();
                    format!("ev cmd_open {}", reqs.join(" ")).trim_end().to_string()
                }
                12..=19 => {
                    let reqs: Vec<String> = (0..rng.below(4)).map(|_| cancel_req(rng, &known)).collect();
                    format!("ev cmd_cancel {}", reqs.join(" ")).trim_end().to_string()
                }
                20..=29 => format!("ev trading {}", if rng.chance(50) { "on" } else { "off" }),
                30..=47 => {
                    let (ins, cid) = pick_order(rng, &known);
                    match rng.below(20) {
                        0 => format!("ev snap {ins} {cid} 10 100 F 0 0 0"),
                        1..=4 => format!("ev snap {ins} {cid} {} {} X 0 0 0", rng.pick(&qtys), rng.pick(&prices)),
                        _ => format!("ev snap {ins} {cid} {} {} O {} {} {}", rng.pick(&qtys), rng.pick(&prices), 1 + rng.below(3), rng.below(6), rng.pick(&["0", "5", "0.5"])),
                    }
                }
                48..=55 => {
                    let (ins, cid) = pick_order(rng, &known);
                    format!("ev resp {ins} {cid} {}", if rng.chance(50) { "ok" } else { "err" })
                }
                56..=63 => format!("ev cancel_orders {}", filter(rng)),
                64..=69 => format!("ev close_positions {}", filter(rng)),
                70..=81 => {
                    if has_pos[i] && rng.chance(35) {
                        format!("ev reduce {i}")
                    } else if has_pos[i] {
                        has_pos[i] = false;
                        format!("ev flat {i}")
                    } else {
                        has_pos[i] = true;
                        format!("ev fill {i} {} {}", if rng.chance(50) { "B" } else { "S" }, rng.pick(&["1", "3", "0.5", "1000000"]))
                    }
                }
                82..=90 => format!("ev other {} {}", rng.pick(&["mktre", "accre", "bal"]), rng.below(nex as u64)),
                _ => format!("ev price {i} {}", rng.pick(&["100", "104", "99.5", "0.25"])),
            }
        };
        out.line(line);
        known.append(&mut created);
        nev += 1;
    }
    let mut ks: Vec<usize> = vec![rng.below(nev as u64 + 3) as usize, *rng.pick(&[0, 1, nev, nev + 1, nev + 2])];
    if long {
        ks.truncate(1);
    }
    for k in ks {
        out.line(format!("rundrop {} {k}", if rng.chance(50) { "sync" } else { "async" }));
    }
    out.line(format!("runprod {} {}", if rng.chance(50) { "sync" } else { "async" }, rng.pick(&[0u64, 1, 2, 3, 5, 7])));
    if !long && rng.chance(40) {
        out.line(format!("runprod {} {}", if rng.chance(50) { "sync" } else { "async" }, rng.below(8)));
    }
}

fn gen_case(rng: &mut Rng, out: &mut Out, tier: &str) {
    let big = tier == "thorough";
    let len = rng.range(1, if big { 60 } else { 30 });
    match rng.below(100) {
        0..=24 => gen_channel(rng, out, len),
        25..=32 => gen_flaky(rng, out, len.min(25)),
        33..=54 => gen_merge(rng, out, len),
        55..=62 => gen_mrun(rng, out, tier),
        63..=70 => gen_index(rng, out, len.min(30)),
        71..=73 => gen_snapshot(rng, out),
        74..=84 => gen_prod(rng, out, len.min(40)),
        _ => gen_engine(rng, out, tier),
    }
}

/// every history of length <= `max_len` over the merge alphabet {ml, mr, mcl, mcr, mpoll} (closing twice
/// or sending after closing is skipped)
fn exhaustive_merge(out: &mut Out, id: &mut usize, max_len: usize) {
    let syms = ["ml", "mr", "mcl", "mcr", "mpoll"];
    for len in 0..=max_len {
        let total = syms.len().pow(len as u32);
        'code: for code in 0..total {
            let mut c = code;
            let (mut lo, mut ro, mut lv, mut rv) = (true, true, 0u64, 100u64);
            let mut ops: Vec<String> = vec!["merge".into()];
            for _ in 0..len {
                let s = syms[c % syms.len()];
                c /= syms.len();
                match s {
                    "ml" if lo => {
                        lv += 1;
                        ops.push(format!("ml {lv}"))
                    }
                    "mr" if ro => {
                        rv += 1;
                        ops.push(format!("mr {rv}"))
                    }
                    "mcl" if lo => {
                        lo = false;
                        ops.push("mcl".into())
                    }
                    "mcr" if ro => {
                        ro = false;
                        ops.push("mcr".into())
                    }
                    "mpoll" => ops.push("mpoll".into()),
                    _ => continue 'code,
                }
            }
            // finish with polls so that the tail behaviour (end, fused) is observed
            ops.extend(["mpoll".to_string(), "mpoll".to_string(), "mpoll".to_string()]);
            *id += 1;
            out.case(format!("xm{id}"));
            for o in ops {
                out.line(o);
            }
        }
    }
}

/// every history of length <= `max_len` over {dsend, disable, poll, droprx, dropd} on a wrapped channel
/// (nothing can be sent or disabled once the ChannelTxDroppable has been dropped)
fn exhaustive_droppable(out: &mut Out, id: &mut usize, max_len: usize) {
    let syms = ["dsend", "disable", "poll", "droprx", "dropd"];
    for len in 0..=max_len {
        let total = syms.len().pow(len as u32);
        'code: for code in 0..total {
            let mut c = code;
            let mut rx = true;
            let mut held = true;
            let mut ops: Vec<String> = vec!["chan".into(), "wrap 0".into()];
            for k in 0..len {
                let s = syms[c % syms.len()];
                c /= syms.len();
                match s {
                    "dsend" if held => ops.push(format!("dsend {}", k + 1)),
                    "disable" if held => ops.push("disable".into()),
                    "dropd" if held => {
                        held = false;
                        ops.push("dropd".into())
                    }
                    "poll" if rx => ops.push("poll".into()),
                    "droprx" if rx => {
                        rx = false;
                        ops.push("droprx".into())
                    }
                    _ => continue 'code,
                }
            }
            *id += 1;
            out.case(format!("xd{id}"));
            for o in ops {
                out.line(o);
            }
        }
    }
}

fn generate(seed: u64, n_cases: usize, tier: &str) {
    let mut out = Out::new();
    let mut rng = Rng::new(seed);
    let mut id = 0usize;
    if tier == "thorough" {
        exhaustive_merge(&mut out, &mut id, 7);
        exhaustive_droppable(&mut out, &mut id, 7);
    }
    for k in 0..n_cases {
        out.case(format!("r{k}"));
        gen_case(&mut rng, &mut out, tier);
    }
    // input-domain family of the run-loop section, seeded apart: the cases above stay what they were
    let mut wrng = Rng::new(seed ^ 0x10C0_D011);
    for k in 0..n_cases / 8 {
        out.case(format!("we{k}"));
        gen_engine_wide(&mut wrng, &mut out, tier, false);
    }
    for k in 0..(if tier == "thorough" { 10 } else { 2 }) {
        out.case(format!("le{k}"));
        gen_engine_wide(&mut wrng, &mut out, tier, true);
    }
    // configuration-shape family (cfg audit), seeded apart: an engine history as `gen_engine` draws it, then
    // `rundrop2 <mode> J K` = audit off for the events 0..J, then a second snapshot and the audited run with the
    // receiver dropped at K on the SAME, pre-populated engine (J = 0: empty first run; J >= length: the audited
    // run is the empty one; a shutdown / fatal event inside 0..J: the second run starts on a stopped engine)
    let mut crng = Rng::new(seed ^ 0xCF61_10C0);
    for k in 0..n_cases / 8 {
        out.case(format!("cfg{k}"));
        gen_engine(&mut crng, &mut out, tier);
        for _ in 0..crng.range(1, 3) {
            let j = match crng.below(5) {
                0 => 0,
                _ => crng.below(if tier == "thorough" { 18 } else { 11 }),
            };
            out.line(format!("rundrop2 {} {j} {}", if crng.chance(50) { "sync" } else { "async" }, crng.below(10)));
        }
    }
    out.flush();
}

fn main() {
    let a = args();
    match a.cmd.as_str() {
        "gen" => generate(a.seed, a.n, &a.tier),
        "run" => run(),
        _ => {
            eprintln!("usage: c10c gen <seed> <n> <tier> | run < cases");
            std::process::exit(2)
        }
    }
}
