//! C11N (sub-check of C11) — instrument / asset / exchange names and keys, and the lookup API of
//! `IndexedInstruments`. Every op calls the real code of `barter-instrument` in-process.
//!
//! String tokens start with `'`; characters outside `[A-Za-z0-9_.-]` are written `%<hex>;`
//! (`'` alone is the empty string). Exchanges are addressed by their position in the declaration
//! order of `ExchangeId` (`ALL`; completeness is enforced by the wildcard-free `ord` match below
//! and cross-checked against the variant list parsed from exchange.rs by the `exall` op).
//!
//! Stateless ops
//!   ani|ane|ini|ine S          the four name constructors: name / Display / serde / From impls
//!   nfe E S  | nfu E S S        InstrumentNameInternal::new_from_exchange / _underlying
//!   eqci S S                    AssetNameInternal / InstrumentNameInternal equality of new(S), new(S)
//!   cmp S S                     derived Ord of AssetNameExchange (string order)
//!   asset S S | assetx S        Asset::new / Asset::new_from_exchange (and From<S>)
//!   exch E | exde S | exall     ExchangeId table row, deserialisation of a string, whole-enum facts
//!   idx N | keyed N S           index newtypes' Display / index(); Keyed::new / Display / AsRef
//!   side b|s | sidede S         Side Display / serde
//!   md S S <mdkind>             MarketDataInstrument::new / From tuple / Display / serde
//! Stateful ops (a case holds a list of definitions and, after `build`, an IndexedInstruments)
//!   def E S S S S S S Q <kind> <spec>    Instrument::new (+ MarketDataInstrument::from, kind accessors)
//!   spot E S S S S S S <spec>            Instrument::spot
//!   mek D E | mak D S*                    map_exchange_key / map_asset_key_with_lookup (failing names)
//!   build                                 IndexedInstruments::new / builder / from_iter, accessors
//!   fxi E | fx N | fai E S | fa N | fii E S | fi N      the six lookups
//! Expiries (in <kind> / <mdkind>) are millisecond timestamps 0 ..= MAX_EXPIRY_MS (year 9999); an op
//! with a larger one is answered `bad-op` (the drivers do the same).
use barter_instrument::{
    Keyed, Side, Underlying,
    asset::{
        Asset, AssetIndex,
        name::{AssetNameExchange, AssetNameInternal},
    },
    exchange::{ExchangeId, ExchangeIndex},
    index::{IndexedInstruments, error::IndexError},
    instrument::{
        Instrument, InstrumentIndex,
        kind::{
            InstrumentKind,
            future::FutureContract,
            option::{OptionContract, OptionExercise, OptionKind},
            perpetual::PerpetualContract,
        },
        market_data::{
            MarketDataInstrument,
            kind::{MarketDataFutureContract, MarketDataInstrumentKind, MarketDataOptionContract},
        },
        name::{InstrumentNameExchange, InstrumentNameInternal},
        quote::InstrumentQuoteAsset,
        spec::{
            InstrumentSpec, InstrumentSpecNotional, InstrumentSpecPrice, InstrumentSpecQuantity,
            OrderQuantityUnits,
        },
    },
};
use chrono::{DateTime, TimeZone, Utc};
use rust_decimal::Decimal;
use smol_str::SmolStr;
use std::borrow::Borrow;
use vh::*;

/// Longest name (in Unicode scalar values) the model's order-preserving name code covers.
const MAXLEN: usize = 48;

// ---------------------------------------------------------------------------- ExchangeId table

const ALL: [ExchangeId; 42] = [
    ExchangeId::Other,
    ExchangeId::Simulated,
    ExchangeId::Mock,
    ExchangeId::BinanceFuturesCoin,
    ExchangeId::BinanceFuturesUsd,
    ExchangeId::BinanceOptions,
    ExchangeId::BinancePortfolioMargin,
    ExchangeId::BinanceSpot,
    ExchangeId::BinanceUs,
    ExchangeId::Bitazza,
    ExchangeId::Bitfinex,
    ExchangeId::Bitflyer,
    ExchangeId::Bitget,
    ExchangeId::Bitmart,
    ExchangeId::BitmartFuturesUsd,
    ExchangeId::Bitmex,
    ExchangeId::Bitso,
    ExchangeId::Bitstamp,
    ExchangeId::Bitvavo,
    ExchangeId::Bithumb,
    ExchangeId::BybitPerpetualsUsd,
    ExchangeId::BybitSpot,
    ExchangeId::Cexio,
    ExchangeId::Coinbase,
    ExchangeId::CoinbaseInternational,
    ExchangeId::Cryptocom,
    ExchangeId::Deribit,
    ExchangeId::GateioFuturesBtc,
    ExchangeId::GateioFuturesUsd,
    ExchangeId::GateioOptions,
    ExchangeId::GateioPerpetualsBtc,
    ExchangeId::GateioPerpetualsUsd,
    ExchangeId::GateioSpot,
    ExchangeId::Gemini,
    ExchangeId::Hitbtc,
    ExchangeId::Htx,
    ExchangeId::Kraken,
    ExchangeId::Kucoin,
    ExchangeId::Liquid,
    ExchangeId::Mexc,
    ExchangeId::Okx,
    ExchangeId::Poloniex,
];

/// Declaration position. NO wildcard arm: a variant added to (or removed from) `ExchangeId` makes
/// this harness fail to compile, so `ALL` cannot silently go stale.
fn ord(e: ExchangeId) -> usize {
    match e {
        ExchangeId::Other => 0,
        ExchangeId::Simulated => 1,
        ExchangeId::Mock => 2,
        ExchangeId::BinanceFuturesCoin => 3,
        ExchangeId::BinanceFuturesUsd => 4,
        ExchangeId::BinanceOptions => 5,
        ExchangeId::BinancePortfolioMargin => 6,
        ExchangeId::BinanceSpot => 7,
        ExchangeId::BinanceUs => 8,
        ExchangeId::Bitazza => 9,
        ExchangeId::Bitfinex => 10,
        ExchangeId::Bitflyer => 11,
        ExchangeId::Bitget => 12,
        ExchangeId::Bitmart => 13,
        ExchangeId::BitmartFuturesUsd => 14,
        ExchangeId::Bitmex => 15,
        ExchangeId::Bitso => 16,
        ExchangeId::Bitstamp => 17,
        ExchangeId::Bitvavo => 18,
        ExchangeId::Bithumb => 19,
        ExchangeId::BybitPerpetualsUsd => 20,
        ExchangeId::BybitSpot => 21,
        ExchangeId::Cexio => 22,
        ExchangeId::Coinbase => 23,
        ExchangeId::CoinbaseInternational => 24,
        ExchangeId::Cryptocom => 25,
        ExchangeId::Deribit => 26,
        ExchangeId::GateioFuturesBtc => 27,
        ExchangeId::GateioFuturesUsd => 28,
        ExchangeId::GateioOptions => 29,
        ExchangeId::GateioPerpetualsBtc => 30,
        ExchangeId::GateioPerpetualsUsd => 31,
        ExchangeId::GateioSpot => 32,
        ExchangeId::Gemini => 33,
        ExchangeId::Hitbtc => 34,
        ExchangeId::Htx => 35,
        ExchangeId::Kraken => 36,
        ExchangeId::Kucoin => 37,
        ExchangeId::Liquid => 38,
        ExchangeId::Mexc => 39,
        ExchangeId::Okx => 40,
        ExchangeId::Poloniex => 41,
    }
}

/// Variant names of `enum ExchangeId` as written in the source file (between `pub enum ExchangeId {`
/// and the closing brace; attribute and comment lines skipped).
fn variants_in_source() -> Option<Vec<String>> {
    let src = std::fs::read_to_string("/repo/barter-instrument/src/exchange.rs").ok()?;
    let start = src.find("pub enum ExchangeId {")?;
    let body = &src[start + "pub enum ExchangeId {".len()..];
    let end = body.find('}')?;
    Some(
        body[..end]
            .lines()
            .map(|l| l.trim())
            .filter(|l| !l.is_empty() && !l.starts_with('#') && !l.starts_with("//"))
            .map(|l| l.trim_end_matches(',').to_string())
            .collect(),
    )
}

// ---------------------------------------------------------------------------- tokens

fn enc_s(s: &str) -> String {
    let mut o = String::from("'");
    for c in s.chars() {
        if c.is_ascii_alphanumeric() || c == '_' || c == '.' || c == '-' {
            o.push(c);
        } else {
            o.push_str(&format!("%{:x};", c as u32));
        }
    }
    o
}

fn dec_s(t: &str) -> String {
    let t = t.strip_prefix('\'').expect("string token");
    let mut o = String::new();
    let mut it = t.chars();
    while let Some(c) = it.next() {
        if c == '%' {
            let mut h = String::new();
            for d in it.by_ref() {
                if d == ';' {
                    break;
                }
                h.push(d);
            }
            o.push(char::from_u32(u32::from_str_radix(&h, 16).expect("hex")).expect("scalar"));
        } else {
            o.push(c);
        }
    }
    o
}

struct Toks<'a>(std::slice::Iter<'a, String>);
impl<'a> Toks<'a> {
    fn t(&mut self) -> &'a str {
        self.0.next().expect("token").as_str()
    }
    fn n(&mut self) -> usize {
        self.t().parse().expect("nat")
    }
    fn i(&mut self) -> i64 {
        self.t().parse().expect("int")
    }
    fn s(&mut self) -> String {
        dec_s(self.t())
    }
    fn e(&mut self) -> ExchangeId {
        ALL[self.n()]
    }
    fn end(&mut self) {
        assert!(self.0.next().is_none(), "trailing tokens");
    }
    fn rest_s(&mut self) -> Vec<String> {
        let mut v = vec![];
        for t in self.0.by_ref() {
            v.push(dec_s(t));
        }
        v
    }
}

fn b(x: bool) -> &'static str {
    if x { "1" } else { "0" }
}

fn dec(n: usize) -> Decimal {
    Decimal::from(n as u64)
}
fn undec(d: Decimal) -> String {
    let s = d.to_string();
    assert!(s.chars().all(|c| c.is_ascii_digit()), "integer decimal");
    s
}
/// Largest expiry an op may carry: 9999-12-31T23:59:59.999Z. Up to here `NaiveDate`'s Display is the
/// plain `YYYY-MM-DD` the model prints; beyond it chrono prints a sign and five or more digits, from
/// 8_210_266_876_800_000 on the timestamp is not representable at all and from 2^63 on `as i64`
/// would wrap to a negative time. Such ops are answered `bad-op` (by the drivers too).
const MAX_EXPIRY_MS: u64 = 253_402_300_799_999;

/// `None` = expiry outside the supported range (the op is answered `bad-op`)
fn time(t: &str) -> Option<DateTime<Utc>> {
    let ms: u64 = t.parse().ok()?;
    if ms > MAX_EXPIRY_MS {
        return None;
    }
    Utc.timestamp_millis_opt(ms as i64).single()
}
fn untime(t: DateTime<Utc>) -> i64 {
    t.timestamp_millis()
}
fn chars(s: &str) -> usize {
    s.chars().count()
}

// ---------------------------------------------------------------------------- definitions

fn p_asset(t: &mut Toks) -> Asset {
    let (i, e) = (t.s(), t.s());
    Asset::new(i, e)
}

/// `None` = an expiry outside the supported range
fn p_kind(t: &mut Toks) -> Option<InstrumentKind<Asset>> {
    Some(match t.t() {
        "s" => InstrumentKind::Spot,
        "p" => InstrumentKind::Perpetual(PerpetualContract {
            contract_size: dec(t.n()),
            settlement_asset: p_asset(t),
        }),
        "f" => InstrumentKind::Future(FutureContract {
            contract_size: dec(t.n()),
            settlement_asset: p_asset(t),
            expiry: time(t.t())?,
        }),
        "o" => InstrumentKind::Option(OptionContract {
            contract_size: dec(t.n()),
            settlement_asset: p_asset(t),
            kind: [OptionKind::Call, OptionKind::Put][t.n()],
            exercise: [
                OptionExercise::American,
                OptionExercise::Bermudan,
                OptionExercise::European,
            ][t.n()],
            expiry: time(t.t())?,
            strike: dec(t.n()),
        }),
        other => panic!("bad kind {other}"),
    })
}

fn p_spec(t: &mut Toks) -> Option<InstrumentSpec<Asset>> {
    match t.t() {
        "n" => None,
        "y" => {
            let price = InstrumentSpecPrice::new(dec(t.n()), dec(t.n()));
            let unit = match t.t() {
                "a" => OrderQuantityUnits::Asset(p_asset(t)),
                "c" => OrderQuantityUnits::Contract,
                "q" => OrderQuantityUnits::Quote,
                other => panic!("bad unit {other}"),
            };
            let quantity = InstrumentSpecQuantity::new(unit, dec(t.n()), dec(t.n()));
            Some(InstrumentSpec::new(
                price,
                quantity,
                InstrumentSpecNotional::new(dec(t.n())),
            ))
        }
        other => panic!("bad spec {other}"),
    }
}

/// `None` = an expiry outside the supported range
fn p_mdkind(t: &mut Toks) -> Option<MarketDataInstrumentKind> {
    Some(match t.t() {
        "s" => MarketDataInstrumentKind::Spot,
        "p" => MarketDataInstrumentKind::Perpetual,
        "f" => MarketDataInstrumentKind::Future(MarketDataFutureContract { expiry: time(t.t())? }),
        "o" => MarketDataInstrumentKind::Option(MarketDataOptionContract {
            kind: [OptionKind::Call, OptionKind::Put][t.n()],
            exercise: [
                OptionExercise::American,
                OptionExercise::Bermudan,
                OptionExercise::European,
            ][t.n()],
            expiry: time(t.t())?,
            strike: {
                let m = t.i();
                Decimal::new(m, t.n() as u32)
            },
        }),
        other => panic!("bad mdkind {other}"),
    })
}

fn f_kind<A>(k: &InstrumentKind<A>, fa: &impl Fn(&A) -> String) -> String {
    match k {
        InstrumentKind::Spot => "s".to_string(),
        InstrumentKind::Perpetual(c) => {
            format!("p {} {}", undec(c.contract_size), fa(&c.settlement_asset))
        }
        InstrumentKind::Future(c) => format!(
            "f {} {} {}",
            undec(c.contract_size),
            fa(&c.settlement_asset),
            untime(c.expiry)
        ),
        InstrumentKind::Option(c) => format!(
            "o {} {} {} {} {} {}",
            undec(c.contract_size),
            fa(&c.settlement_asset),
            match c.kind {
                OptionKind::Call => 0,
                OptionKind::Put => 1,
            },
            match c.exercise {
                OptionExercise::American => 0,
                OptionExercise::Bermudan => 1,
                OptionExercise::European => 2,
            },
            untime(c.expiry),
            undec(c.strike)
        ),
    }
}

fn f_spec<A>(s: &Option<InstrumentSpec<A>>, fa: &impl Fn(&A) -> String) -> String {
    match s {
        None => "n".to_string(),
        Some(s) => format!(
            "y {} {} {} {} {} {}",
            undec(s.price.min),
            undec(s.price.tick_size),
            match &s.quantity.unit {
                OrderQuantityUnits::Asset(a) => format!("a {}", fa(a)),
                OrderQuantityUnits::Contract => "c".into(),
                OrderQuantityUnits::Quote => "q".into(),
            },
            undec(s.quantity.min),
            undec(s.quantity.increment),
            undec(s.notional.min)
        ),
    }
}

fn f_ins<E, A>(
    i: &Instrument<E, A>,
    fe: impl Fn(&E) -> String,
    fa: impl Fn(&A) -> String,
) -> String {
    format!(
        "{} {} {} {} {} {} {} {}",
        fe(&i.exchange),
        enc_s(i.name_internal.name()),
        enc_s(i.name_exchange.name()),
        fa(&i.underlying.base),
        fa(&i.underlying.quote),
        match i.quote {
            InstrumentQuoteAsset::UnderlyingBase => 0,
            InstrumentQuoteAsset::UnderlyingQuote => 1,
        },
        f_kind(&i.kind, &fa),
        f_spec(&i.spec, &fa)
    )
}

fn f_asset(a: &Asset) -> String {
    format!(
        "{} {}",
        enc_s(a.name_internal.name()),
        enc_s(a.name_exchange.name())
    )
}

fn asset_refs(i: &Instrument<ExchangeId, Asset>) -> Vec<&Asset> {
    let mut v = vec![&i.underlying.base, &i.underlying.quote];
    if let Some(a) = i.kind.settlement_asset() {
        v.push(a);
    }
    if let Some(InstrumentSpec {
        quantity:
            InstrumentSpecQuantity {
                unit: OrderQuantityUnits::Asset(a),
                ..
            },
        ..
    }) = &i.spec
    {
        v.push(a);
    }
    v
}

fn too_long(i: &Instrument<ExchangeId, Asset>) -> bool {
    chars(i.name_internal.name()) > MAXLEN
        || chars(i.name_exchange.name()) > MAXLEN
        || asset_refs(i).iter().any(|a| {
            chars(a.name_internal.name()) > MAXLEN || chars(a.name_exchange.name()) > MAXLEN
        })
}

fn observe_def(i: &Instrument<ExchangeId, Asset>, lines: &mut Vec<String>) {
    lines.push(format!(
        "ins {}",
        f_ins(i, |e| ord(*e).to_string(), f_asset)
    ));
    let md = MarketDataInstrument::from(i);
    lines.push(format!("md {}", enc_s(&md.to_string())));
    lines.push(format!("csize {}", undec(i.kind.contract_size())));
    lines.push(format!(
        "settle {}",
        i.kind
            .settlement_asset()
            .map(f_asset)
            .unwrap_or_else(|| "none".into())
    ));
    // the two From impls (by value / by reference) agree, and the instrument's kind matches the
    // market-data kind derived from it
    let by_ref = MarketDataInstrumentKind::from(&i.kind);
    let by_val = MarketDataInstrumentKind::from(i.kind.clone());
    lines.push(format!(
        "eqmd {} {}",
        b(i.kind.eq_market_data_instrument_kind(&by_ref)),
        b(by_ref == by_val && md.kind == by_ref)
    ));
}

// ---------------------------------------------------------------------------- name ops

trait NameLike: Sized + std::fmt::Display + serde::Serialize + PartialEq {
    fn mk(s: &str) -> Self;
    fn text(&self) -> &SmolStr;
    fn from_str_(s: &str) -> Self;
    fn from_string(s: String) -> Self;
    fn from_smol(s: SmolStr) -> Self;
    fn de(v: serde_json::Value) -> Option<Self>;
    fn views(&self) -> (&str, &str);
}

macro_rules! name_like {
    ($t:ty) => {
        impl NameLike for $t {
            fn mk(s: &str) -> Self {
                <$t>::new(s)
            }
            fn text(&self) -> &SmolStr {
                self.name()
            }
            fn from_str_(s: &str) -> Self {
                <$t>::from(s)
            }
            fn from_string(s: String) -> Self {
                <$t>::from(s)
            }
            fn from_smol(s: SmolStr) -> Self {
                <$t>::from(s)
            }
            fn de(v: serde_json::Value) -> Option<Self> {
                serde_json::from_value(v).ok()
            }
            fn views(&self) -> (&str, &str) {
                (self.borrow(), self.as_ref())
            }
        }
    };
}
name_like!(AssetNameInternal);
name_like!(AssetNameExchange);
name_like!(InstrumentNameInternal);
name_like!(InstrumentNameExchange);

fn op_name<T: NameLike>(s: &str, lines: &mut Vec<String>) {
    let x = T::mk(s);
    lines.push(format!("name {}", enc_s(x.text())));
    lines.push(format!("disp {}", enc_s(&x.to_string())));
    let ser = serde_json::to_value(&x).expect("serialise");
    lines.push(format!(
        "ser {}",
        match &ser {
            serde_json::Value::String(s) => enc_s(s),
            _ => "notstring".into(),
        }
    ));
    // deserialising the raw input and deserialising the serialised name
    lines.push(format!(
        "de {} {}",
        T::de(serde_json::Value::String(s.to_string()))
            .map(|y| enc_s(y.text()))
            .unwrap_or_else(|| "err".into()),
        T::de(ser)
            .map(|y| enc_s(y.text()))
            .unwrap_or_else(|| "err".into())
    ));
    // JSON text round trip
    let txt = serde_json::to_string(&x).expect("serialise");
    lines.push(format!(
        "json {}",
        b(serde_json::from_str::<serde_json::Value>(&txt)
            .ok()
            .and_then(T::de)
            .is_some_and(|y| y == x))
    ));
    let from_all = T::from_str_(s) == x
        && T::from_string(s.to_string()) == x
        && T::from_smol(SmolStr::new(s)) == x;
    let (bo, ar) = x.views();
    lines.push(format!(
        "from {} {}",
        b(from_all),
        b(bo == x.text().as_str() && ar == x.text().as_str())
    ));
    lines.push(format!("idem {}", b(T::mk(x.text()) == x)));
}

// ---------------------------------------------------------------------------- lookups

fn ekind(e: &IndexError) -> &'static str {
    match e {
        IndexError::ExchangeIndex(_) => "exchange",
        IndexError::AssetIndex(_) => "asset",
        IndexError::InstrumentIndex(_) => "instrument",
    }
}

/// `r ok <v>` / `r err`, `ekind <variant>|-`, and the thiserror Display prefix of the error.
fn result_lines<T>(
    r: &Result<T, IndexError>,
    show: impl Fn(&T) -> String,
    lines: &mut Vec<String>,
) {
    match r {
        Ok(v) => {
            lines.push(format!("r ok {}", show(v)));
            lines.push("ekind -".into());
        }
        Err(e) => {
            lines.push("r err".into());
            lines.push(format!("ekind {}", ekind(e)));
            let msg = e.to_string();
            let prefix = match e {
                IndexError::ExchangeIndex(_) => "ExchangeIndex: ",
                IndexError::AssetIndex(_) => "AssetIndex: ",
                IndexError::InstrumentIndex(_) => "InstrumentIndex: ",
            };
            lines.push(format!("emsg {}", b(msg.starts_with(prefix))));
        }
    }
}

fn f_indexed(i: &Instrument<Keyed<ExchangeIndex, ExchangeId>, AssetIndex>) -> String {
    f_ins(
        i,
        |e| format!("{} {}", e.key.0, ord(e.value)),
        |a| a.0.to_string(),
    )
}

// ---------------------------------------------------------------------------- run

fn run() {
    // the table really is the whole enum, in declaration (= derived Ord) order
    assert!(ALL.iter().enumerate().all(|(i, e)| ord(*e) == i));
    run_cases(|case, lines| {
        let mut defs: Vec<Instrument<ExchangeId, Asset>> = vec![];
        let mut ii: Option<IndexedInstruments> = None;
        for op in case.ops.iter() {
            lines.push("@".into());
            let mut t = Toks(op[1..].iter());
            match op[0].as_str() {
                "ani" => op_name::<AssetNameInternal>(&t.s(), lines),
                "ane" => op_name::<AssetNameExchange>(&t.s(), lines),
                "ini" => op_name::<InstrumentNameInternal>(&t.s(), lines),
                "ine" => op_name::<InstrumentNameExchange>(&t.s(), lines),
                "nfe" => {
                    let (e, s) = (t.e(), t.s());
                    let a = InstrumentNameInternal::new_from_exchange(e, s.as_str());
                    let bb = InstrumentNameInternal::new_from_exchange(
                        e,
                        InstrumentNameExchange::new(s.as_str()),
                    );
                    lines.push(format!("name {}", enc_s(a.name())));
                    lines.push(format!("agree {}", b(a == bb)));
                }
                "nfu" => {
                    let (e, bs, qs) = (t.e(), t.s(), t.s());
                    let a = InstrumentNameInternal::new_from_exchange_underlying(
                        e,
                        &AssetNameExchange::new(bs),
                        &AssetNameExchange::new(qs),
                    );
                    lines.push(format!("name {}", enc_s(a.name())));
                }
                "eqci" => {
                    let (x, y) = (t.s(), t.s());
                    lines.push(format!(
                        "eq {} {}",
                        b(AssetNameInternal::new(x.as_str()) == AssetNameInternal::new(y.as_str())),
                        b(InstrumentNameInternal::new(x.as_str())
                            == InstrumentNameInternal::new(y.as_str()))
                    ));
                    lines.push(format!(
                        "eqx {}",
                        b(AssetNameExchange::new(x.as_str()) == AssetNameExchange::new(y.as_str()))
                    ));
                }
                "cmp" => {
                    let (x, y) = (t.s(), t.s());
                    if chars(&x) > MAXLEN || chars(&y) > MAXLEN {
                        lines.push("toolong".into());
                    } else {
                        let c = AssetNameExchange::new(x.as_str())
                            .cmp(&AssetNameExchange::new(y.as_str()));
                        let c2 = InstrumentNameExchange::new(x.as_str())
                            .cmp(&InstrumentNameExchange::new(y.as_str()));
                        assert_eq!(c, c2);
                        lines.push(format!(
                            "cmp {}",
                            match c {
                                std::cmp::Ordering::Less => "lt",
                                std::cmp::Ordering::Equal => "eq",
                                std::cmp::Ordering::Greater => "gt",
                            }
                        ));
                    }
                }
                "asset" => {
                    let (i, e) = (t.s(), t.s());
                    lines.push(format!("asset {}", f_asset(&Asset::new(i, e))));
                }
                "assetx" => {
                    let e = t.s();
                    let a = Asset::new_from_exchange(e.as_str());
                    lines.push(format!("asset {}", f_asset(&a)));
                    lines.push(format!(
                        "from {}",
                        b(Asset::from(e.as_str()) == a
                            && Asset::from(AssetNameExchange::new(e.as_str())) == a
                            && AssetNameInternal::from(a.clone()) == a.name_internal)
                    ));
                }
                "exch" => {
                    let e = t.e();
                    lines.push(format!("variant {}", enc_s(&format!("{e:?}"))));
                    lines.push(format!("as_str {}", enc_s(e.as_str())));
                    lines.push(format!("disp {}", enc_s(&e.to_string())));
                    let ser = serde_json::to_value(e).expect("serialise");
                    lines.push(format!(
                        "ser {}",
                        ser.as_str().map(enc_s).unwrap_or_else(|| "notstring".into())
                    ));
                    lines.push(format!(
                        "de {}",
                        serde_json::from_value::<ExchangeId>(ser)
                            .map(|x| ord(x).to_string())
                            .unwrap_or_else(|_| "err".into())
                    ));
                    lines.push(format!("ord {}", ord(e)));
                }
                "exde" => {
                    let s = t.s();
                    lines.push(format!(
                        "de {}",
                        serde_json::from_value::<ExchangeId>(serde_json::Value::String(s))
                            .map(|x| ord(x).to_string())
                            .unwrap_or_else(|_| "err".into())
                    ));
                }
                "exall" => {
                    lines.push(format!("n {}", ALL.len()));
                    lines.push(format!("sorted {}", b(ALL.windows(2).all(|w| w[0] < w[1]))));
                    let src = variants_in_source();
                    lines.push(format!(
                        "source {}",
                        b(src.is_some_and(|v| v.len() == ALL.len()
                            && v.iter().zip(ALL.iter()).all(|(n, e)| *n == format!("{e:?}"))))
                    ));
                }
                "idx" => {
                    let n = t.n();
                    lines.push(format!(
                        "disp {} {} {}",
                        enc_s(&ExchangeIndex::new(n).to_string()),
                        enc_s(&AssetIndex::new(n).to_string()),
                        enc_s(&InstrumentIndex::new(n).to_string())
                    ));
                    lines.push(format!(
                        "index {} {} {}",
                        ExchangeIndex(n).index(),
                        AssetIndex(n).index(),
                        InstrumentIndex(n).index()
                    ));
                }
                "keyed" => {
                    let (n, s) = (t.n(), t.s());
                    let k = Keyed::new(ExchangeIndex(n), AssetNameInternal::new(s));
                    lines.push(format!("disp {}", enc_s(&k.to_string())));
                    let v: &AssetNameInternal = k.as_ref();
                    lines.push(format!("key {} value {}", k.key.0, enc_s(v.name())));
                }
                "side" => {
                    let s = match t.t() {
                        "b" => Side::Buy,
                        "s" => Side::Sell,
                        other => panic!("bad side {other}"),
                    };
                    lines.push(format!("disp {}", enc_s(&s.to_string())));
                    let ser = serde_json::to_value(s).expect("serialise");
                    lines.push(format!(
                        "ser {}",
                        ser.as_str().map(enc_s).unwrap_or_else(|| "notstring".into())
                    ));
                    lines.push(format!(
                        "de {}",
                        b(serde_json::from_value::<Side>(ser).is_ok_and(|x| x == s))
                    ));
                }
                "sidede" => {
                    let s = t.s();
                    lines.push(format!(
                        "de {}",
                        match serde_json::from_value::<Side>(serde_json::Value::String(s)) {
                            Ok(Side::Buy) => "b",
                            Ok(Side::Sell) => "s",
                            Err(_) => "err",
                        }
                    ));
                }
                "md" => {
                    let (bs, qs) = (t.s(), t.s());
                    let Some(kind) = p_mdkind(&mut t) else {
                        lines.push("bad-op".into());
                        continue;
                    };
                    let md = MarketDataInstrument::new(bs.as_str(), qs.as_str(), kind.clone());
                    lines.push(format!("base {}", enc_s(md.base.name())));
                    lines.push(format!("quote {}", enc_s(md.quote.name())));
                    lines.push(format!("kdisp {}", enc_s(&md.kind.to_string())));
                    lines.push(format!("disp {}", enc_s(&md.to_string())));
                    lines.push(format!(
                        "tuple {}",
                        b(MarketDataInstrument::from((bs.as_str(), qs.as_str(), kind.clone())) == md)
                    ));
                    let txt = serde_json::to_string(&md).expect("serialise");
                    lines.push(format!("ser {}", enc_s(&txt)));
                    lines.push(format!(
                        "de {}",
                        b(serde_json::from_str::<MarketDataInstrument>(&txt).is_ok_and(|x| x == md))
                    ));
                }
                "def" | "spot" => {
                    let e = t.e();
                    let (ni, ne) = (t.s(), t.s());
                    let underlying = {
                        let base = p_asset(&mut t);
                        let quote = p_asset(&mut t);
                        Underlying::new(base, quote)
                    };
                    let i = if op[0] == "def" {
                        let qa = [
                            InstrumentQuoteAsset::UnderlyingBase,
                            InstrumentQuoteAsset::UnderlyingQuote,
                        ][t.n()];
                        let Some(kind) = p_kind(&mut t) else {
                            lines.push("bad-op".into());
                            continue;
                        };
                        let spec = p_spec(&mut t);
                        Instrument::new(e, ni.as_str(), ne.as_str(), underlying, qa, kind, spec)
                    } else {
                        let spec = p_spec(&mut t);
                        Instrument::spot(e, ni.as_str(), ne.as_str(), underlying, spec)
                    };
                    if too_long(&i) {
                        lines.push("toolong".into());
                    } else {
                        observe_def(&i, lines);
                        defs.push(i);
                        ii = None;
                    }
                }
                "mek" => {
                    let (d, e) = (t.n(), t.e());
                    match defs.get(d) {
                        None => lines.push("nodef".into()),
                        Some(i) => {
                            let m = i.clone().map_exchange_key(Keyed::new(ExchangeIndex(d), e));
                            lines.push(format!(
                                "ins {}",
                                f_ins(&m, |k| format!("{} {}", k.key.0, ord(k.value)), f_asset)
                            ));
                        }
                    }
                }
                "mak" => {
                    let d = t.n();
                    let missing: Vec<AssetNameInternal> = t
                        .rest_s()
                        .into_iter()
                        .map(|s| AssetNameInternal::new(s))
                        .collect();
                    match defs.get(d) {
                        None => lines.push("nodef".into()),
                        Some(i) => {
                            let calls = std::cell::Cell::new(0usize);
                            let r = i.clone().map_asset_key_with_lookup(|a: &Asset| {
                                calls.set(calls.get() + 1);
                                if missing.contains(&a.name_internal) {
                                    Err(a.name_internal.clone())
                                } else {
                                    Ok(a.name_exchange.clone())
                                }
                            });
                            match r {
                                Ok(m) => lines.push(format!(
                                    "r ok {}",
                                    f_ins(&m, |e| ord(*e).to_string(), |a| enc_s(a.name()))
                                )),
                                Err(n) => lines.push(format!("r err {}", enc_s(n.name()))),
                            }
                            lines.push(format!("calls {}", calls.get()));
                        }
                    }
                }
                "build" => {
                    let built = IndexedInstruments::new(defs.clone());
                    let by_builder = defs
                        .iter()
                        .cloned()
                        .fold(IndexedInstruments::builder(), |bl, i| bl.add_instrument(i))
                        .build();
                    let by_iter: IndexedInstruments = defs.iter().cloned().collect();
                    lines.push(format!(
                        "n {} {} {}",
                        built.exchanges().len(),
                        built.assets().len(),
                        built.instruments().len()
                    ));
                    for x in built.exchanges() {
                        lines.push(format!("ex {} {}", x.key.0, ord(x.value)));
                    }
                    for x in built.assets() {
                        lines.push(format!(
                            "as {} {} {}",
                            x.key.0,
                            ord(x.value.exchange),
                            f_asset(&x.value.asset)
                        ));
                    }
                    for x in built.instruments() {
                        lines.push(format!("in {} {}", x.key.0, f_indexed(&x.value)));
                    }
                    lines.push(format!(
                        "same {}",
                        b(built == by_builder && built == by_iter)
                    ));
                    ii = Some(built);
                }
                "fxi" | "fx" | "fai" | "fa" | "fii" | "fi" => {
                    let Some(ii) = ii.as_ref() else {
                        lines.push("nobuild".into());
                        continue;
                    };
                    match op[0].as_str() {
                        "fxi" => {
                            let e = t.e();
                            let r = ii.find_exchange_index(e);
                            result_lines(&r, |k| k.0.to_string(), lines);
                            lines.push(format!(
                                "found {}",
                                b(defs.iter().any(|d| d.exchange == e))
                            ));
                            lines.push(format!(
                                "rt {}",
                                b(r.is_ok_and(|k| ii.find_exchange(k) == Ok(e)))
                            ));
                        }
                        "fx" => {
                            let k = ExchangeIndex(t.n());
                            let r = ii.find_exchange(k);
                            result_lines(&r, |e| ord(*e).to_string(), lines);
                            lines.push(format!("found {}", b(k.0 < ii.exchanges().len())));
                            lines.push(format!(
                                "rt {}",
                                b(r.is_ok_and(|e| ii.find_exchange_index(e) == Ok(k)))
                            ));
                        }
                        "fai" => {
                            let (e, s) = (t.e(), t.s());
                            let name = AssetNameInternal::new(s);
                            if chars(name.name()) > MAXLEN {
                                lines.push("toolong".into());
                                continue;
                            }
                            let r = ii.find_asset_index(e, &name);
                            result_lines(&r, |k| k.0.to_string(), lines);
                            lines.push(format!(
                                "found {}",
                                b(defs.iter().any(|d| d.exchange == e
                                    && asset_refs(d).iter().any(|a| a.name_internal == name)))
                            ));
                            lines.push(format!(
                                "rt {}",
                                b(r.is_ok_and(|k| ii.find_asset(k).is_ok_and(|x| x.exchange == e
                                    && x.asset.name_internal == name)))
                            ));
                        }
                        "fa" => {
                            let k = AssetIndex(t.n());
                            let r = ii.find_asset(k);
                            result_lines(
                                &r,
                                |x| format!("{} {}", ord(x.exchange), f_asset(&x.asset)),
                                lines,
                            );
                            lines.push(format!("found {}", b(k.0 < ii.assets().len())));
                            // the entry is one of the assets the definitions mention
                            lines.push(format!(
                                "rt {}",
                                b(r.is_ok_and(|x| defs.iter().any(|d| d.exchange == x.exchange
                                    && asset_refs(d).iter().any(|a| **a == x.asset))))
                            ));
                        }
                        "fii" => {
                            let (e, s) = (t.e(), t.s());
                            let name = InstrumentNameInternal::new(s);
                            if chars(name.name()) > MAXLEN {
                                lines.push("toolong".into());
                                continue;
                            }
                            let r = ii.find_instrument_index(e, &name);
                            result_lines(&r, |k| k.0.to_string(), lines);
                            lines.push(format!(
                                "found {}",
                                b(defs
                                    .iter()
                                    .any(|d| d.exchange == e && d.name_internal == name))
                            ));
                            lines.push(format!(
                                "rt {}",
                                b(r.is_ok_and(|k| ii.find_instrument(k).is_ok_and(|x| x
                                    .exchange
                                    .value
                                    == e
                                    && x.name_internal == name)))
                            ));
                        }
                        "fi" => {
                            let k = InstrumentIndex(t.n());
                            let r = ii.find_instrument(k);
                            result_lines(&r, |x| f_indexed(x), lines);
                            lines.push(format!("found {}", b(k.0 < ii.instruments().len())));
                            lines.push(format!(
                                "rt {}",
                                b(r.is_ok_and(|x| defs.iter().any(|d| d.exchange
                                    == x.exchange.value
                                    && d.name_internal == x.name_internal
                                    && d.name_exchange == x.name_exchange)))
                            ));
                        }
                        _ => unreachable!(),
                    }
                }
                other => panic!("bad op {other}"),
            }
            if !matches!(op[0].as_str(), "def" | "spot" | "mak") {
                t.end();
            }
        }
    });
}

// ---------------------------------------------------------------------------- generators

const WORDS: [&str; 10] = ["btc", "eth", "usdt", "usd", "xbt", "sol", "a", "ab", "b", "perp"];
const SEPS: [&str; 5] = ["_", "-", "/", "", "."];
/// ASCII characters that need care somewhere (token escaping, JSON escaping, case mapping edges)
const ODD: [char; 14] = [
    ' ', '"', '\\', '\n', '\t', '\u{8}', '\u{c}', '\u{1f}', '\u{7f}', '@', '[', '`', '{', '\'',
];
/// non-ASCII characters inside the blocks the model's case tables cover (no capital sigma)
const UNI: [char; 20] = [
    'À', 'É', 'Þ', '×', 'ß', 'é', 'ÿ', '÷', 'ª', 'µ', 'Α', 'Ω', 'α', 'ω', 'ς', 'Ѐ', 'Я', 'я', 'џ',
    'İ',
];
/// uncased characters outside those blocks
const UNCASED: [char; 5] = ['中', '文', '€', '😀', '١'];

fn recase(rng: &mut Rng, w: &str) -> String {
    match rng.below(5) {
        0 => w.to_string(),
        1 => w.to_ascii_uppercase(),
        2 => {
            let mut c = w.chars();
            match c.next() {
                Some(f) => f.to_ascii_uppercase().to_string() + c.as_str(),
                None => String::new(),
            }
        }
        _ => w
            .chars()
            .map(|c| if rng.chance(50) { c.to_ascii_uppercase() } else { c })
            .collect(),
    }
}

fn gen_ascii(rng: &mut Rng) -> String {
    if rng.chance(3) {
        return String::new();
    }
    let w0: &str = *rng.pick(&WORDS);
    let mut s = recase(rng, w0);
    if rng.chance(45) {
        let sep: &str = *rng.pick(&SEPS);
        s.push_str(sep);
        let w1: &str = *rng.pick(&WORDS);
        let w = recase(rng, w1);
        s.push_str(&w);
    }
    if rng.chance(15) {
        s.push_str(&rng.below(100).to_string());
    }
    if rng.chance(6) {
        let pos = rng.below(s.chars().count() as u64 + 1) as usize;
        let mut v: Vec<char> = s.chars().collect();
        v.insert(pos, *rng.pick(&ODD));
        s = v.into_iter().collect();
    }
    s
}

/// non-ASCII probe string; `sigma` allows a capital sigma (only where the result stays within the
/// 23 bytes up to which smol_str lower-cases character by character)
fn gen_uni(rng: &mut Rng, sigma: bool) -> String {
    let mut v: Vec<char> = gen_ascii(rng).chars().take(6).collect();
    for _ in 0..rng.range(1, 3) {
        let c = if rng.chance(75) { *rng.pick(&UNI) } else { *rng.pick(&UNCASED) };
        let pos = rng.below(v.len() as u64 + 1) as usize;
        v.insert(pos, c);
    }
    if sigma && rng.chance(40) {
        let pos = rng.below(v.len() as u64 + 1) as usize;
        v.insert(pos, 'Σ');
    }
    let mut s: String = v.into_iter().collect();
    while s.len() > 20 {
        s.pop();
    }
    s
}

fn gen_str(rng: &mut Rng, uni: bool, sigma: bool) -> String {
    if uni && rng.chance(60) { gen_uni(rng, sigma) } else { gen_ascii(rng) }
}

const EXPIRIES: [u64; 12] = [
    0,
    86_399_999,
    86_400_000,
    951_782_400_000,
    951_868_800_000,
    1_703_980_800_000,
    1_709_164_800_000,
    1_709_251_199_999,
    1_709_251_200_000,
    4_102_444_800_000,
    4_107_542_400_000,
    253_402_300_799_999,
];

fn gen_expiry(rng: &mut Rng) -> u64 {
    if rng.chance(50) { *rng.pick(&EXPIRIES) } else { rng.below(4_200_000_000_000) }
}

fn gen_mdkind(rng: &mut Rng) -> String {
    match rng.below(4) {
        0 => "s".into(),
        1 => "p".into(),
        2 => format!("f {}", gen_expiry(rng)),
        _ => {
            let mant: i64 = match rng.below(6) {
                0 => 0,
                1 => 5,
                2 => -5,
                3 => 50000,
                4 => rng.range(-1_000_000, 1_000_000),
                _ => rng.range(0, 9_999_999_999),
            };
            format!(
                "o {} {} {} {} {}",
                rng.below(2),
                rng.below(3),
                gen_expiry(rng),
                mant,
                rng.below(9)
            )
        }
    }
}

/// exchanges of a case: a few, drawn from the whole enum
fn gen_exchanges(rng: &mut Rng) -> Vec<usize> {
    let n = rng.range(1, 4) as usize;
    (0..n).map(|_| rng.below(ALL.len() as u64) as usize).collect()
}

fn names_case(out: &mut Out, rng: &mut Rng, uni: bool, len: usize) {
    let exs = gen_exchanges(rng);
    // a small pool so that the same strings meet again (equality, order, idempotence)
    let pool: Vec<String> = (0..4).map(|_| gen_str(rng, uni, true)).collect();
    let pool_nosigma: Vec<String> = (0..4).map(|_| gen_str(rng, uni, false)).collect();
    for _ in 0..len {
        let s = |rng: &mut Rng| enc_s(rng.pick(&pool[..]).as_str());
        let t = |rng: &mut Rng| enc_s(rng.pick(&pool_nosigma[..]).as_str());
        let e = *rng.pick(&exs);
        match rng.below(16) {
            0 => out.line(format!("ani {}", s(rng))),
            1 => out.line(format!("ane {}", s(rng))),
            2 => out.line(format!("ini {}", s(rng))),
            3 => out.line(format!("ine {}", s(rng))),
            4 => out.line(format!("nfe {e} {}", t(rng))),
            5 => out.line(format!("nfu {e} {} {}", t(rng), t(rng))),
            6 => out.line(format!("eqci {} {}", s(rng), s(rng))),
            7 => {
                // the same word in two casings: the interesting equality
                let w = rng.pick(&pool).clone();
                out.line(format!("eqci {} {}", enc_s(&w), enc_s(&recase(rng, &w))));
            }
            8 => out.line(format!("cmp {} {}", s(rng), s(rng))),
            9 => out.line(format!("asset {} {}", s(rng), s(rng))),
            10 => out.line(format!("assetx {}", s(rng))),
            11 => out.line(format!("idx {}", rng.pick(&[0u64, 1, 9, 10, 41, 12345, 18446744073709551615]))),
            12 => out.line(format!("keyed {} {}", rng.below(50), s(rng))),
            13 => {
                if rng.chance(30) {
                    out.line(format!("side {}", rng.pick(&["b", "s"])));
                } else {
                    let w = *rng.pick(&["Buy", "buy", "BUY", "b", "B", "Sell", "sell", "SELL", "s", "S", "bUY", "", "sel"]);
                    out.line(format!("sidede {}", enc_s(w)));
                }
            }
            14 => {
                let w = match rng.below(6) {
                    0 => ALL[e].as_str().to_string(),
                    1 => format!("{:?}", ALL[e]),
                    2 => ALL[e].as_str().to_uppercase(),
                    3 => "huobi".to_string(),
                    4 => ALL[e].as_str().replace('_', ""),
                    _ => rng.pick(&pool).clone(),
                };
                out.line(format!("exde {}", enc_s(&w)));
            }
            _ => out.line(format!("md {} {} {}", s(rng), s(rng), gen_mdkind(rng))),
        }
    }
}

fn table_case(out: &mut Out) {
    out.line("exall");
    for (k, e) in ALL.iter().enumerate() {
        out.line(format!("exch {k}"));
        out.line(format!("exde {}", enc_s(e.as_str())));
        out.line(format!("exde {}", enc_s(&format!("{e:?}"))));
        out.line(format!("nfe {k} 'Btc_Usdt"));
        out.line(format!("nfu {k} 'Btc 'Usdt"));
    }
    for w in ["huobi", "Huobi", "HTX", "", "binance", "binance_spot ", "execution"] {
        out.line(format!("exde {}", enc_s(w)));
    }
}

#[derive(Clone)]
struct GA(String, String);

fn ga(a: &GA) -> String {
    format!("{} {}", enc_s(&a.0), enc_s(&a.1))
}

/// `def` / `spot` op text for one random definition
fn gen_def(rng: &mut Rng, exs: &[usize], assets: &[GA], inames: &[String], uni: bool) -> String {
    gen_def_w(rng, exs, assets, inames, uni, false)
}

/// decimals of the `big` family: zero, small, multi-digit (9 / 10 / 100: numeric order is not the
/// order of the digit strings), the largest magnitudes a real specification carries
const VALS: [u64; 9] = [0, 1, 2, 5, 9, 10, 100, 999_999_999_999, 1_000_000_000_000];

/// `wide`: every decimal from `VALS` (otherwise the draws of the original generator, unchanged)
fn gen_def_w(rng: &mut Rng, exs: &[usize], assets: &[GA], inames: &[String], uni: bool, wide: bool) -> String {
    let val = |rng: &mut Rng, lo: i64, hi: i64| -> u64 {
        if wide { *rng.pick(&VALS) } else { rng.range(lo, hi) as u64 }
    };
    let e = *rng.pick(exs);
    let pick_asset = |rng: &mut Rng| {
        let a = rng.pick(assets).clone();
        // the same asset written in another case (internal names are normalised by the constructor)
        GA(recase(rng, &a.0), a.1)
    };
    let ni = if uni && rng.chance(50) {
        gen_uni(rng, false)
    } else {
        let w = rng.pick(inames).clone();
        recase(rng, &w)
    };
    let ne = if rng.chance(70) { ni.to_ascii_uppercase().replace('_', "") } else { gen_ascii(rng) };
    let (base, quote) = (pick_asset(rng), pick_asset(rng));
    let spec = if rng.chance(55) {
        "n".to_string()
    } else {
        let unit = match rng.below(3) {
            0 => format!("a {}", ga(&pick_asset(rng))),
            1 => "c".into(),
            _ => "q".into(),
        };
        format!(
            "y {} {} {unit} {} {} {}",
            val(rng, 0, 2),
            val(rng, 0, 2),
            val(rng, 0, 2),
            val(rng, 0, 2),
            val(rng, 0, 2)
        )
    };
    if rng.chance(15) {
        return format!("spot {e} {} {} {} {} {spec}", enc_s(&ni), enc_s(&ne), ga(&base), ga(&quote));
    }
    let kind = match rng.below(6) {
        0 | 1 | 2 => "s".to_string(),
        3 => format!("p {} {}", val(rng, 1, 3), ga(&pick_asset(rng))),
        4 => format!("f {} {} {}", val(rng, 1, 3), ga(&pick_asset(rng)), gen_expiry(rng)),
        _ => format!(
            "o {} {} {} {} {} {}",
            val(rng, 1, 3),
            ga(&pick_asset(rng)),
            rng.below(2),
            rng.below(3),
            gen_expiry(rng),
            if wide { *rng.pick(&VALS) } else { *rng.pick(&[0u64, 1, 50000, 123456]) }
        ),
    };
    format!(
        "def {e} {} {} {} {} {} {kind} {spec}",
        enc_s(&ni),
        enc_s(&ne),
        ga(&base),
        ga(&quote),
        rng.below(2)
    )
}

fn lookups(out: &mut Out, rng: &mut Rng, exs: &[usize], assets: &[GA], inames: &[String], n_defs: usize, count: usize) {
    for _ in 0..count {
        // an exchange of the case, or (20 %) any exchange of the enum
        let e = if rng.chance(80) { *rng.pick(exs) } else { rng.below(ALL.len() as u64) as usize };
        match rng.below(6) {
            0 => out.line(format!("fxi {e}")),
            1 => out.line(format!("fx {}", rng.below(exs.len() as u64 + 2))),
            2 => {
                let name = if rng.chance(85) {
                    let w = rng.pick(assets).0.clone();
                    recase(rng, &w)
                } else {
                    gen_ascii(rng)
                };
                out.line(format!("fai {e} {}", enc_s(&name)));
            }
            3 => out.line(format!("fa {}", rng.below(4 * n_defs as u64 + 2))),
            4 => {
                let name = if rng.chance(85) {
                    let w = rng.pick(inames).clone();
                    recase(rng, &w)
                } else {
                    gen_ascii(rng)
                };
                out.line(format!("fii {e} {}", enc_s(&name)));
            }
            _ => out.line(format!("fi {}", rng.below(n_defs as u64 + 2))),
        }
    }
}

fn index_case(out: &mut Out, rng: &mut Rng, big: bool) {
    let uni = rng.chance(6);
    let exs = gen_exchanges(rng);
    // few asset names, shared between exchanges; 12 %: one internal name with two exchange names
    // (the well-formedness hypothesis of C11 violated on purpose)
    let mut assets: Vec<GA> = ["btc", "eth", "usdt", "usd"]
        .iter()
        .take(rng.range(2, 4) as usize)
        .map(|w| GA(w.to_string(), w.to_uppercase()))
        .collect();
    if rng.chance(12) {
        assets.push(GA("btc".into(), "XBT".into()));
    }
    if uni {
        assets.push(GA(gen_uni(rng, false), "U".into()));
    }
    // few instrument names: different definitions under one (exchange, name) are wanted
    let inames: Vec<String> = ["btc_usdt", "eth_usdt", "btc-perp", "x"]
        .iter()
        .take(rng.range(2, 4) as usize)
        .map(|s| s.to_string())
        .collect();
    let n_defs = rng.range(0, if big { 10 } else { 6 }) as usize;
    let mut defs: Vec<String> = vec![];
    for _ in 0..n_defs {
        let d = if !defs.is_empty() && rng.chance(20) {
            rng.pick(&defs).clone() // verbatim repeat
        } else {
            gen_def(rng, &exs, &assets, &inames, uni)
        };
        out.line(&d);
        defs.push(d);
    }
    if rng.chance(3) {
        out.line(format!("def {} '{} 'N 'a 'A 'b 'B 1 s n", exs[0], "n".repeat(MAXLEN + 1)));
    }
    if rng.chance(4) {
        lookups(out, rng, &exs, &assets, &inames, n_defs, 2); // before `build`
    }
    for _ in 0..rng.range(0, 2) {
        if rng.chance(50) {
            out.line(format!("mek {} {}", rng.below(n_defs as u64 + 1), rng.pick(&exs)));
        } else {
            let mut miss = vec![];
            for a in &assets {
                if rng.chance(30) {
                    miss.push(enc_s(&recase(rng, &a.0)));
                }
            }
            out.line(format!("mak {} {}", rng.below(n_defs as u64 + 1), miss.join(" ")).trim_end());
        }
    }
    out.line("build");
    let count = rng.range(4, if big { 16 } else { 10 }) as usize;
    lookups(out, rng, &exs, &assets, &inames, n_defs, count);
}

/// Input-domain family `b`: a LARGE collection (`n_defs` definitions over 3-8 exchanges of the whole
/// enum, 8-24 assets, a pool of instrument names about a third the size of the collection so that
/// definitions share (exchange, name)), decimals from `VALS`, then lookups by every kind of key with
/// the positional ones concentrated at the far end of the tables (last entry, one past, far past).
fn index_case_big(out: &mut Out, rng: &mut Rng, n_defs: usize) {
    let n_ex = rng.range(3, 8) as usize;
    let mut all: Vec<usize> = (0..ALL.len()).collect();
    for i in (1..all.len()).rev() {
        let j = rng.below(i as u64 + 1) as usize;
        all.swap(i, j);
    }
    let mut exs: Vec<usize> = all.into_iter().take(n_ex).collect();
    if rng.chance(30) {
        // the first and the last variant of the enum in one collection
        exs[0] = 0;
        exs[1] = ALL.len() - 1;
    }
    let words = ["btc", "eth", "usdt", "usd", "xbt", "sol", "ada", "dot", "ltc", "xrp", "bnb", "eur"];
    let n_assets = rng.range(8, 24) as usize;
    let mut assets: Vec<GA> = (0..n_assets)
        .map(|k| {
            let w = if k < words.len() { words[k].to_string() } else { format!("{}{}", words[k % words.len()], k / words.len()) };
            // exchange names: upper-cased, or (25 %) one of a few shared tickers: two internal names
            // of one exchange may carry the same exchange name
            let x = if rng.chance(25) { format!("T{}", rng.below(3)) } else { w.to_uppercase() };
            GA(w, x)
        })
        .collect();
    if rng.chance(12) {
        assets.push(GA("btc".into(), "XBT".into()));
    }
    let n_names = (n_defs / 3).max(4);
    let inames: Vec<String> = (0..n_names)
        .map(|k| match k % 3 {
            0 => format!("{}_{}", words[k % words.len()], words[(k / 3) % words.len()]),
            1 => format!("{}-perp{}", words[k % words.len()], k),
            _ => format!("i{k}"),
        })
        .collect();
    let mut defs: Vec<String> = vec![];
    for _ in 0..n_defs {
        let d = if !defs.is_empty() && rng.chance(15) {
            rng.pick(&defs).clone() // verbatim repeat
        } else {
            gen_def_w(rng, &exs, &assets, &inames, false, true)
        };
        out.line(&d);
        defs.push(d);
    }
    if rng.chance(50) {
        let mut miss = vec![];
        for a in &assets {
            if rng.chance(10) {
                miss.push(enc_s(&recase(rng, &a.0)));
            }
        }
        out.line(format!("mak {} {}", rng.below(n_defs as u64 + 1), miss.join(" ")).trim_end());
    }
    out.line("build");
    lookups(out, rng, &exs, &assets, &inames, n_defs, 16);
    // the far end of the three tables: the sizes are not known to the generator, so sweep down
    // from the largest possible size
    for k in [n_ex, n_ex - 1, n_ex + 1, 255, 256, 65535, 65536] {
        out.line(format!("fx {k}"));
    }
    for _ in 0..12 {
        out.line(format!("fa {}", rng.below((n_ex * (n_assets + 1)) as u64 + 2)));
        out.line(format!("fi {}", (n_defs + 1).saturating_sub(rng.below(n_defs as u64 / 2 + 2) as usize)));
    }
    for k in [255usize, 256, 257, 65535, 65536, 4294967295, 4294967296] {
        out.line(format!("fa {k}"));
        out.line(format!("fi {k}"));
    }
}

fn generate(seed: u64, n_cases: usize, tier: &str) {
    let mut out = Out::new();
    let mut rng = Rng::new(seed);
    let thorough = tier == "thorough";
    let mut id = 0usize;
    // always: the whole ExchangeId table
    out.case("t0");
    table_case(&mut out);
    if thorough {
        // (1) every string of length <= 3 over {a, B, _}: constructors, and every pair for equality / order
        let alphabet = ['a', 'B', '_'];
        let mut strings: Vec<String> = vec![String::new()];
        let mut frontier = vec![String::new()];
        for _ in 0..3 {
            let mut next = vec![];
            for s in &frontier {
                for c in alphabet {
                    next.push(format!("{s}{c}"));
                }
            }
            strings.extend(next.iter().cloned());
            frontier = next;
        }
        for (k, s) in strings.iter().enumerate() {
            out.case(format!("xs{k}"));
            out.line(format!("ani {}", enc_s(s)));
            out.line(format!("ini {}", enc_s(s)));
            out.line(format!("ane {}", enc_s(s)));
            for t in &strings {
                out.line(format!("eqci {} {}", enc_s(s), enc_s(t)));
                out.line(format!("cmp {} {}", enc_s(s), enc_s(t)));
            }
        }
        // (2) every sequence of 1..3 definitions from a pool of four that collide in every way
        // (same exchange + name with other fields different, same asset in two casings, same
        // internal asset name with two exchange names), followed by a full lookup sweep
        let pool = [
            "def 7 'btc_usdt 'BTCUSDT 'btc 'BTC 'usdt 'USDT 1 s n",
            "def 7 'BTC_USDT 'XBTUSDT 'BTC 'XBT 'usdt 'USDT 1 s n",
            "def 10 'btc_usdt 'BTCUSDT 'btc 'BTC 'usdt 'USDT 0 p 1 'usdt 'USDT y 1 1 a 'Btc 'BTC 1 1 1",
            "spot 7 'eth_usdt 'ETHUSDT 'ETH 'ETH 'usdt 'USDT n",
        ];
        let sweep = |out: &mut Out| {
            out.line("build");
            for e in [7, 10, 23] {
                out.line(format!("fxi {e}"));
                for n in ["btc", "BTC", "eth", "usdt", "xbt"] {
                    out.line(format!("fai {e} '{n}"));
                }
                for n in ["btc_usdt", "BTC_USDT", "eth_usdt", "nope"] {
                    out.line(format!("fii {e} '{n}"));
                }
            }
            for k in 0..3 {
                out.line(format!("fx {k}"));
            }
            for k in 0..7 {
                out.line(format!("fa {k}"));
            }
            for k in 0..4 {
                out.line(format!("fi {k}"));
            }
        };
        for a in 0..4 {
            out.case(format!("xd{a}"));
            out.line(pool[a]);
            sweep(&mut out);
            for b in 0..4 {
                out.case(format!("xd{a}{b}"));
                out.line(pool[a]);
                out.line(pool[b]);
                sweep(&mut out);
                for c in 0..4 {
                    out.case(format!("xd{a}{b}{c}"));
                    out.line(pool[a]);
                    out.line(pool[b]);
                    out.line(pool[c]);
                    sweep(&mut out);
                }
            }
        }
        out.case("xd");
        sweep(&mut out);
    }
    for _ in 0..n_cases {
        id += 1;
        out.case(format!("r{id}"));
        match rng.below(10) {
            0 | 1 | 2 => names_case(&mut out, &mut rng, false, if thorough { 24 } else { 12 }),
            3 => names_case(&mut out, &mut rng, true, if thorough { 24 } else { 12 }),
            _ => index_case(&mut out, &mut rng, thorough),
        }
    }
    // input-domain family, separately seeded: large collections (n / 80 cases of 50-130 definitions;
    // every fifth one, the third first, 260-320 definitions: positions past u8)
    let mut rng = Rng::new(seed ^ 0x11d0_d0a2);
    for k in 0..n_cases / 80 {
        out.case(format!("b{}", k + 1));
        let n = if k % 5 == 2 { rng.range(260, 320) } else { rng.range(50, 130) } as usize;
        index_case_big(&mut out, &mut rng, n);
    }
    out.flush();
}

fn main() {
    let a = args();
    match a.cmd.as_str() {
        "gen" => generate(a.seed, a.n, &a.tier),
        "run" => run(),
        _ => {
            eprintln!("usage: c11n gen <seed> <n> <tier> | run < cases");
            std::process::exit(2)
        }
    }
}
