//! C13Q — subscription requests (sub-check of C13). Drives, in-process, for every connector of
//! `barter-data/src/exchange/*`: the real `WebSocketSubMapper::map` (the part of `WebSocketSubscriber::subscribe`
//! before the socket is touched: `ExchangeSub::new`, `ExchangeSub::id`, the instrument map, `Connector::requests`),
//! `Connector::requests` on arbitrary `ExchangeSub`s, `Connector::expected_responses`, `Connector::url`, the URL
//! constants, `Connector::ping_interval` (+ the ping payload), `Connector::subscription_timeout`, `Connector::ID`.
//!
//! Every request frame is parsed with `serde_json::Value` and decoded the way the venue's documented grammar reads
//! it (verb + list of `(channel, market)` topics; the object's key set is checked), and its raw text is printed too
//! (Gateio's `time` value, `Utc::now()`, is checked to be a plausible epoch-millisecond number and replaced by `NOW`).
//!
//! How connectors are enumerated: `CONNECTORS` lists the 15 `ExchangeId`s that have a `Connector` (5 plain
//! `impl Connector for X` + 10 `impl ExchangeServer for S` instantiating the 3 generic ones); `dispatch!` maps each
//! name to its Rust type; the `census` op re-counts the `impl` lines in the source tree under test so that a
//! connector added later shows up as a correspondence break instead of silently staying outside the model.
//!
//! Ops: see `lean/BarterModel/Driver/C13Q.lean`.
use barter_data::{
    Identifier,
    exchange::{
        Connector, ExchangeServer,
        binance::{
            Binance,
            channel::BinanceChannel,
            futures::{BinanceFuturesUsd, WEBSOCKET_BASE_URL_BINANCE_FUTURES_USD},
            market::BinanceMarket,
            spot::{BinanceSpot, WEBSOCKET_BASE_URL_BINANCE_SPOT},
        },
        bitfinex::{BASE_URL_BITFINEX, Bitfinex, channel::BitfinexChannel, market::BitfinexMarket},
        bitmex::{BASE_URL_BITMEX, Bitmex, channel::BitmexChannel, market::BitmexMarket},
        bybit::{
            Bybit,
            channel::BybitChannel,
            futures::{BybitPerpetualsUsd, WEBSOCKET_BASE_URL_BYBIT_PERPETUALS_USD},
            market::BybitMarket,
            spot::{BybitSpot, WEBSOCKET_BASE_URL_BYBIT_SPOT},
        },
        coinbase::{BASE_URL_COINBASE, Coinbase, channel::CoinbaseChannel, market::CoinbaseMarket},
        gateio::{
            Gateio,
            channel::GateioChannel,
            future::{
                GateioFuturesBtc, GateioFuturesUsd, WEBSOCKET_BASE_URL_GATEIO_FUTURES_BTC,
                WEBSOCKET_BASE_URL_GATEIO_FUTURES_USD,
            },
            market::GateioMarket,
            option::{GateioOptions, WEBSOCKET_BASE_URL_GATEIO_OPTIONS_USD},
            perpetual::{
                GateioPerpetualsBtc, GateioPerpetualsUsd, WEBSOCKET_BASE_URL_GATEIO_PERPETUALS_BTC,
                WEBSOCKET_BASE_URL_GATEIO_PERPETUALS_USD,
            },
            spot::{GateioSpot, WEBSOCKET_BASE_URL_GATEIO_SPOT},
        },
        kraken::{BASE_URL_KRAKEN, Kraken, channel::KrakenChannel, market::KrakenMarket},
        okx::{BASE_URL_OKX, Okx, channel::OkxChannel, market::OkxMarket},
        subscription::ExchangeSub,
    },
    subscriber::mapper::{SubscriptionMapper, WebSocketSubMapper},
    subscription::{
        Map, Subscription, SubscriptionKind, SubscriptionMeta,
        book::{OrderBooksL1, OrderBooksL2},
        liquidation::Liquidations,
        trade::PublicTrades,
    },
};
use barter_instrument::{
    Keyed,
    instrument::{
        kind::option::{OptionExercise, OptionKind},
        market_data::{
            MarketDataInstrument,
            kind::{MarketDataFutureContract, MarketDataInstrumentKind, MarketDataOptionContract},
        },
    },
};
use barter_integration::{protocol::websocket::WsMessage, subscription::SubscriptionId};
use chrono::{DateTime, NaiveDate, TimeZone, Utc};
use rust_decimal::Decimal;
use serde_json::Value;
use smol_str::SmolStr;
use vh::*;

type Inst = Keyed<usize, MarketDataInstrument>;

// ------------------------------------------------------------------------------------------ connectors

/// the 15 connectors (`ExchangeId::as_str()` names), and which `impl Connector` each instantiates
const CONNECTORS: [(&str, &str); 15] = [
    ("binance_spot", "binance"),
    ("binance_futures_usd", "binance"),
    ("bitfinex", "bitfinex"),
    ("bitmex", "bitmex"),
    ("bybit_spot", "bybit"),
    ("bybit_perpetuals_usd", "bybit"),
    ("coinbase", "coinbase"),
    ("gateio_spot", "gateio"),
    ("gateio_futures_usd", "gateio"),
    ("gateio_futures_btc", "gateio"),
    ("gateio_perpetuals_usd", "gateio"),
    ("gateio_perpetuals_btc", "gateio"),
    ("gateio_options", "gateio"),
    ("kraken", "kraken"),
    ("okx", "okx"),
];

fn family(ex: &str) -> &'static str {
    CONNECTORS.iter().find(|(n, _)| *n == ex).map(|(_, f)| *f).unwrap_or_else(|| panic!("unknown connector {ex}"))
}

/// `$f::<ConnectorType>($args)` for the connector named `$ex`
macro_rules! dispatch {
    ($ex:expr, $f:ident, $($args:expr),*) => {
        match $ex {
            "binance_spot" => $f::<BinanceSpot>($($args),*),
            "binance_futures_usd" => $f::<BinanceFuturesUsd>($($args),*),
            "bitfinex" => $f::<Bitfinex>($($args),*),
            "bitmex" => $f::<Bitmex>($($args),*),
            "bybit_spot" => $f::<BybitSpot>($($args),*),
            "bybit_perpetuals_usd" => $f::<BybitPerpetualsUsd>($($args),*),
            "coinbase" => $f::<Coinbase>($($args),*),
            "gateio_spot" => $f::<GateioSpot>($($args),*),
            "gateio_futures_usd" => $f::<GateioFuturesUsd>($($args),*),
            "gateio_futures_btc" => $f::<GateioFuturesBtc>($($args),*),
            "gateio_perpetuals_usd" => $f::<GateioPerpetualsUsd>($($args),*),
            "gateio_perpetuals_btc" => $f::<GateioPerpetualsBtc>($($args),*),
            "gateio_options" => $f::<GateioOptions>($($args),*),
            "kraken" => $f::<Kraken>($($args),*),
            "okx" => $f::<Okx>($($args),*),
            other => panic!("unknown connector {other}"),
        }
    };
}

/// the URL constant behind each connector (`ExchangeServer::websocket_url()` is called separately)
fn url_const(ex: &str) -> &'static str {
    match ex {
        "binance_spot" => WEBSOCKET_BASE_URL_BINANCE_SPOT,
        "binance_futures_usd" => WEBSOCKET_BASE_URL_BINANCE_FUTURES_USD,
        "bitfinex" => BASE_URL_BITFINEX,
        "bitmex" => BASE_URL_BITMEX,
        "bybit_spot" => WEBSOCKET_BASE_URL_BYBIT_SPOT,
        "bybit_perpetuals_usd" => WEBSOCKET_BASE_URL_BYBIT_PERPETUALS_USD,
        "coinbase" => BASE_URL_COINBASE,
        "gateio_spot" => WEBSOCKET_BASE_URL_GATEIO_SPOT,
        "gateio_futures_usd" => WEBSOCKET_BASE_URL_GATEIO_FUTURES_USD,
        "gateio_futures_btc" => WEBSOCKET_BASE_URL_GATEIO_FUTURES_BTC,
        "gateio_perpetuals_usd" => WEBSOCKET_BASE_URL_GATEIO_PERPETUALS_USD,
        "gateio_perpetuals_btc" => WEBSOCKET_BASE_URL_GATEIO_PERPETUALS_BTC,
        "gateio_options" => WEBSOCKET_BASE_URL_GATEIO_OPTIONS_USD,
        "kraken" => BASE_URL_KRAKEN,
        "okx" => BASE_URL_OKX,
        other => panic!("unknown connector {other}"),
    }
}

/// building `ExchangeSub`s from arbitrary channel / market text (the channel types hold `&'static str`)
trait MkSub: Connector {
    fn mk(c: &str, m: &str) -> ExchangeSub<Self::Channel, Self::Market>;
}

fn leak(s: &str) -> &'static str {
    Box::leak(s.to_string().into_boxed_str())
}

macro_rules! mk_sub {
    ($ty:ty, $chan:ident, $mkt:ident $(, $g:ident)?) => {
        impl$(<$g: ExchangeServer>)? MkSub for $ty {
            fn mk(c: &str, m: &str) -> ExchangeSub<Self::Channel, Self::Market> {
                ExchangeSub::from(($chan(leak(c)), $mkt(SmolStr::new(m))))
            }
        }
    };
}
mk_sub!(Binance<S>, BinanceChannel, BinanceMarket, S);
mk_sub!(Bybit<S>, BybitChannel, BybitMarket, S);
mk_sub!(Gateio<S>, GateioChannel, GateioMarket, S);
mk_sub!(Bitfinex, BitfinexChannel, BitfinexMarket);
mk_sub!(Bitmex, BitmexChannel, BitmexMarket);
mk_sub!(Coinbase, CoinbaseChannel, CoinbaseMarket);
mk_sub!(Kraken, KrakenChannel, KrakenMarket);
mk_sub!(Okx, OkxChannel, OkxMarket);

// ------------------------------------------------------------------------------------------ parsing ops

fn parse_date(s: &str) -> Option<DateTime<Utc>> {
    if s.len() != 8 {
        return None;
    }
    let y: i32 = s[0..4].parse().ok()?;
    let m: u32 = s[4..6].parse().ok()?;
    let d: u32 = s[6..8].parse().ok()?;
    if !(1000..=9999).contains(&y) {
        return None;
    }
    let nd = NaiveDate::from_ymd_opt(y, m, d)?;
    Some(Utc.from_utc_datetime(&nd.and_hms_opt(8, 0, 0)?))
}

fn parse_inst(tok: &str) -> Option<MarketDataInstrument> {
    let f: Vec<&str> = tok.split(':').collect();
    let kind = match f.as_slice() {
        [_, _, "S"] => MarketDataInstrumentKind::Spot,
        [_, _, "P"] => MarketDataInstrumentKind::Perpetual,
        [_, _, x] if x.starts_with('F') => {
            MarketDataInstrumentKind::Future(MarketDataFutureContract { expiry: parse_date(&x[1..])? })
        }
        [_, _, x, k, c] if x.starts_with('O') => MarketDataInstrumentKind::Option(MarketDataOptionContract {
            kind: match *c {
                "C" => OptionKind::Call,
                "P" => OptionKind::Put,
                _ => return None,
            },
            exercise: OptionExercise::European,
            expiry: parse_date(&x[1..])?,
            strike: Decimal::from(k.parse::<u64>().ok()?),
        }),
        _ => return None,
    };
    Some(MarketDataInstrument::new(f[0], f[1], kind))
}

// ------------------------------------------------------------------------------------------ venue-side reading

fn keys_are(v: &Value, keys: &[&str]) -> bool {
    match v.as_object() {
        Some(o) => o.len() == keys.len() && keys.iter().all(|k| o.contains_key(*k)),
        None => false,
    }
}

fn strings(v: &Value) -> Option<Vec<String>> {
    v.as_array()?.iter().map(|x| x.as_str().map(|s| s.to_string())).collect()
}

/// (verb, topics) of one frame as the venue's documented grammar reads it; `None` = not the documented shape
fn read_frame(fam: &str, v: &Value) -> Option<(String, Vec<(String, String)>)> {
    let s = |k: &str| v.get(k).and_then(|x| x.as_str()).map(|x| x.to_string());
    let split_first = |t: &str, sep: char| -> (String, String) {
        match t.find(sep) {
            Some(i) => (t[..i].to_string(), t[i + sep.len_utf8()..].to_string()),
            None => (t.to_string(), String::new()),
        }
    };
    Some(match fam {
        "binance" => {
            if !keys_are(v, &["id", "method", "params"]) || v["id"].as_u64() != Some(1) {
                return None;
            }
            // stream name `<symbol>@<streamName>`: the channel keeps its leading `@`
            let topics = strings(&v["params"])?
                .iter()
                .map(|t| match t.find('@') {
                    Some(i) => (t[i..].to_string(), t[..i].to_string()),
                    None => (String::new(), t.clone()),
                })
                .collect();
            (s("method")?, topics)
        }
        "bitfinex" => {
            if !keys_are(v, &["channel", "event", "symbol"]) {
                return None;
            }
            (s("event")?, vec![(s("channel")?, s("symbol")?)])
        }
        "bitmex" | "bybit" => {
            if !keys_are(v, &["args", "op"]) {
                return None;
            }
            let sep = if fam == "bitmex" { ':' } else { '.' };
            (s("op")?, strings(&v["args"])?.iter().map(|t| split_first(t, sep)).collect())
        }
        "coinbase" => {
            if !keys_are(v, &["channels", "product_ids", "type"]) {
                return None;
            }
            let products = strings(&v["product_ids"])?;
            let mut topics = vec![];
            for c in strings(&v["channels"])? {
                for m in &products {
                    topics.push((c.clone(), m.clone()));
                }
            }
            (s("type")?, topics)
        }
        "gateio" => {
            if !keys_are(v, &["channel", "event", "payload", "time"]) {
                return None;
            }
            let c = s("channel")?;
            (s("event")?, strings(&v["payload"])?.into_iter().map(|m| (c.clone(), m)).collect())
        }
        "kraken" => {
            if !keys_are(v, &["event", "pair", "subscription"]) || !keys_are(&v["subscription"], &["name"]) {
                return None;
            }
            let name = v["subscription"]["name"].as_str()?.to_string();
            (s("event")?, strings(&v["pair"])?.into_iter().map(|m| (name.clone(), m)).collect())
        }
        "okx" => {
            if !keys_are(v, &["args", "op"]) {
                return None;
            }
            let mut topics = vec![];
            for a in v["args"].as_array()? {
                if !keys_are(a, &["channel", "instId"]) {
                    return None;
                }
                topics.push((a["channel"].as_str()?.to_string(), a["instId"].as_str()?.to_string()));
            }
            (s("op")?, topics)
        }
        _ => return None,
    })
}

fn emit_frames(fam: &str, frames: &[WsMessage], out: &mut Vec<String>) {
    out.push(format!("nframes {}", frames.len()));
    let mut raws = vec![];
    for (i, msg) in frames.iter().enumerate() {
        let text = match msg {
            WsMessage::Text(t) => t.as_str().to_string(),
            other => {
                out.push(format!("shape {i} non-text {}", format!("{other:?}").replace(' ', "_")));
                continue;
            }
        };
        let v: Value = match serde_json::from_str(&text) {
            Ok(v) => v,
            Err(_) => {
                out.push(format!("shape {i} not-json"));
                continue;
            }
        };
        match read_frame(fam, &v) {
            Some((verb, topics)) => {
                out.push(format!("frame {i} {verb} {}", topics.len()));
                for (j, (c, m)) in topics.iter().enumerate() {
                    out.push(format!("topic {i} {j} ={c} ={m}"));
                }
            }
            None => out.push(format!("shape {i} undocumented-shape")),
        }
        let mut raw = text.clone();
        if fam == "gateio" {
            // `time` is `Utc::now().timestamp_millis()`: check that it is one, then take it out of the comparison
            match v.get("time").and_then(|t| t.as_i64()) {
                Some(t) if (t - Utc::now().timestamp_millis()).abs() < 120_000 => {
                    let pat = format!("\"time\":{t}");
                    if let Some(pos) = raw.rfind(&pat) {
                        raw.replace_range(pos..pos + pat.len(), "\"time\":NOW");
                    }
                }
                other => out.push(format!("shape {i} time-not-now-ms {other:?}").replace("Some(", "").replace(')', "")),
            }
        }
        raws.push(format!("raw {i} {raw}"));
    }
    out.extend(raws);
}

fn fmt_map(map: &Map<usize>) -> String {
    let mut entries: Vec<(&SubscriptionId, &usize)> = map.0.iter().collect();
    entries.sort_by_key(|(_, k)| **k);
    let body = entries.iter().map(|(id, k)| format!("{k}={}", id.0)).collect::<Vec<_>>().join(" ");
    format!("map {body}").trim_end().to_string()
}

// ------------------------------------------------------------------------------------------ real code

/// `WebSocketSubMapper::map` = everything `WebSocketSubscriber::subscribe` computes before it sends
fn run_sub<E, K>(fam: &str, kind: K, insts: &[MarketDataInstrument], out: &mut Vec<String>)
where
    E: Connector,
    K: SubscriptionKind,
    Subscription<E, Inst, K>: Identifier<E::Channel> + Identifier<E::Market>,
{
    let subs: Vec<Subscription<E, Inst, K>> = insts
        .iter()
        .enumerate()
        .map(|(k, i)| Subscription::new(E::default(), Keyed::new(k, i.clone()), kind.clone()))
        .collect();
    let SubscriptionMeta { instrument_map, ws_subscriptions } = WebSocketSubMapper::map(&subs);
    emit_frames(fam, &ws_subscriptions, out);
    out.push(fmt_map(&instrument_map));
    out.push(format!("expected {}", E::expected_responses(&instrument_map)));
}

fn sub(ex: &str, kind: &str, insts: &[MarketDataInstrument], out: &mut Vec<String>) {
    let fam = family(ex);
    match (ex, kind) {
        ("binance_spot", "trades") => run_sub::<BinanceSpot, _>(fam, PublicTrades, insts, out),
        ("binance_spot", "l1") => run_sub::<BinanceSpot, _>(fam, OrderBooksL1, insts, out),
        ("binance_spot", "l2") => run_sub::<BinanceSpot, _>(fam, OrderBooksL2, insts, out),
        ("binance_futures_usd", "trades") => run_sub::<BinanceFuturesUsd, _>(fam, PublicTrades, insts, out),
        ("binance_futures_usd", "l1") => run_sub::<BinanceFuturesUsd, _>(fam, OrderBooksL1, insts, out),
        ("binance_futures_usd", "l2") => run_sub::<BinanceFuturesUsd, _>(fam, OrderBooksL2, insts, out),
        ("binance_futures_usd", "liqs") => run_sub::<BinanceFuturesUsd, _>(fam, Liquidations, insts, out),
        ("bitfinex", "trades") => run_sub::<Bitfinex, _>(fam, PublicTrades, insts, out),
        ("bitmex", "trades") => run_sub::<Bitmex, _>(fam, PublicTrades, insts, out),
        ("bybit_spot", "trades") => run_sub::<BybitSpot, _>(fam, PublicTrades, insts, out),
        ("bybit_perpetuals_usd", "trades") => run_sub::<BybitPerpetualsUsd, _>(fam, PublicTrades, insts, out),
        ("coinbase", "trades") => run_sub::<Coinbase, _>(fam, PublicTrades, insts, out),
        ("gateio_spot", "trades") => run_sub::<GateioSpot, _>(fam, PublicTrades, insts, out),
        ("gateio_futures_usd", "trades") => run_sub::<GateioFuturesUsd, _>(fam, PublicTrades, insts, out),
        ("gateio_futures_btc", "trades") => run_sub::<GateioFuturesBtc, _>(fam, PublicTrades, insts, out),
        ("gateio_perpetuals_usd", "trades") => run_sub::<GateioPerpetualsUsd, _>(fam, PublicTrades, insts, out),
        ("gateio_perpetuals_btc", "trades") => run_sub::<GateioPerpetualsBtc, _>(fam, PublicTrades, insts, out),
        ("gateio_options", "trades") => run_sub::<GateioOptions, _>(fam, PublicTrades, insts, out),
        ("kraken", "trades") => run_sub::<Kraken, _>(fam, PublicTrades, insts, out),
        ("kraken", "l1") => run_sub::<Kraken, _>(fam, OrderBooksL1, insts, out),
        ("okx", "trades") => run_sub::<Okx, _>(fam, PublicTrades, insts, out),
        other => panic!("unsupported pair {other:?}"),
    }
}

/// `Connector::requests` on arbitrary `ExchangeSub`s
fn run_req<E: MkSub>(fam: &str, subs: &[(String, String)], out: &mut Vec<String>) {
    let exchange_subs = subs.iter().map(|(c, m)| E::mk(c, m)).collect::<Vec<_>>();
    // `ExchangeSub::id` of what was handed in
    let ids = exchange_subs.iter().map(|s| format!("={}", s.id().0)).collect::<Vec<_>>().join(" ");
    emit_frames(fam, &E::requests(exchange_subs), out);
    out.push(format!("ids {ids}").trim_end().to_string());
}

fn run_exp<E: Connector>(n: usize, out: &mut Vec<String>) {
    let map: Map<usize> = Map((0..n).map(|k| (SubscriptionId::from(format!("c|m{k}")), k)).collect());
    out.push(format!("expected {}", E::expected_responses(&map)));
}

fn run_consts<E: Connector>(ex: &str, out: &mut Vec<String>) {
    out.push(format!("id {}", E::ID.as_str()));
    out.push(format!("url {}", url_const(ex)));
    match E::url() {
        Ok(url) => {
            out.push(format!("parsed {}", url.as_str()));
            out.push(format!("scheme {}", url.scheme()));
            out.push(format!("host {}", url.host_str().unwrap_or("none")));
            let venue = E::ID.as_str().split('_').next().unwrap_or("");
            out.push(format!("hostvenue {}", url.host_str().is_some_and(|h| h.contains(venue)) as u8));
        }
        Err(e) => out.push(format!("parsed error {}", format!("{e:?}").replace(' ', "_"))),
    }
    // `tokio::time::interval` needs a runtime context
    let rt = tokio::runtime::Builder::new_current_thread().enable_time().start_paused(true).build().unwrap();
    let _guard = rt.enter();
    match E::ping_interval() {
        None => out.push("ping none".into()),
        Some(p) => {
            let text = match (p.ping)() {
                WsMessage::Text(t) => t.as_str().to_string(),
                other => format!("non-text:{other:?}").replace(' ', "_"),
            };
            out.push(format!("ping {} {text}", p.interval.period().as_millis()));
        }
    }
    out.push(format!("timeout {}", E::subscription_timeout().as_millis()));
}

/// re-count the connectors in the source tree under test
fn census(out: &mut Vec<String>) {
    fn walk(dir: &std::path::Path, files: &mut Vec<std::path::PathBuf>) {
        if let Ok(rd) = std::fs::read_dir(dir) {
            for e in rd.flatten() {
                let p = e.path();
                if p.is_dir() {
                    walk(&p, files);
                } else if p.extension().is_some_and(|x| x == "rs") {
                    files.push(p);
                }
            }
        }
    }
    let repo = std::env::var("VERIF_REPO").unwrap_or_else(|_| "/repo".into());
    let mut files = vec![];
    walk(&std::path::Path::new(&repo).join("barter-data/src/exchange"), &mut files);
    let (mut impls, mut generic, mut servers) = (0usize, 0usize, 0usize);
    for f in files {
        for line in std::fs::read_to_string(&f).unwrap_or_default().lines() {
            if line.starts_with("impl") && line.contains(" Connector for ") {
                impls += 1;
                if line.starts_with("impl<") {
                    generic += 1;
                }
            }
            if line.starts_with("impl") && line.contains("ExchangeServer for ") {
                servers += 1;
            }
        }
    }
    out.push(format!("connectors {}", impls - generic + servers));
    out.push(format!("impls {impls}"));
    out.push(format!("servers {servers}"));
}

fn parse_str(t: &str) -> String {
    t.strip_prefix('=').unwrap_or_else(|| panic!("bad string token {t}")).to_string()
}

fn run() {
    run_cases(|case, lines| {
        for op in &case.ops {
            lines.push("@".into());
            match op[0].as_str() {
                "sub" if op.len() >= 3 => {
                    let insts: Vec<MarketDataInstrument> =
                        op[3..].iter().map(|t| parse_inst(t).unwrap_or_else(|| panic!("bad inst {t}"))).collect();
                    sub(&op[1], &op[2], &insts, lines);
                }
                "req" if op.len() >= 2 && op.len() % 2 == 0 => {
                    let subs: Vec<(String, String)> =
                        op[2..].chunks(2).map(|c| (parse_str(&c[0]), parse_str(&c[1]))).collect();
                    let fam = family(&op[1]);
                    dispatch!(op[1].as_str(), run_req, fam, &subs, lines);
                }
                "exp" if op.len() == 3 => {
                    let n: usize = op[2].parse().unwrap();
                    dispatch!(op[1].as_str(), run_exp, n, lines);
                }
                "consts" if op.len() == 2 => {
                    dispatch!(op[1].as_str(), run_consts, op[1].as_str(), lines);
                }
                "census" => census(lines),
                other => panic!("bad op {other}"),
            }
        }
    });
}

// ------------------------------------------------------------------------------------------ generator

const PAIRS: [(&str, &str); 21] = [
    ("binance_spot", "trades"),
    ("binance_spot", "l1"),
    ("binance_spot", "l2"),
    ("binance_futures_usd", "trades"),
    ("binance_futures_usd", "l1"),
    ("binance_futures_usd", "l2"),
    ("binance_futures_usd", "liqs"),
    ("bitfinex", "trades"),
    ("bitmex", "trades"),
    ("bybit_spot", "trades"),
    ("bybit_perpetuals_usd", "trades"),
    ("coinbase", "trades"),
    ("gateio_spot", "trades"),
    ("gateio_futures_usd", "trades"),
    ("gateio_futures_btc", "trades"),
    ("gateio_perpetuals_usd", "trades"),
    ("gateio_perpetuals_btc", "trades"),
    ("gateio_options", "trades"),
    ("kraken", "trades"),
    ("kraken", "l1"),
    ("okx", "trades"),
];

/// small pool: case variants, shared prefixes and concatenation collisions (`b`+`tcusd` = `bt`+`cusd`) occur
const ASSETS: [&str; 16] =
    ["btc", "BTC", "Btc", "eth", "usdt", "USDT", "usd", "xbt", "1inch", "a1", "b", "bt", "cusd", "tcusd", "C98", "e"];
const DATES: [&str; 5] = ["20251226", "20260327", "20270101", "20241230", "20300628"];

/// an instrument kind the dynamic builder accepts for the connector
fn gen_kind(rng: &mut Rng, ex: &str) -> String {
    let date = |rng: &mut Rng| *rng.pick(&DATES);
    let opt = |rng: &mut Rng| {
        let d = date(rng);
        format!("O{d}:{}:{}", rng.pick(&[1u64, 250, 30000]), rng.pick(&["C", "P"]))
    };
    match ex {
        "binance_futures_usd" | "bitmex" | "bybit_perpetuals_usd" | "gateio_perpetuals_usd" | "gateio_perpetuals_btc" => {
            "P".into()
        }
        "gateio_futures_usd" | "gateio_futures_btc" => format!("F{}", date(rng)),
        "gateio_options" => opt(rng),
        "okx" => match rng.below(4) {
            0 => "S".into(),
            1 => "P".into(),
            2 => format!("F{}", date(rng)),
            _ => opt(rng),
        },
        _ => "S".into(),
    }
}

fn gen_inst(rng: &mut Rng, ex: &str) -> String {
    let base = *rng.pick(&ASSETS);
    let mut quote = *rng.pick(&ASSETS);
    if quote.eq_ignore_ascii_case(base) {
        quote = "usdt";
    }
    format!("{base}:{quote}:{}", gen_kind(rng, ex))
}

/// channel / market text for `req`: the venue separators, quotes and backslashes, both cases
const CHARS: [&str; 24] = [
    "a", "B", "t", "T", "c", "u", "S", "d", "1", "9", "@", ".", ":", "|", "/", "-", "_", "\"", "\\", "x", "Z", "e", "@trade",
    "trade",
];

fn gen_text(rng: &mut Rng, allow_empty: bool) -> String {
    let n = rng.range(if allow_empty { 0 } else { 1 }, 5);
    (0..n).map(|_| *rng.pick(&CHARS)).collect()
}

fn real_channel(rng: &mut Rng, fam: &str) -> &'static str {
    match fam {
        "binance" => *rng.pick(&["@trade", "@bookTicker", "@depth@100ms", "@forceOrder"]),
        "bitfinex" | "okx" => "trades",
        "bitmex" => "trade",
        "bybit" => "publicTrade",
        "coinbase" => "matches",
        "gateio" => *rng.pick(&["spot.trades", "futures.trades", "options.trades"]),
        _ => *rng.pick(&["trade", "spread"]),
    }
}

fn consts_case(out: &mut Out, id: &str) {
    out.case(id);
    for (ex, _) in CONNECTORS {
        out.line(format!("consts {ex}"));
    }
    out.line("census");
}

fn generate(seed: u64, n_cases: usize, tier: &str) {
    let mut out = Out::new();
    let mut rng = Rng::new(seed);
    let thorough = tier == "thorough";
    // the finite tables: every connector, every run
    consts_case(&mut out, "tables");
    out.case("expected-table");
    for (ex, _) in CONNECTORS {
        for n in [0usize, 1, 2, 5] {
            out.line(format!("exp {ex} {n}"));
        }
    }
    // the empty subscription list, every pair
    out.case("empty");
    for (ex, kind) in PAIRS {
        out.line(format!("sub {ex} {kind}"));
    }
    for (ex, _) in CONNECTORS {
        out.line(format!("req {ex}"));
    }
    if thorough {
        // small scope, exhaustively: every list of length <= 3 over three instruments of the pair (two of them
        // with the same venue symbol) for each of the 21 pairs
        for (ex, kind) in PAIRS {
            let k = gen_kind(&mut rng, ex);
            let pool = [format!("btc:usdt:{k}"), format!("BTC:Usdt:{k}"), format!("eth:usdt:{}", gen_kind(&mut rng, ex))];
            let mut n = 0;
            for len in 1..=3usize {
                for mut code in 0..pool.len().pow(len as u32) {
                    n += 1;
                    out.case(format!("x-{ex}-{kind}-{n}"));
                    let mut l = vec![];
                    for _ in 0..len {
                        l.push(pool[code % pool.len()].clone());
                        code /= pool.len();
                    }
                    out.line(format!("sub {ex} {kind} {}", l.join(" ")));
                    out.line(format!("sub {ex} {kind} {}", l[..len - 1].join(" ")).trim_end().to_string());
                }
            }
        }
        // every `req` list of length <= 2 over four topics per connector
        for (ex, fam) in CONNECTORS {
            let c = real_channel(&mut rng, fam);
            let pool = [format!("={c} =BTCUSD"), format!("={c} =btcusd"), "=x.y:z =A@b".to_string(), "=@q =".to_string()];
            let mut n = 0;
            for len in 1..=2usize {
                for mut code in 0..pool.len().pow(len as u32) {
                    n += 1;
                    out.case(format!("y-{ex}-{n}"));
                    let mut l = vec![];
                    for _ in 0..len {
                        l.push(pool[code % pool.len()].clone());
                        code /= pool.len();
                    }
                    out.line(format!("req {ex} {}", l.join(" ")));
                    out.line(format!("req {ex} {}", l[0]));
                }
            }
        }
    }
    for id in 0..n_cases {
        if id % 3 != 2 {
            // instrument-level: WebSocketSubMapper::map
            let (ex, kind) = PAIRS[(id - id / 3) % PAIRS.len()];
            out.case(format!("{}-sub-{ex}-{kind}", id + 1));
            let max = if thorough { 7 } else { 5 };
            let n_inst = rng.range(1, max) as usize;
            let mut parts: Vec<(String, String, String)> = Vec::new();
            for _ in 0..n_inst {
                if !parts.is_empty() && rng.chance(20) {
                    // an exact duplicate, or the same market in another spelling
                    let (b, q, k) = rng.pick(&parts).clone();
                    parts.push(if rng.chance(50) { (b, q, k) } else { (b.to_ascii_uppercase(), q.to_ascii_uppercase(), k) });
                } else {
                    let t = gen_inst(&mut rng, ex);
                    let f: Vec<&str> = t.splitn(3, ':').collect();
                    parts.push((f[0].to_string(), f[1].to_string(), f[2].to_string()));
                }
            }
            let insts: Vec<String> = parts.iter().map(|(b, q, k)| format!("{b}:{q}:{k}")).collect();
            out.line(format!("sub {ex} {kind} {}", insts.join(" ")));
            // the same set in another order / with one more / one fewer: order and count must follow
            let mut other = insts.clone();
            match rng.below(3) {
                0 => other.reverse(),
                1 => other.push(gen_inst(&mut rng, ex)),
                _ => {
                    other.pop();
                }
            }
            out.line(format!("sub {ex} {kind} {}", other.join(" ")).trim_end().to_string());
            out.line(format!("exp {ex} {}", rng.range(0, 6)));
        } else {
            // ExchangeSub-level: Connector::requests on arbitrary channel / market text
            let (ex, fam) = CONNECTORS[(id / 3) % CONNECTORS.len()];
            out.case(format!("{}-req-{ex}", id + 1));
            for _ in 0..rng.range(2, 3) {
                let n = rng.range(0, if thorough { 5 } else { 4 });
                let mut toks = vec![];
                // 60 % of the requests only use names the venue's grammar can carry (so that the spec speaks)
                let clean = rng.chance(60);
                for _ in 0..n {
                    let c = if clean || rng.chance(70) { real_channel(&mut rng, fam).to_string() } else { gen_text(&mut rng, true) };
                    let m = if clean {
                        let x = format!("{}{}{}", rng.pick(&ASSETS), rng.pick(&["", "-", "/", "_", "|"]), rng.pick(&ASSETS));
                        if rng.chance(70) { x.to_ascii_uppercase() } else { x }
                    } else if rng.chance(50) {
                        format!("{}{}", rng.pick(&ASSETS), rng.pick(&ASSETS)).to_ascii_uppercase()
                    } else {
                        { let e = rng.chance(10); gen_text(&mut rng, e) }
                    };
                    toks.push(format!("={c} ={m}"));
                }
                out.line(format!("req {ex} {}", toks.join(" ")).trim_end().to_string());
            }
        }
    }
    out.flush();
}

fn main() {
    let a = args();
    match a.cmd.as_str() {
        "gen" => generate(a.seed, a.n, &a.tier),
        "run" => run(),
        _ => {
            eprintln!("usage: c13q gen <seed> <n> <tier> | run < cases");
            std::process::exit(2)
        }
    }
}
